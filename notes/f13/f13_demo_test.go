package io

import (
	"bytes"
	"io"
	"testing"
)

type nopWC struct{ *bytes.Buffer }

func (nopWC) Close() error { return nil }

type nopRC struct{ *bytes.Reader }

func (nopRC) Close() error { return nil }

func rt(t *testing.T, name string, data []byte, transform, entropy string, bs uint, hint int64) {
	var buf bytes.Buffer
	w, err := NewWriter(nopWC{&buf}, transform, entropy, bs, 1, 0, hint, false)
	if err != nil {
		t.Logf("%s: ctor rejected: %v", name, err)
		return
	}
	if _, err := w.Write(data); err != nil {
		t.Errorf("%s: Write: %v", name, err)
		return
	}
	if err := w.Close(); err != nil {
		t.Errorf("%s: Close: %v", name, err)
		return
	}
	r, err := NewReader(nopRC{bytes.NewReader(buf.Bytes())}, 1)
	if err != nil {
		t.Errorf("%s: NewReader: %v", name, err)
		return
	}
	out, err := io.ReadAll(r)
	if err != nil {
		t.Errorf("%s: Read: %v", name, err)
		return
	}
	if !bytes.Equal(out, data) {
		t.Errorf("%s: mismatch", name)
	}
}

// F13: a negative size hint was stored as 16 bits but mixed into the header checksum with all 64 bits
func TestF13NegativeHint(t *testing.T) {
	rt(t, "neghint", []byte("hello world hello world"), "NONE", "NONE", 1024*1024, -5)
	rt(t, "neghint-min", []byte("hello world hello world"), "NONE", "NONE", 1024*1024, -1<<63)
}

package bitstream

import (
	"bytes"
	"testing"
)

type nopWC2 struct{ *bytes.Buffer }

func (nopWC2) Close() error { return nil }

func try(f func()) (r any) {
	defer func() { r = recover() }()
	f()
	return nil
}

func TestF14RefusedWriteLeavesWrittenAlone(t *testing.T) {
	var buf bytes.Buffer
	obs, _ := NewDefaultOutputBitStream(nopWC2{&buf}, 1024)
	obs.WriteBits(0x1234, 16)
	obs.Close()
	w0 := obs.Written()
	r1 := try(func() { obs.WriteBits(1, 8) })
	w1 := obs.Written()
	r2 := try(func() { obs.WriteBits(1, 8) })
	w2 := obs.Written()
	r3 := try(func() { obs.WriteBit(1) })
	w3 := obs.Written()
	r4 := try(func() { obs.WriteArray([]byte{1, 2, 3, 4, 5, 6, 7, 8, 9}, 72) })
	w4 := obs.Written()
	t.Logf("w0=%d r1=%v w1=%d r2=%v w2=%d r3=%v w3=%d r4=%v w4=%d", w0, r1, w1, r2, w2, r3, w3, r4, w4)
	if w1 != w0 || w2 != w0 || w3 != w0 || w4 != w0 {
		t.Errorf("Written changed after refused operations")
	}
}

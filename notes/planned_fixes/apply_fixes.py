#!/usr/bin/env python3
"""Planned repairs for findings F1-F9 (see DESIGN.md section 5).

Usage: apply_fixes.py <repo-root> [--commit]
Applies each repair as anchored substitutions to <repo-root>/v2 and, with --commit,
creates one "fix:" commit per finding. Drafted and validated on a scratch clone during
the design phase (suite green, produced streams byte-identical on 123 configurations);
NOT applied to /repo yet.
"""
import subprocess, sys

root = sys.argv[1]
commit = '--commit' in sys.argv


def sub(path, old, new, count=1):
    p = f'{root}/v2/{path}'
    s = open(p).read()
    assert s.count(old) == count, (path, old[:70], s.count(old))
    open(p, 'w').write(s.replace(old, new))


def done(msg, files):
    subprocess.check_call(['go', 'build', './...'], cwd=f'{root}/v2')
    if commit:
        subprocess.check_call(['git', 'add'] + [f'v2/{f}' for f in files], cwd=root)
        subprocess.check_call(['git', 'commit', '-q', '-m', msg], cwd=root)
    print('applied:', msg.splitlines()[0])


CS = 'io/CompressedStream.go'

# ---- F3 (C01, R-CTXTYPE)
sub(CS, 'this.ctx["bsVersion"] = _BITSTREAM_FORMAT_VERSION\n',
    'this.ctx["bsVersion"] = uint(_BITSTREAM_FORMAT_VERSION)\n')
done('fix: store the default bsVersion of a headerless reader as uint\n\n'
     'The codecs assert ctx["bsVersion"].(uint); the untyped constant was stored as int, so a\n'
     'headerless Reader created without an explicit bsVersion failed on the first block.', [CS])

# ---- F2 (C15/C01, R-NAMECMP)
sub('transform/ROLZCodec.go', 'if strings.Contains(transform, "ROLZX") {',
    'if strings.Contains(strings.ToUpper(transform), "ROLZX") {')
sub('entropy/TPAQPredictor.go', 'this.extra = codec == "TPAQX"', 'this.extra = strings.ToUpper(codec) == "TPAQX"')
sub('entropy/TPAQPredictor.go', '\t"math/bits"\n)', '\t"math/bits"\n\t"strings"\n)')
sub('transform/TextCodec.go', 'if entropyName == "TPAQX" {', 'if strings.ToUpper(entropyName) == "TPAQX" {', count=2)
sub('transform/TextCodec.go', 'import (\n\t"errors"\n\t"fmt"\n', 'import (\n\t"errors"\n\t"fmt"\n\t"strings"\n')
done('fix: select ROLZX/TPAQX codec variants case-insensitively\n\n'
     'Codec names are accepted in any case, but the variant was chosen by comparing the raw\n'
     'context string, so "rolzx"/"tpaqx" encoded with the plain variant under an X header.',
     ['transform/ROLZCodec.go', 'entropy/TPAQPredictor.go', 'transform/TextCodec.go'])

# ---- F1 (C02/C05, R-ERRSTATE)
sub(CS, '''			if r.decoded > this.blockSize {
				errMsg := fmt.Sprintf("Block %d incorrectly decompressed", r.blockID)
				return decoded, &IOError{msg: errMsg, code: kanzi.ERR_PROCESS_BLOCK}
			}

			decoded += int64(r.decoded)

			if r.err != nil {
				return decoded, r.err
			}
''', '''			if r.err != nil {
				return 0, r.err
			}

			if r.decoded > this.blockSize {
				errMsg := fmt.Sprintf("Block %d incorrectly decompressed", r.blockID)
				return 0, &IOError{msg: errMsg, code: kanzi.ERR_PROCESS_BLOCK}
			}

			decoded += int64(r.decoded)
''')
done('fix: do not make the bytes of a failed block batch available to Read\n\n'
     'Reader.processBlock returned the byte count of the failed batch with the error; the\n'
     'next Read then delivered the corrupted block (and stale buffers) as a success.', [CS])

# ---- F9 (C01/C04, R-HINT)
sub(CS, '''		// Limit the number of jobs if there are fewer blocks that this.jobs
		// It allows more jobs per task and reduces memory usage.
		if this.nbInputBlocks > 0 {
			nbTasks = min(nbTasks, this.nbInputBlocks)
		}

		jobsPerTask, _ = internal.ComputeJobsPerTask(make([]uint, nbTasks), uint(this.jobs), uint(nbTasks))
	} else {
		jobsPerTask = []uint{uint(this.jobs)}
	}

	tasks := 0''', '''		// Limit the number of tasks to the number of buffered blocks.
		// It allows more jobs per task and reduces memory usage.
		// Do not rely on the (advisory) input size: all buffered blocks must be encoded.
		nbTasks = min(nbTasks, (this.available+this.blockSize-1)/this.blockSize)
		jobsPerTask, _ = internal.ComputeJobsPerTask(make([]uint, nbTasks), uint(this.jobs), uint(nbTasks))
	} else {
		jobsPerTask = []uint{uint(this.jobs)}
	}

	tasks := 0''')
done('fix: encode every buffered block even when the input size hint is too small\n\n'
     'The number of tasks was capped by the advisory fileSize; with a hint smaller than the\n'
     'data and jobs > 1, buffered blocks were skipped and earlier ones encoded twice.', [CS])

# ---- F5 (C08/C07, R-POISON)
sub(CS, '''	if this.available == 0 {
		return nil
	}

	off := 0
''', '''	// A previous batch failed: the stream is incomplete, do not report success
	if atomic.LoadInt32(&this.blockID) == _CANCEL_TASKS_ID {
		return &IOError{msg: "Stream invalidated by a previous write error", code: kanzi.ERR_WRITE_FILE}
	}

	if this.available == 0 {
		return nil
	}

	off := 0
''')
sub(CS, '''		return 0, &IOError{msg: "Stream closed", code: kanzi.ERR_WRITE_FILE}
	}

	off := 0
	remaining := len(block)
''', '''		return 0, &IOError{msg: "Stream closed", code: kanzi.ERR_WRITE_FILE}
	}

	if atomic.LoadInt32(&this.blockID) == _CANCEL_TASKS_ID {
		return 0, &IOError{msg: "Stream invalidated by a previous write error", code: kanzi.ERR_WRITE_FILE}
	}

	off := 0
	remaining := len(block)
''')
done('fix: keep failing Write/Close after a block batch could not be written\n\n'
     'After a failed batch the shared block counter stays cancelled; later tasks returned\n'
     'without writing and without error, so Write and Close reported success for a stream\n'
     'that had lost blocks.', [CS])

# ---- F4 (C08, R-PANIC-API)
sub(CS, '''func (this *Writer) writeHeader() *IOError {
	if this.headless == true || atomic.SwapInt32(&this.initialized, 1) != 0 {
		return nil
	}
''', '''// Use a named return value to update the error in the defer function (after return is executed)
func (this *Writer) writeHeader() (err *IOError) {
	if this.headless == true || atomic.SwapInt32(&this.initialized, 1) != 0 {
		return nil
	}

	defer func() {
		// The bitstream panics when the underlying stream fails
		if r := recover(); r != nil {
			switch v := r.(type) {
			case error:
				err = &IOError{msg: v.Error(), code: kanzi.ERR_WRITE_FILE}
			default:
				err = &IOError{msg: fmt.Sprint(v), code: kanzi.ERR_WRITE_FILE}
			}
		}
	}()
''')
sub(CS, '''func (this *Writer) Close() error {
	if atomic.LoadInt32(&this.closed) == 1 {
		return nil
	}
''', '''func (this *Writer) Close() (err error) {
	if atomic.LoadInt32(&this.closed) == 1 {
		return nil
	}

	defer func() {
		// The bitstream panics when the underlying stream fails
		if r := recover(); r != nil {
			switch v := r.(type) {
			case error:
				err = &IOError{msg: v.Error(), code: kanzi.ERR_WRITE_FILE}
			default:
				err = &IOError{msg: fmt.Sprint(v), code: kanzi.ERR_WRITE_FILE}
			}
		}
	}()
''')
done('fix: convert bitstream panics in Writer.Close and the header write into errors\n\n'
     'A sink failure during the flush triggered by the end marker (or the header) escaped\n'
     'Writer.Close/Write as a panic instead of an error.', [CS])

# ---- F7 (C18, R-TOKEN)
sub(CS, '''		notifyListeners(this.listeners, evt)

		if v, hasKey := this.ctx["verbosity"]; hasKey {
			blockOffset := this.obs.Written()

			if v.(uint) > 4 {
				msg := fmt.Sprintf("{ \\"type\\":\\"%s\\", \\"id\\":%d, \\"offset\\":%d, \\"skipFlags\\":%.8b }",
					"BLOCK_INFO", int(this.currentBlockID), blockOffset, skipFlags)
				evt1 := kanzi.NewEventFromString(kanzi.EVT_BLOCK_INFO, int(this.currentBlockID), msg, time.Now())
				notifyListeners(this.listeners, evt1)
			}
		}
	}

	// Lock free synchronization
''', '''		notifyListeners(this.listeners, evt)
	}

	// Lock free synchronization
''')
sub(CS, '''		if n&0x1F == 0 {
			runtime.Gosched()
		}
	}

	// Emit block size in bits (max size pre-entropy is 1 GB = 1 << 30 bytes)
''', '''		if n&0x1F == 0 {
			runtime.Gosched()
		}
	}

	if len(this.listeners) > 0 {
		if v, hasKey := this.ctx["verbosity"]; hasKey {
			if v.(uint) > 4 {
				// The shared bitstream can only be accessed by the task owning the block id
				blockOffset := this.obs.Written()
				msg := fmt.Sprintf("{ \\"type\\":\\"%s\\", \\"id\\":%d, \\"offset\\":%d, \\"skipFlags\\":%.8b }",
					"BLOCK_INFO", int(this.currentBlockID), blockOffset, skipFlags)
				evt1 := kanzi.NewEventFromString(kanzi.EVT_BLOCK_INFO, int(this.currentBlockID), msg, time.Now())
				notifyListeners(this.listeners, evt1)
			}
		}
	}

	// Emit block size in bits (max size pre-entropy is 1 GB = 1 << 30 bytes)
''')
done('fix: read the shared bitstream offset for BLOCK_INFO only while owning the block id\n\n'
     'With verbosity > 4 and several jobs, encode tasks called Written() on the shared\n'
     'bitstream while another task was writing to it (data race, wrong offset).', [CS])

# ---- F6 (C06, R-REFILL)
sub('bitstream/DefaultInputBitStream.go', '''	this.read += (int64(this.position << 3))
	size, err := this.is.Read(this.buffer[0:count])
	this.position = 0
''', '''	this.read += (int64(this.position << 3))
	size := 0
	var err error

	// The underlying stream may return fewer bytes than requested (pipe, socket, ...).
	// Fill the buffer until the request is satisfied or the stream fails/ends:
	// a partially filled 64 bit word must only occur at the end of the stream.
	for emptyReads := 0; size < count && err == nil; {
		var n int
		n, err = this.is.Read(this.buffer[size:count])

		if n > 0 {
			size += n
			emptyReads = 0
		} else if err == nil {
			// Nothing happened (see io.Reader), do not spin forever
			if emptyReads++; emptyReads >= 100 {
				err = io.ErrNoProgress
			}
		}
	}

	this.position = 0
''')
done('fix: refill the input bitstream buffer completely when the source returns short reads\n\n'
     'A short read left a partial 64 bit word in the middle of the stream; the bulk read\n'
     'paths treat such a word as end of stream, so decoding from pipes or sockets failed or\n'
     'produced wrong bits.', ['bitstream/DefaultInputBitStream.go'])

# ---- F8 (C03, R-GOREC)
sub('transform/BWT.go', '''	var wg sync.WaitGroup

	for j, c := 0, 0; j < nbTasks; j++ {
		wg.Add(1)
		start := c * ckSize

		go func(dst []byte, buckets []int, fastBits []uint16, indexes []uint, total, start, ckSize, firstChunk, lastChunk int) {
			this.inverseBiPSIv2Task(dst, buckets, fastBits, indexes, total, start, ckSize, firstChunk, lastChunk)
			wg.Done()
		}(dst, buckets[:], fastBits, this.primaryIndexes[:], count, start, ckSize, c, c+int(jobsPerTask[j]))

		c += int(jobsPerTask[j])
	}

	wg.Wait()
''', '''	var wg sync.WaitGroup
	errs := make([]error, nbTasks)

	for j, c := 0, 0; j < nbTasks; j++ {
		wg.Add(1)
		start := c * ckSize

		go func(res *error, dst []byte, buckets []int, fastBits []uint16, indexes []uint, total, start, ckSize, firstChunk, lastChunk int) {
			defer wg.Done()

			// Invalid data (EG. corrupted primary indexes) must not crash the process
			defer func() {
				if r := recover(); r != nil {
					*res = fmt.Errorf("BWT inverse transform failed: %v", r)
				}
			}()

			this.inverseBiPSIv2Task(dst, buckets, fastBits, indexes, total, start, ckSize, firstChunk, lastChunk)
		}(&errs[j], dst, buckets[:], fastBits, this.primaryIndexes[:], count, start, ckSize, c, c+int(jobsPerTask[j]))

		c += int(jobsPerTask[j])
	}

	wg.Wait()

	for _, err := range errs {
		if err != nil {
			return 0, 0, err
		}
	}
''')
done('fix: recover panics in the inverse BWT worker goroutines\n\n'
     'A forged secondary primary index made a worker goroutine index out of range; a panic\n'
     'in a goroutine without recover terminates the whole process.', ['transform/BWT.go'])

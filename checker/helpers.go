package main

import (
	"go/token"
	"go/types"

	"golang.org/x/tools/go/ssa"
)

// ---------------------------------------------------------------------------------------
// Helper-extraction tolerance: the stream layer's long functions are the natural target of "extract method"
// refactorings. The rules therefore look through same-package static callees in a few well-defined ways:
//   - site lifting: a call to a helper that (transitively) contains a site of interest counts as that site;
//   - predicate helpers: a bool helper whose `true` returns all lie behind the acquire edge (and whose `false`
//     returns all lie behind the cancel edge) stands for those edges at its call site;
//   - builder helpers: a helper that fills the task literal is analysed with its parameters replaced by the
//     arguments of its call site.
// ---------------------------------------------------------------------------------------

// helperClosure returns the same-package static callees of f (transitively, bounded depth), excluding f.
func (p *Prog) helperClosure(f *ssa.Function) []*ssa.Function {
	seen := map[*ssa.Function]bool{f: true}
	var out []*ssa.Function
	var visit func(g *ssa.Function, d int)
	visit = func(g *ssa.Function, d int) {
		if d > 3 {
			return
		}
		eachInstr(g, func(i ssa.Instruction) {
			if _, isGo := i.(*ssa.Go); isGo {
				return
			}
			c := callOf(i)
			if c == nil {
				return
			}
			h := c.StaticCallee()
			if h == nil || h.Blocks == nil || seen[h] || FnPkg(h) != FnPkg(f) || h.Parent() != nil {
				return
			}
			seen[h] = true
			out = append(out, h)
			visit(h, d+1)
		})
		for _, an := range g.AnonFuncs {
			if !seen[an] {
				seen[an] = true
				visit(an, d+1)
			}
		}
	}
	visit(f, 0)
	return out
}

// helperCallee: i is a (non-go) call to a same-package static helper with a body.
func helperCallee(i ssa.Instruction, pkg *ssa.Package) *ssa.Function {
	if _, isGo := i.(*ssa.Go); isGo {
		return nil
	}
	if _, isDefer := i.(*ssa.Defer); isDefer {
		return nil // runs at function exit, not here; exit handlers are analysed on their own
	}
	c := callOf(i)
	if c == nil {
		return nil
	}
	h := c.StaticCallee()
	if h == nil || h.Blocks == nil || FnPkg(h) != pkg || h.Parent() != nil {
		return nil
	}
	return h
}

// containsDeep: f or one of its helpers contains an instruction satisfying pred.
func (p *Prog) containsDeep(f *ssa.Function, pred func(ssa.Instruction) bool, memo map[*ssa.Function]int) bool {
	if v, ok := memo[f]; ok {
		return v == 1
	}
	memo[f] = 0
	found := false
	eachInstr(f, func(i ssa.Instruction) {
		if found {
			return
		}
		if pred(i) {
			found = true
			return
		}
		if h := helperCallee(i, FnPkg(f)); h != nil && h != f {
			if p.containsDeep(h, pred, memo) {
				found = true
			}
		}
	})
	if found {
		memo[f] = 1
	}
	return found
}

// liftedSites: the instructions of f that satisfy pred, plus the calls in f to helpers that contain one.
func (p *Prog) liftedSites(f *ssa.Function, pred func(ssa.Instruction) bool) (direct []ssa.Instruction, viaHelper []ssa.Instruction) {
	memo := map[*ssa.Function]int{}
	eachInstr(f, func(i ssa.Instruction) {
		if pred(i) {
			direct = append(direct, i)
			return
		}
		if h := helperCallee(i, FnPkg(f)); h != nil && h != f && p.containsDeep(h, pred, memo) {
			viaHelper = append(viaHelper, i)
		}
	})
	return
}

// boolReturns classifies the returns of a helper that returns a single bool constant on every path.
func boolReturns(h *ssa.Function) (trues, falses []*ssa.Return, ok bool) {
	if h.Signature.Results().Len() != 1 || !isBool(h.Signature.Results().At(0).Type()) {
		return nil, nil, false
	}
	ok = true
	for _, b := range h.Blocks {
		if b == h.Recover {
			continue
		}
		ret, isRet := b.Instrs[len(b.Instrs)-1].(*ssa.Return)
		if !isRet {
			continue
		}
		c, isC := rvals(ret)[0].(*ssa.Const)
		if !isC || c.Value == nil {
			return nil, nil, false
		}
		if c.Value.String() == "true" {
			trues = append(trues, ret)
		} else {
			falses = append(falses, ret)
		}
	}
	return
}

// cancelEdgesLocal: edges of f taken when the counter load equals the cancel value (no helper look-through).
func (s *taskSide) cancelEdgesLocal(f *ssa.Function, cancel int64) []edge {
	var out []edge
	for _, b := range f.Blocks {
		ifi := blockIf(b)
		if ifi == nil {
			continue
		}
		atom, pos := condAtom(ifi.Cond)
		bo, ok := atom.(*ssa.BinOp)
		if !ok || (bo.Op != token.EQL && bo.Op != token.NEQ) {
			continue
		}
		for _, pair := range [][2]ssa.Value{{bo.X, bo.Y}, {bo.Y, bo.X}} {
			if kc, ok := constInt(pair[1]); ok && kc == cancel && s.counterLoad(pair[0]) {
				out = append(out, edge{b, succFor(pos, bo.Op == token.EQL)})
			}
		}
	}
	return out
}

// turnPredicate: h is a bool helper whose true returns all lie behind an acquire edge and whose false returns all
// lie behind a cancel edge.
func (s *taskSide) turnPredicate(h *ssa.Function, cancel int64) bool {
	trues, falses, ok := boolReturns(h)
	if !ok || len(trues) == 0 {
		return false
	}
	acq := s.acquireEdgesLocal(h)
	can := s.cancelEdgesLocal(h, cancel)
	for _, t := range trues {
		dom := false
		for _, e := range acq {
			if edgeDominates(h, e, t.Block()) {
				dom = true
			}
		}
		if !dom {
			return false
		}
	}
	for _, fr := range falses {
		dom := false
		for _, e := range can {
			if edgeDominates(h, e, fr.Block()) {
				dom = true
			}
		}
		if !dom {
			return false
		}
	}
	return true
}

// predicateEdges: If statements of f whose condition is a call to a turn predicate; returns (acquire edges, cancel edges).
func (s *taskSide) predicateEdges(f *ssa.Function, cancel int64) (acq, can []edge) {
	for _, b := range f.Blocks {
		ifi := blockIf(b)
		if ifi == nil {
			continue
		}
		atom, pos := condAtom(ifi.Cond)
		c, ok := atom.(*ssa.Call)
		if !ok {
			continue
		}
		h := c.Call.StaticCallee()
		if h == nil || h.Blocks == nil || FnPkg(h) != FnPkg(f) {
			continue
		}
		// analyse the helper with its parameters bound to the arguments of this call
		saved := s.bind
		s.bind = map[*ssa.Parameter]ssa.Value{}
		for k, v := range saved {
			s.bind[k] = v
		}
		for i, prm := range h.Params {
			if i < len(c.Call.Args) {
				s.bind[prm] = c.Call.Args[i]
			}
		}
		isTurn := s.turnPredicate(h, cancel)
		s.bind = saved
		if isTurn {
			acq = append(acq, edge{b, succFor(pos, true)})
			can = append(can, edge{b, succFor(pos, false)})
		}
	}
	return
}

func cancelValue(p *Prog) int64 {
	if c := p.Pkg("io").Const("_CANCEL_TASKS_ID"); c != nil {
		return c.Value.Int64()
	}
	return -1
}

// deferredTarget returns the function run by a defer instruction (closure or static function/method).
func deferredTarget(d *ssa.Defer) *ssa.Function {
	switch v := d.Call.Value.(type) {
	case *ssa.MakeClosure:
		return v.Fn.(*ssa.Function)
	case *ssa.Function:
		return v
	}
	return d.Call.StaticCallee()
}

// bindingOf maps a value of the deferred handler d (free variable of a closure, or parameter of a deferred method)
// back to the value the task function passes for it.
func bindingOf(taskFn, d *ssa.Function, v ssa.Value) ssa.Value {
	var out ssa.Value
	switch x := v.(type) {
	case *ssa.FreeVar:
		idx := -1
		for i, fv := range d.FreeVars {
			if fv == x {
				idx = i
			}
		}
		eachInstr(taskFn, func(i ssa.Instruction) {
			if mc, ok := i.(*ssa.MakeClosure); ok && mc.Fn == d && idx >= 0 && idx < len(mc.Bindings) {
				out = mc.Bindings[idx]
			}
		})
	case *ssa.Parameter:
		idx := -1
		for i, pr := range d.Params {
			if pr == x {
				idx = i
			}
		}
		eachInstr(taskFn, func(i ssa.Instruction) {
			if df, ok := i.(*ssa.Defer); ok && deferredTarget(df) == d && idx >= 0 && idx < len(df.Call.Args) {
				out = df.Call.Args[idx]
			}
		})
	}
	return out
}

// returnsFresh: every return of h yields an allocation made inside h (map, slice, new object).
func returnsFresh(h *ssa.Function) bool {
	if h == nil || h.Blocks == nil || h.Signature.Results().Len() != 1 {
		return false
	}
	ok := false
	for _, b := range h.Blocks {
		ret, isRet := b.Instrs[len(b.Instrs)-1].(*ssa.Return)
		if !isRet || b == h.Recover {
			continue
		}
		switch rvals(ret)[0].(type) {
		case *ssa.MakeMap, *ssa.MakeSlice, *ssa.Alloc:
			ok = true
		default:
			return false
		}
	}
	return ok
}

var _ = types.Typ

// scanFunction: the function that walks the task results (tests a result's error field): processBlock itself or a
// helper it calls; for a helper also the call instruction in processBlock.
func scanFunction(p *Prog, s *taskSide) (*ssa.Function, *ssa.Call) {
	has := func(f *ssa.Function) bool {
		found := false
		for _, b := range f.Blocks {
			if ifi := blockIf(b); ifi != nil {
				if x, _, ok := nilTest(ifi.Cond); ok && fieldVarOfLoad(x) == s.errField {
					found = true
				}
			}
		}
		return found
	}
	if has(s.parent) {
		return s.parent, nil
	}
	if s.entry != nil && s.entry != s.parent && has(s.entry) {
		return s.entry, nil // the launcher was extracted; the scan stayed in processBlock
	}
	for _, h := range p.helperClosure(s.parent) {
		if !has(h) {
			continue
		}
		var call *ssa.Call
		eachInstr(s.parent, func(i ssa.Instruction) {
			if c, ok := i.(*ssa.Call); ok && c.Call.StaticCallee() == h {
				call = c
			}
		})
		if call != nil {
			return h, call
		}
	}
	return s.parent, nil
}

// atomicOnlyParam: parameter prm of helper h is used only as the address argument of sync/atomic calls (or handed on
// to helpers that do the same).
func atomicOnlyParam(h *ssa.Function, prm *ssa.Parameter, depth int) bool {
	if depth > 3 || h.Blocks == nil {
		return false
	}
	refs := prm.Referrers()
	if refs == nil {
		return true
	}
	for _, ref := range *refs {
		if _, isDbg := ref.(*ssa.DebugRef); isDbg {
			continue
		}
		c := callOf(ref)
		if c == nil {
			return false
		}
		callee := c.StaticCallee()
		if callee != nil && callee.Pkg != nil && callee.Pkg.Pkg.Path() == "sync/atomic" && len(c.Args) > 0 && c.Args[0] == ssa.Value(prm) {
			continue
		}
		if callee != nil && callee.Blocks != nil && FnPkg(callee) == FnPkg(h) {
			okAll := true
			for i, a := range c.Args {
				if a == ssa.Value(prm) && (i >= len(callee.Params) || !atomicOnlyParam(callee, callee.Params[i], depth+1)) {
					okAll = false
				}
			}
			if okAll {
				continue
			}
		}
		return false
	}
	return true
}

// trivialFn: a module function that can neither panic nor have an effect: its body consists of returns, jumps,
// arithmetic without division, conversions, and calls to other trivial functions (trace hooks, feature-flag getters).
func trivialFn(f *ssa.Function, depth int) bool {
	if f == nil || f.Blocks == nil || depth > 3 {
		return false
	}
	ok := true
	eachInstr(f, func(i ssa.Instruction) {
		switch x := i.(type) {
		case *ssa.Return, *ssa.Jump, *ssa.If, *ssa.Phi, *ssa.Convert, *ssa.ChangeType, *ssa.DebugRef:
		case *ssa.BinOp:
			if x.Op == token.QUO || x.Op == token.REM || x.Op == token.SHL || x.Op == token.SHR {
				ok = false
			}
		case *ssa.UnOp:
			if x.Op == token.MUL || x.Op == token.ARROW {
				ok = false
			}
		case *ssa.Call:
			if !trivialFn(x.Call.StaticCallee(), depth+1) {
				ok = false
			}
		default:
			ok = false
		}
	})
	return ok
}

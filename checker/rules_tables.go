package main

import (
	"fmt"
	"go/ast"
	"go/constant"
	"go/token"
	"go/types"
	"sort"
	"strings"

	"golang.org/x/tools/go/ssa"
)

// ---------------------------------------------------------------------------------------
// E1: table extraction from switch statements; R-TABLES, R-FACTORY-PAIR, R-LEVELS
// ---------------------------------------------------------------------------------------

func init() {
	register("R-TABLES", "name<->type<->constructor tables of transforms and entropy codecs are bijections, lookups upper-case first, every accepted name has a constructor in every factory", false, ruleTables)
	register("R-FACTORY-PAIR", "for each entropy code the encoder and decoder factories build the same codec family with the same constant arguments and the same predictor", false, ruleFactoryPair)
	register("R-LEVELS", "every token of the CLI level table is a name of the codec tables", false, ruleLevels)
}

type swCase struct {
	key   constant.Value
	body  *ssa.BasicBlock
	ifBlk *ssa.BasicBlock
	pos   token.Pos
}

type swTable struct {
	fn    *ssa.Function
	tag   ssa.Value
	cases []swCase
	chain map[*ssa.BasicBlock]bool // blocks holding the case tests
}

// extractSwitch finds the largest chain of `tag == const` tests on a single tag value in f.
func extractSwitch(f *ssa.Function) *swTable {
	byTag := map[ssa.Value]*swTable{}
	for _, b := range f.Blocks {
		ifi := blockIf(b)
		if ifi == nil {
			continue
		}
		atom, pos := condAtom(ifi.Cond)
		bo, ok := atom.(*ssa.BinOp)
		if !ok || bo.Op != token.EQL {
			continue
		}
		var tag ssa.Value
		var c *ssa.Const
		if cc, ok := bo.Y.(*ssa.Const); ok {
			tag, c = bo.X, cc
		} else if cc, ok := bo.X.(*ssa.Const); ok {
			tag, c = bo.Y, cc
		}
		if c == nil || c.Value == nil {
			continue
		}
		t := byTag[tag]
		if t == nil {
			t = &swTable{fn: f, tag: tag, chain: map[*ssa.BasicBlock]bool{}}
			byTag[tag] = t
		}
		t.cases = append(t.cases, swCase{c.Value, b.Succs[succFor(pos, true)], b, ifi.Cond.Pos()})
		t.chain[b] = true
	}
	var best *swTable
	for _, t := range byTag {
		if best == nil || len(t.cases) > len(best.cases) {
			best = t
		}
	}
	return best
}

// caseRegion: blocks reachable from the case body without entering the test chain.
func (t *swTable) caseRegion(c swCase) map[*ssa.BasicBlock]bool {
	return reach(c.body, nil, t.chain)
}

// caseConstResult: the constant first result returned from the case region (nil if none or ambiguous).
func (t *swTable) caseConstResult(c swCase) constant.Value {
	var out constant.Value
	n := 0
	for b := range t.caseRegion(c) {
		if ret, ok := b.Instrs[len(b.Instrs)-1].(*ssa.Return); ok && len(ret.Results) > 0 {
			if cc, ok := rvals(ret)[0].(*ssa.Const); ok && cc.Value != nil {
				// skip error returns of nested failure paths: constant zero value together with non-nil error
				if len(ret.Results) > 1 && !definitelyNil(rvals(ret)[len(ret.Results)-1]) {
					continue
				}
				out = cc.Value
				n++
			}
		}
	}
	if n != 1 {
		return nil
	}
	return out
}

type ctorCall struct {
	name string
	args []string // constant arguments, printed
}

func (c ctorCall) String() string { return c.name + "(" + strings.Join(c.args, ",") + ")" }

// caseCtors: static calls to module functions made in the case region.
func (t *swTable) caseCtors(p *Prog, c swCase) []ctorCall {
	var out []ctorCall
	for b := range t.caseRegion(c) {
		for _, in := range b.Instrs {
			call, ok := in.(*ssa.Call)
			if !ok {
				continue
			}
			callee := call.Call.StaticCallee()
			if callee == nil || !p.InModule(callee) {
				continue
			}
			cc := ctorCall{name: callee.Name()}
			for _, a := range call.Call.Args {
				if k, ok := a.(*ssa.Const); ok && k.Value != nil {
					cc.args = append(cc.args, k.Value.ExactString())
				}
				// variadic arguments: slice of a local array filled with element stores
				if sl, ok := a.(*ssa.Slice); ok {
					if al, ok := sl.X.(*ssa.Alloc); ok {
						for _, ref := range *al.Referrers() {
							ia, ok := ref.(*ssa.IndexAddr)
							if !ok {
								continue
							}
							for _, r2 := range *ia.Referrers() {
								if st, ok := r2.(*ssa.Store); ok && st.Addr == ssa.Value(ia) {
									if k, ok := st.Val.(*ssa.Const); ok && k.Value != nil {
										idx, _ := constInt(ia.Index)
										cc.args = append(cc.args, fmt.Sprintf("[%d]=%s", idx, k.Value.ExactString()))
									} else {
										cc.args = append(cc.args, "[?]=dynamic")
									}
								}
							}
						}
					}
				}
			}
			out = append(out, cc)
		}
	}
	sort.Slice(out, func(i, j int) bool { return out[i].String() < out[j].String() })
	return out
}

// derivesFromUpper: tag is strings.ToUpper(x) (possibly through a phi / re-assignment).
func derivesFromUpper(v ssa.Value, d int) bool {
	if d > 4 {
		return false
	}
	switch x := v.(type) {
	case *ssa.Call:
		return isPkgFunc(&x.Call, "strings", "ToUpper")
	case *ssa.Phi:
		for _, e := range x.Edges {
			if !derivesFromUpper(e, d+1) {
				return false
			}
		}
		return len(x.Edges) > 0
	}
	return false
}

type codecTables struct {
	kind     string
	n2c      map[string]string // name -> code
	c2n      map[string]string // code -> name
	ctors    map[string]map[string][]ctorCall // factory -> code -> ctor calls
	upper    bool
	n2cFn    *ssa.Function
	c2nFn    *ssa.Function
	n2cPos   map[string]token.Pos
	c2nPos   map[string]token.Pos
	ctorsPos map[string]map[string]token.Pos
}

// findFn resolves by name, else by a structural fallback: a function of the package whose signature matches and
// which contains a switch of at least minCases constant cases.
func findTableFn(p *Prog, rel, name string, match func(*types.Signature) bool, minCases int) *ssa.Function {
	if f := p.FuncOpt(rel, name); f != nil && f.Blocks != nil {
		return f
	}
	var cands []*ssa.Function
	for _, f := range p.ModFns {
		if p.Rel(f) != rel || f.Parent() != nil || f.Signature.Recv() != nil || !match(f.Signature) {
			continue
		}
		if t := extractSwitch(f); t != nil && len(t.cases) >= minCases {
			cands = append(cands, f)
		}
	}
	if len(cands) == 1 {
		return cands[0]
	}
	undecided("anchor unresolved: %s.%s (and %d structural candidates)", rel, name, len(cands))
	return nil
}

func sigStrToInt(s *types.Signature) bool {
	if s.Params().Len() != 1 || s.Results().Len() != 2 {
		return false
	}
	b, ok := s.Params().At(0).Type().Underlying().(*types.Basic)
	if !ok || b.Kind() != types.String {
		return false
	}
	r, ok := s.Results().At(0).Type().Underlying().(*types.Basic)
	return ok && r.Info()&types.IsInteger != 0
}

func sigIntToStr(s *types.Signature) bool {
	if s.Params().Len() != 1 || s.Results().Len() != 2 {
		return false
	}
	b, ok := s.Params().At(0).Type().Underlying().(*types.Basic)
	if !ok || b.Info()&types.IsInteger == 0 {
		return false
	}
	r, ok := s.Results().At(0).Type().Underlying().(*types.Basic)
	return ok && r.Kind() == types.String
}

func loadTables(p *Prog, kind string) *codecTables {
	ct := &codecTables{kind: kind, n2c: map[string]string{}, c2n: map[string]string{}, ctors: map[string]map[string][]ctorCall{},
		n2cPos: map[string]token.Pos{}, c2nPos: map[string]token.Pos{}, ctorsPos: map[string]map[string]token.Pos{}}
	var factories []*ssa.Function
	if kind == "transform" {
		ct.n2cFn = findTableFn(p, "transform", "getByteFunctionTypeToken", sigStrToInt, 10)
		ct.c2nFn = findTableFn(p, "transform", "getByteFunctionNameToken", sigIntToStr, 10)
		factories = []*ssa.Function{p.Func("transform", "newToken")}
	} else {
		ct.n2cFn = findTableFn(p, "entropy", "GetType", sigStrToInt, 5)
		ct.c2nFn = findTableFn(p, "entropy", "GetName", sigIntToStr, 5)
		factories = []*ssa.Function{p.Func("entropy", "NewEntropyEncoder"), p.Func("entropy", "NewEntropyDecoder")}
	}
	t := extractSwitch(ct.n2cFn)
	if t != nil && len(t.cases) >= 5 {
		ct.upper = derivesFromUpper(t.tag, 0)
		for _, c := range t.cases {
			if c.key.Kind() != constant.String {
				continue
			}
			res := t.caseConstResult(c)
			if res == nil {
				undecided("%s: case %s has no single constant result", ct.n2cFn, c.key)
			}
			ct.n2c[constant.StringVal(c.key)] = res.ExactString()
			ct.n2cPos[constant.StringVal(c.key)] = c.pos
		}
	} else if mt := extractMapTable(p, ct.n2cFn); mt != nil {
		// table-driven form: a lookup in a package-level map literal
		ct.upper = derivesFromUpper(mt.index, 0)
		for _, e := range mt.entries {
			if e.key.Kind() == constant.String {
				ct.n2c[constant.StringVal(e.key)] = e.val.ExactString()
				ct.n2cPos[constant.StringVal(e.key)] = e.pos
			}
		}
	} else {
		undecided("no constant switch or map-literal lookup in %s", ct.n2cFn)
	}
	t = extractSwitch(ct.c2nFn)
	if t != nil && len(t.cases) >= 5 {
		for _, c := range t.cases {
			res := t.caseConstResult(c)
			if res == nil || res.Kind() != constant.String {
				undecided("%s: case %s has no single constant string result", ct.c2nFn, c.key)
			}
			ct.c2n[c.key.ExactString()] = constant.StringVal(res)
			ct.c2nPos[c.key.ExactString()] = c.pos
		}
	} else if mt := extractMapTable(p, ct.c2nFn); mt != nil {
		for _, e := range mt.entries {
			if e.val.Kind() == constant.String {
				ct.c2n[e.key.ExactString()] = constant.StringVal(e.val)
				ct.c2nPos[e.key.ExactString()] = e.pos
			}
		}
	} else if mt := extractReverseScan(p, ct.c2nFn); mt != nil {
		// reverse scan of the name->type literal: the first name of a code in source order stands for it here; a code
		// with two names is reported from the name table (the scan would return either, map order being random)
		for _, e := range mt.entries {
			if e.key.Kind() == constant.String {
				if _, dup := ct.c2n[e.val.ExactString()]; !dup {
					ct.c2n[e.val.ExactString()] = constant.StringVal(e.key)
					ct.c2nPos[e.val.ExactString()] = e.pos
				}
			}
		}
	} else {
		undecided("no constant switch or map-literal lookup in %s", ct.c2nFn)
	}
	for _, f := range factories {
		t := extractSwitch(f)
		if t == nil {
			undecided("no constant switch in %s", f)
		}
		m := map[string][]ctorCall{}
		mp := map[string]token.Pos{}
		for _, c := range t.cases {
			m[c.key.ExactString()] = t.caseCtors(p, c)
			mp[c.key.ExactString()] = c.pos
		}
		ct.ctors[f.Name()] = m
		ct.ctorsPos[f.Name()] = mp
	}
	return ct
}

func ruleTables(p *Prog, r *RuleResult) {
	total := 0
	for _, kind := range []string{"transform", "entropy"} {
		ct := loadTables(p, kind)
		n2cName, c2nName := p.FnName(ct.n2cFn), p.FnName(ct.c2nFn)
		if !ct.upper {
			r.fail(n2cName+"#toupper", p.Pos(ct.n2cFn.Pos()), "the name->type lookup does not upper-case the name before the switch: lower/mixed-case spellings are rejected or mapped differently")
		} else {
			r.ok(n2cName+" upper-cases the name before the lookup", p.Pos(ct.n2cFn.Pos()))
		}
		// duplicate codes among names
		seenCode := map[string]string{}
		for _, name := range sortedKeys(ct.n2c) {
			total++
			code := ct.n2c[name]
			if name != strings.ToUpper(name) {
				r.fail(fmt.Sprintf("%s#case.%s", n2cName, name), p.Pos(ct.n2cPos[name]), "a case label of the name table is not upper-case although the lookup upper-cases its argument: the entry is unreachable")
				continue
			}
			if prev, dup := seenCode[code]; dup {
				r.fail(fmt.Sprintf("%s#case.%s", n2cName, name), p.Pos(ct.n2cPos[name]), fmt.Sprintf("names %q and %q map to the same type code %s: the header cannot say which variant was used", prev, name, code))
				continue
			}
			seenCode[code] = name
			back, ok := ct.c2n[code]
			if !ok {
				r.fail(fmt.Sprintf("%s#case.%s", n2cName, name), p.Pos(ct.n2cPos[name]), fmt.Sprintf("name %q maps to code %s which has no name in %s: a header written with it cannot be read back", name, code, c2nName))
				continue
			}
			if back != name {
				r.fail(fmt.Sprintf("%s#case.%s", n2cName, name), p.Pos(ct.n2cPos[name]), fmt.Sprintf("name %q -> code %s -> name %q: the round trip is not the identity, the decoder rebuilds a different codec than the one used to encode", name, code, back))
				continue
			}
			missing := ""
			for _, fac := range sortedKeys(ct.ctors) {
				calls, ok := ct.ctors[fac][code]
				if !ok || len(calls) == 0 {
					missing = fac
				}
			}
			if missing != "" {
				r.fail(fmt.Sprintf("%s#ctor.%s", missing, name), p.Pos(ct.n2cPos[name]), fmt.Sprintf("name %q (code %s) is accepted at construction but factory %s has no constructor case for it: the first block fails after data was accepted", name, code, missing))
				continue
			}
			r.ok(fmt.Sprintf("%s %q <-> %s, constructors in %s", kind, name, code, strings.Join(sortedKeys(ct.ctors), ",")), p.Pos(ct.n2cPos[name]))
		}
		for _, code := range sortedKeys(ct.c2n) {
			name := ct.c2n[code]
			if c, ok := ct.n2c[name]; !ok || c != code {
				r.fail(fmt.Sprintf("%s#case.%s", c2nName, name), p.Pos(ct.c2nPos[code]), fmt.Sprintf("code %s has name %q but the name table maps %q to %v: type -> name -> type is not the identity", code, name, name, c))
			}
		}
		for _, fac := range sortedKeys(ct.ctors) {
			for _, code := range sortedKeys(ct.ctors[fac]) {
				if _, ok := ct.c2n[code]; !ok {
					r.fail(fmt.Sprintf("%s#case.%s", fac, code), p.Pos(ct.ctorsPos[fac][code]), fmt.Sprintf("factory %s constructs a codec for code %s which has no name: it can be reached from a forged header only and cannot be round-tripped by name", fac, code))
				}
			}
		}
		want := 19
		if kind == "entropy" {
			want = 9
		}
		if len(ct.n2c) < want {
			r.fail(n2cName+"#count", p.Pos(ct.n2cFn.Pos()), fmt.Sprintf("only %d %s names in the table (format 6 defines %d): a codec of the format can no longer be selected or decoded", len(ct.n2c), kind, want))
		}
	}
	r.floor(28, total, "codec names (19 transforms + 9 entropy codecs)")
}

func normCtor(c ctorCall) string {
	n := c.name
	n = strings.TrimSuffix(n, "WithCtx")
	n = strings.Replace(n, "Encoder", "Coder", 1)
	n = strings.Replace(n, "Decoder", "Coder", 1)
	return n + "(" + strings.Join(c.args, ",") + ")"
}

func ruleFactoryPair(p *Prog, r *RuleResult) {
	ct := loadTables(p, "entropy")
	enc, dec := ct.ctors["NewEntropyEncoder"], ct.ctors["NewEntropyDecoder"]
	n := 0
	codes := map[string]bool{}
	for c := range enc {
		codes[c] = true
	}
	for c := range dec {
		codes[c] = true
	}
	for _, code := range sortedKeys(codes) {
		n++
		name := ct.c2n[code]
		key := fmt.Sprintf("entropy.factory#code.%s", name)
		e, okE := enc[code]
		d, okD := dec[code]
		pos := p.Pos(ct.ctorsPos["NewEntropyEncoder"][code])
		if !okE || !okD {
			r.fail(key, pos, fmt.Sprintf("entropy code %s (%s) has a case in only one of NewEntropyEncoder/NewEntropyDecoder", code, name))
			continue
		}
		var en, dn []string
		for _, c := range e {
			en = append(en, normCtor(c))
		}
		for _, c := range d {
			dn = append(dn, normCtor(c))
		}
		sort.Strings(en)
		sort.Strings(dn)
		if strings.Join(en, ";") != strings.Join(dn, ";") {
			r.fail(key, pos, fmt.Sprintf("entropy code %s (%s): encoder factory builds %v but decoder factory builds %v: the two sides do not run the same codec family / order / predictor", code, name, e, d))
			continue
		}
		r.ok(fmt.Sprintf("%s: encoder %v == decoder %v", key, e, d), pos)
	}
	r.floor(9, n, "entropy factory cases")
}

func ruleLevels(p *Prog, r *RuleResult) {
	f := p.Func("app", "getTransformAndCodec")
	t := extractSwitch(f)
	if t == nil {
		undecided("no switch in app.getTransformAndCodec")
	}
	tt := loadTables(p, "transform")
	et := loadTables(p, "entropy")
	n := 0
	for _, c := range t.cases {
		res := t.caseConstResult(c)
		if res == nil || res.Kind() != constant.String {
			r.fail(fmt.Sprintf("app.getTransformAndCodec#level.%s", c.key.ExactString()), p.Pos(c.pos), "level has no constant transform&entropy string")
			continue
		}
		n++
		s := constant.StringVal(res)
		key := fmt.Sprintf("app.getTransformAndCodec#level.%s", c.key.ExactString())
		parts := strings.Split(s, "&")
		if len(parts) != 2 {
			r.fail(key, p.Pos(c.pos), fmt.Sprintf("level string %q is not of the form transforms&entropy", s))
			continue
		}
		bad := ""
		toks := strings.Split(parts[0], "+")
		if len(toks) > 8 {
			bad = "more than 8 transforms"
		}
		for _, tok := range toks {
			if _, ok := tt.n2c[strings.ToUpper(tok)]; !ok {
				bad = "unknown transform " + tok
			}
		}
		if _, ok := et.n2c[strings.ToUpper(parts[1])]; !ok {
			bad = "unknown entropy codec " + parts[1]
		}
		if bad != "" {
			r.fail(key, p.Pos(c.pos), fmt.Sprintf("level %s -> %q: %s: the level is rejected (or silently remapped) at run time", c.key.ExactString(), s, bad))
		} else {
			r.ok(fmt.Sprintf("%s -> %q all tokens known", key, s), p.Pos(c.pos))
		}
	}
	r.floor(10, n, "compression levels 0..9")
}

type mapEntry struct {
	key, val constant.Value
	pos      token.Pos
}

type mapTable struct {
	index   ssa.Value
	entries []mapEntry
}

// extractMapTable: f looks a value up in a package-level map that is initialised by a literal of constant keys and
// constant values; returns the literal's entries and the SSA value used as lookup key.
func extractMapTable(p *Prog, f *ssa.Function) *mapTable {
	var lk *ssa.Lookup
	var g *ssa.Global
	eachInstr(f, func(i ssa.Instruction) {
		l, ok := i.(*ssa.Lookup)
		if !ok {
			return
		}
		if u, ok := l.X.(*ssa.UnOp); ok && u.Op == token.MUL {
			if gg, ok := u.X.(*ssa.Global); ok {
				if _, isMap := gg.Type().(*types.Pointer).Elem().Underlying().(*types.Map); isMap {
					lk, g = l, gg
				}
			}
		}
	})
	if lk == nil {
		return nil
	}
	return mapLiteralOf(p, g, lk.Index)
}

// extractReverseScan: the type->name direction written as a scan of the name->type map literal
// (`for name, t := range table { if t == x { return name } }`): the entries of that literal, inverted by the caller.
func extractReverseScan(p *Prog, f *ssa.Function) *mapTable {
	var g *ssa.Global
	eachInstr(f, func(i ssa.Instruction) {
		rg, ok := i.(*ssa.Range)
		if !ok {
			return
		}
		if u, ok := rg.X.(*ssa.UnOp); ok && u.Op == token.MUL {
			if gg, ok := u.X.(*ssa.Global); ok {
				if _, isMap := gg.Type().(*types.Pointer).Elem().Underlying().(*types.Map); isMap {
					g = gg
				}
			}
		}
	})
	if g == nil {
		return nil
	}
	return mapLiteralOf(p, g, nil)
}

func mapLiteralOf(p *Prog, g *ssa.Global, index ssa.Value) *mapTable {
	for _, pk := range p.Pkgs {
		if pk.Types != g.Pkg.Pkg {
			continue
		}
		for _, file := range pk.Syntax {
			for _, d := range file.Decls {
				gd, ok := d.(*ast.GenDecl)
				if !ok || gd.Tok != token.VAR {
					continue
				}
				for _, sp := range gd.Specs {
					vs := sp.(*ast.ValueSpec)
					for i, nm := range vs.Names {
						if nm.Name != g.Name() || i >= len(vs.Values) {
							continue
						}
						cl, ok := vs.Values[i].(*ast.CompositeLit)
						if !ok {
							return nil
						}
						mt := &mapTable{index: index}
						for _, el := range cl.Elts {
							kv, ok := el.(*ast.KeyValueExpr)
							if !ok {
								return nil
							}
							ktv, ok1 := pk.TypesInfo.Types[kv.Key]
							vtv, ok2 := pk.TypesInfo.Types[kv.Value]
							if !ok1 || !ok2 || ktv.Value == nil || vtv.Value == nil {
								return nil
							}
							mt.entries = append(mt.entries, mapEntry{ktv.Value, vtv.Value, kv.Pos()})
						}
						return mt
					}
				}
			}
		}
	}
	return nil
}

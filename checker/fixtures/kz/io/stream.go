package io

import (
	"runtime"
	"sync"
	"sync/atomic"

	kz "fixture.test/kz"
	"fixture.test/kz/hash"
	"fixture.test/kz/internal"
	"fixture.test/kz/transform"
)

type blockBuffer struct{ Buf []byte }

type IOError struct{ msg string }

func (e *IOError) Error() string { return e.msg }

type Writer struct {
	blockSize     int
	hasher32      *hash.XXHash32
	buffers       []blockBuffer
	inputSize     int64
	obs           kz.OutputBitStream
	blockID       int32
	jobs          int
	nbInputBlocks int
	available     int
	ctx           map[string]any
}

type encodingTask struct {
	iBuffer          *blockBuffer
	hasher32         *hash.XXHash32
	blockLength      uint
	currentBlockID   int32
	processedBlockID *int32
	wg               *sync.WaitGroup
	obs              kz.OutputBitStream
	ctx              map[string]any
}

type encodingTaskResult struct{ err *IOError }

func NewWriter(obs kz.OutputBitStream, transformName string, fileSize int64) *Writer {
	ctx := map[string]any{}
	ctx["transform"] = transformName
	ctx["fileSize"] = fileSize
	w := &Writer{obs: obs, ctx: ctx, jobs: 4, blockSize: 1024}
	if v, ok := ctx["fileSize"]; ok {
		w.inputSize = v.(int64)
	}
	w.nbInputBlocks = int(w.inputSize / 1024)
	w.buffers = make([]blockBuffer, 8)
	return w
}

func (this *Writer) writeHeader() *IOError {
	this.obs.WriteBits(uint64(this.inputSize), 48)
	return nil
}

func (this *Writer) Write(b []byte) (int, error) {
	this.available += len(b)
	if err := this.processBlock(); err != nil {
		return 0, err
	}
	return len(b), nil
}

func (this *Writer) Close() error { return this.processBlock() }

func (this *Writer) processBlock() error {
	if err := this.writeHeader(); err != nil {
		return err
	}
	nbTasks := this.jobs
	// R-HINT must fire: the advisory size bounds the task loop
	if this.nbInputBlocks > 0 && this.nbInputBlocks < nbTasks {
		nbTasks = this.nbInputBlocks
	}
	jobsPerTask, _ := internal.ComputeJobsPerTask(make([]uint, nbTasks), uint(this.jobs), uint(nbTasks))
	wg := sync.WaitGroup{}
	results := make([]encodingTaskResult, nbTasks)
	firstID := this.blockID
	for taskID := 0; taskID < nbTasks; taskID++ {
		copyCtx := map[string]any{}
		for k, v := range this.ctx {
			copyCtx[k] = v
		}
		copyCtx["jobs"] = jobsPerTask[taskID]
		wg.Add(1)
		task := encodingTask{
			iBuffer:          &this.buffers[taskID],
			hasher32:         this.hasher32,
			blockLength:      uint(this.blockSize),
			currentBlockID:   firstID + int32(taskID) + 1,
			processedBlockID: &this.blockID,
			wg:               &wg,
			obs:              this.obs,
			ctx:              copyCtx,
		}
		go task.encode(&results[taskID])
	}
	wg.Wait()
	for _, r := range results {
		if r.err != nil {
			return r.err
		}
	}
	return nil
}

func (this *encodingTask) encode(res *encodingTaskResult) {
	defer func() {
		if r := recover(); r != nil {
			res.err = &IOError{msg: "panic"}
		}
		if res.err != nil {
			atomic.StoreInt32(this.processedBlockID, -1)
		} else {
			atomic.CompareAndSwapInt32(this.processedBlockID, this.currentBlockID-1, this.currentBlockID)
		}
		this.wg.Done()
	}()
	data := this.iBuffer.Buf
	if this.hasher32 != nil {
		_ = this.hasher32.Hash(data)
	}
	t := transform.NewBadCodec(&this.ctx)
	out := make([]byte, len(data))
	t.Forward(data, out)
	for n := 0; ; n++ {
		id := atomic.LoadInt32(this.processedBlockID)
		if id == -1 {
			return
		}
		if id == this.currentBlockID-1 {
			break
		}
		if n&0x1F == 0 {
			runtime.Gosched()
		}
	}
	this.obs.WriteBits(uint64(len(out)), 32)
	this.obs.WriteArray(out, uint(8*len(out)))
}

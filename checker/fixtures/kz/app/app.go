package app

import "os"

// R-FS-WHO must fire: a file-system mutation outside the allow-listed functions
func Scribble(name string) error {
	return os.WriteFile(name, []byte("x"), 0o644)
}

package internal

func ComputeJobsPerTask(jobsPerTask []uint, jobs, tasks uint) ([]uint, error) {
	for i := range jobsPerTask {
		jobsPerTask[i] = jobs / tasks
	}
	return jobsPerTask, nil
}

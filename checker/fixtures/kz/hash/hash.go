package hash

type XXHash32 struct{ seed, state uint32 }

func (this *XXHash32) SetSeed(s uint32) { this.seed = s }

// Hash keeps running state in the receiver: R-HASH-PURE must fire
func (this *XXHash32) Hash(data []byte) uint32 {
	this.state += uint32(len(data))
	return this.seed ^ this.state
}

module fixture.test/kz

go 1.24

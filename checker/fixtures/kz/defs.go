// Package kz is the positive-control fixture for the sink rules of kzcheck: it mirrors the package
// layout and the anchors of kanzi-go and contains one deliberate violation per zero-expected rule.
// It is analysed with the same rule code on every run; a rule that does not fire here is blind.
package kz

type ByteTransform interface {
	Forward(src, dst []byte) (uint, uint, error)
	Inverse(src, dst []byte) (uint, uint, error)
	MaxEncodedLen(srcLen int) int
}

type InputBitStream interface {
	ReadBits(n uint) uint64
	ReadArray(b []byte, n uint) uint
	Read() uint64
	Close() error
}

type OutputBitStream interface {
	WriteBits(v uint64, n uint) uint
	WriteArray(b []byte, n uint) uint
	Written() uint64
	Close() error
}

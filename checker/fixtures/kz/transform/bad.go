package transform

import (
	"math/rand"
	"os"
	"strings"
	"time"

	kz "fixture.test/kz"
)

// shared package-level cache: written from Forward through an alias (R-GLOBAL-RO must fire)
var sharedTable [256]int
var sharedWords = [][]byte{[]byte("the"), []byte("and")}

type entry struct {
	ptr []byte
}

type BadCodec struct {
	ctx   *map[string]any
	words []entry
	jobs  uint
	x     bool
}

func NewBadCodec(ctx *map[string]any) *BadCodec {
	this := &BadCodec{ctx: ctx}
	for _, w := range sharedWords {
		this.words = append(this.words, entry{ptr: w}) // copies alias the shared word bytes
	}
	if v, ok := (*ctx)["transform"]; ok {
		name := v.(string)
		this.x = name == "BADX" // R-NAMECMP: raw comparison of the user's spelling
	}
	if v, ok := (*ctx)["jobs"]; ok {
		this.jobs = v.(uint)
	}
	return this
}

func scrub(buf []byte) {
	if len(buf) > 0 {
		buf[0] = 0 // reached with src: R-SRC-RO must fire here
	}
}

func (this *BadCodec) Forward(src, dst []byte) (uint, uint, error) {
	tbl := sharedTable[:]
	tbl[int(src[0])]++          // R-GLOBAL-RO: write to package-level state outside init
	this.words[0].ptr[0] = 'T' // R-GLOBAL-RO: write through a per-instance copy that aliases shared bytes
	scrub(src[1:])              // R-SRC-RO
	n := int(this.jobs)        // R-JOBS-INERT: job count observed in the forward direction
	if rand.Intn(2) == 0 || time.Now().Unix()&1 == 0 || os.Getenv("X") != "" { // R-NONDET
		n++
	}
	copy(dst, src[:n])
	return uint(n), uint(n), nil
}

func (this *BadCodec) Inverse(src, dst []byte) (uint, uint, error) {
	copy(dst, src)
	return uint(len(src)), uint(len(src)), nil
}

func (this *BadCodec) MaxEncodedLen(n int) int { return n }

var _ kz.ByteTransform = (*BadCodec)(nil)
var _ = strings.ToUpper

package transform

// well-behaved transforms: bring the number of Forward sources above the rule's floor
type T1 struct{}
func (T1) Forward(src, dst []byte) (uint, uint, error) { copy(dst, src); return 0, 0, nil }
func (T1) Inverse(src, dst []byte) (uint, uint, error) { copy(dst, src); return 0, 0, nil }
func (T1) MaxEncodedLen(n int) int { return n }
type T2 struct{}
func (T2) Forward(src, dst []byte) (uint, uint, error) { copy(dst, src); return 0, 0, nil }
func (T2) Inverse(src, dst []byte) (uint, uint, error) { copy(dst, src); return 0, 0, nil }
func (T2) MaxEncodedLen(n int) int { return n }
type T3 struct{}
func (T3) Forward(src, dst []byte) (uint, uint, error) { copy(dst, src); return 0, 0, nil }
func (T3) Inverse(src, dst []byte) (uint, uint, error) { copy(dst, src); return 0, 0, nil }
func (T3) MaxEncodedLen(n int) int { return n }
type T4 struct{}
func (T4) Forward(src, dst []byte) (uint, uint, error) { copy(dst, src); return 0, 0, nil }
func (T4) Inverse(src, dst []byte) (uint, uint, error) { copy(dst, src); return 0, 0, nil }
func (T4) MaxEncodedLen(n int) int { return n }
type T5 struct{}
func (T5) Forward(src, dst []byte) (uint, uint, error) { copy(dst, src); return 0, 0, nil }
func (T5) Inverse(src, dst []byte) (uint, uint, error) { copy(dst, src); return 0, 0, nil }
func (T5) MaxEncodedLen(n int) int { return n }
type T6 struct{}
func (T6) Forward(src, dst []byte) (uint, uint, error) { copy(dst, src); return 0, 0, nil }
func (T6) Inverse(src, dst []byte) (uint, uint, error) { copy(dst, src); return 0, 0, nil }
func (T6) MaxEncodedLen(n int) int { return n }
type T7 struct{}
func (T7) Forward(src, dst []byte) (uint, uint, error) { copy(dst, src); return 0, 0, nil }
func (T7) Inverse(src, dst []byte) (uint, uint, error) { copy(dst, src); return 0, 0, nil }
func (T7) MaxEncodedLen(n int) int { return n }
type T8 struct{}
func (T8) Forward(src, dst []byte) (uint, uint, error) { copy(dst, src); return 0, 0, nil }
func (T8) Inverse(src, dst []byte) (uint, uint, error) { copy(dst, src); return 0, 0, nil }
func (T8) MaxEncodedLen(n int) int { return n }
type T9 struct{}
func (T9) Forward(src, dst []byte) (uint, uint, error) { copy(dst, src); return 0, 0, nil }
func (T9) Inverse(src, dst []byte) (uint, uint, error) { copy(dst, src); return 0, 0, nil }
func (T9) MaxEncodedLen(n int) int { return n }
type T10 struct{}
func (T10) Forward(src, dst []byte) (uint, uint, error) { copy(dst, src); return 0, 0, nil }
func (T10) Inverse(src, dst []byte) (uint, uint, error) { copy(dst, src); return 0, 0, nil }
func (T10) MaxEncodedLen(n int) int { return n }
type T11 struct{}
func (T11) Forward(src, dst []byte) (uint, uint, error) { copy(dst, src); return 0, 0, nil }
func (T11) Inverse(src, dst []byte) (uint, uint, error) { copy(dst, src); return 0, 0, nil }
func (T11) MaxEncodedLen(n int) int { return n }
type T12 struct{}
func (T12) Forward(src, dst []byte) (uint, uint, error) { copy(dst, src); return 0, 0, nil }
func (T12) Inverse(src, dst []byte) (uint, uint, error) { copy(dst, src); return 0, 0, nil }
func (T12) MaxEncodedLen(n int) int { return n }
type T13 struct{}
func (T13) Forward(src, dst []byte) (uint, uint, error) { copy(dst, src); return 0, 0, nil }
func (T13) Inverse(src, dst []byte) (uint, uint, error) { copy(dst, src); return 0, 0, nil }
func (T13) MaxEncodedLen(n int) int { return n }
type T14 struct{}
func (T14) Forward(src, dst []byte) (uint, uint, error) { copy(dst, src); return 0, 0, nil }
func (T14) Inverse(src, dst []byte) (uint, uint, error) { copy(dst, src); return 0, 0, nil }
func (T14) MaxEncodedLen(n int) int { return n }
type T15 struct{}
func (T15) Forward(src, dst []byte) (uint, uint, error) { copy(dst, src); return 0, 0, nil }
func (T15) Inverse(src, dst []byte) (uint, uint, error) { copy(dst, src); return 0, 0, nil }
func (T15) MaxEncodedLen(n int) int { return n }
type T16 struct{}
func (T16) Forward(src, dst []byte) (uint, uint, error) { copy(dst, src); return 0, 0, nil }
func (T16) Inverse(src, dst []byte) (uint, uint, error) { copy(dst, src); return 0, 0, nil }
func (T16) MaxEncodedLen(n int) int { return n }

package main

import (
	"go/token"
	"go/types"

	"golang.org/x/tools/go/ssa"
)

// Flow is a flow-insensitive, context-insensitive, field-based value-flow engine over SSA.
//
// Two modes:
//   - value mode (Alias=false): "derived from the source value" – propagates through arithmetic,
//     conversions, phis, calls, struct fields, globals, closures and constant-keyed map cells.
//   - alias mode (Alias=true): "may refer to the source memory" – propagates through slicing,
//     interior addresses, phis, calls, fields and closures, but not through arithmetic or through
//     loads of non-reference element types (a byte loaded from a tainted slice is not a reference).
type Flow struct {
	p     *Prog
	Alias bool
	// Sanitize: the value produced by this instruction is never tainted (e.g. strings.ToUpper result).
	Sanitize func(v ssa.Value) bool
	// NoEnter: do not propagate arguments into this callee, nor its results back.
	NoEnter func(f *ssa.Function) bool
	// ExtResult: for calls to functions without bodies / outside the module: does a tainted argument taint the result?
	ExtResult func(c *ssa.CallCommon) bool
	// Scope limits propagation into callee bodies (nil = module functions).
	vals    map[ssa.Value]bool
	fields  map[*types.Var]bool
	globals map[*ssa.Global]bool
	cells   map[string]bool           // constant-keyed map[string]any cells
	rets    map[*ssa.Function]map[int]bool // tainted result indices
	work    []ssa.Value
	// fieldLoads index: field var -> loads/addresses in module
	fieldAddrs map[*types.Var][]*ssa.FieldAddr
	fieldVals  map[*types.Var][]*ssa.Field
	globalRefs map[*ssa.Global][]ssa.Instruction
	cellLookups map[string][]ssa.Value
}

func NewFlow(p *Prog, alias bool) *Flow {
	fl := &Flow{p: p, Alias: alias,
		vals: map[ssa.Value]bool{}, fields: map[*types.Var]bool{}, globals: map[*ssa.Global]bool{},
		cells: map[string]bool{}, rets: map[*ssa.Function]map[int]bool{},
		fieldAddrs: map[*types.Var][]*ssa.FieldAddr{}, fieldVals: map[*types.Var][]*ssa.Field{},
		globalRefs: map[*ssa.Global][]ssa.Instruction{}, cellLookups: map[string][]ssa.Value{},
	}
	for _, f := range p.ModFns {
		eachInstr(f, func(i ssa.Instruction) {
			switch x := i.(type) {
			case *ssa.FieldAddr:
				if fv := fieldVarOfAddr(x); fv != nil {
					fl.fieldAddrs[fv] = append(fl.fieldAddrs[fv], x)
				}
			case *ssa.Field:
				if st, ok := x.X.Type().Underlying().(*types.Struct); ok {
					fv := st.Field(x.Field)
					fl.fieldVals[fv] = append(fl.fieldVals[fv], x)
				}
			case *ssa.Lookup:
				if k, ok := ctxKey(x.X, x.Index); ok {
					fl.cellLookups[k] = append(fl.cellLookups[k], x)
				}
			}
			for _, op := range i.Operands(nil) {
				if g, ok := (*op).(*ssa.Global); ok {
					fl.globalRefs[g] = append(fl.globalRefs[g], i)
				}
			}
		})
	}
	return fl
}

// ctxKey: m is a map[string]any (or named equivalent) and idx a constant string.
func ctxKey(m ssa.Value, idx ssa.Value) (string, bool) {
	mt, ok := m.Type().Underlying().(*types.Map)
	if !ok {
		return "", false
	}
	if b, ok := mt.Key().Underlying().(*types.Basic); !ok || b.Kind() != types.String {
		return "", false
	}
	if _, ok := mt.Elem().Underlying().(*types.Interface); !ok {
		return "", false
	}
	c, ok := idx.(*ssa.Const)
	if !ok || c.Value == nil {
		return "", false
	}
	return constString(c), true
}

func constString(c *ssa.Const) string {
	s := c.Value.ExactString()
	if len(s) >= 2 && s[0] == '"' {
		// unquote
		if u, err := unquote(s); err == nil {
			return u
		}
	}
	return s
}

func (fl *Flow) Tainted(v ssa.Value) bool { return fl.vals[v] }

func (fl *Flow) Add(v ssa.Value) {
	if v == nil || fl.vals[v] {
		return
	}
	if fl.Sanitize != nil && fl.Sanitize(v) {
		return
	}
	fl.vals[v] = true
	fl.work = append(fl.work, v)
}

func (fl *Flow) AddField(fv *types.Var) {
	if fv == nil || fl.fields[fv] {
		return
	}
	fl.fields[fv] = true
	for _, fa := range fl.fieldAddrs[fv] {
		// the address itself is not tainted in value mode; loads from it are
		fl.taintLoadsOf(fa)
		if fl.Alias {
			// in alias mode a tainted field means "the field holds a reference to source memory"
		}
	}
	for _, f := range fl.fieldVals[fv] {
		fl.Add(f)
	}
}

func (fl *Flow) AddGlobal(g *ssa.Global) {
	if g == nil || fl.globals[g] {
		return
	}
	fl.globals[g] = true
	for _, in := range fl.globalRefs[g] {
		switch x := in.(type) {
		case *ssa.UnOp:
			if x.Op == token.MUL && x.X == ssa.Value(g) {
				fl.addLoaded(x)
			}
		}
	}
}

func (fl *Flow) AddCell(k string) {
	if fl.cells[k] {
		return
	}
	fl.cells[k] = true
	for _, l := range fl.cellLookups[k] {
		fl.Add(l)
	}
}

// refLike: values of this type can carry a reference to other memory.
func refLike(t types.Type) bool {
	switch u := t.Underlying().(type) {
	case *types.Pointer, *types.Slice, *types.Map, *types.Chan, *types.Interface, *types.Signature:
		return true
	case *types.Struct:
		for i := 0; i < u.NumFields(); i++ {
			if refLike(u.Field(i).Type()) {
				return true
			}
		}
	case *types.Array:
		return refLike(u.Elem())
	case *types.Tuple:
		for i := 0; i < u.Len(); i++ {
			if refLike(u.At(i).Type()) {
				return true
			}
		}
	}
	return false
}

func (fl *Flow) addLoaded(v ssa.Value) {
	if fl.Alias {
		if !refLike(v.Type()) {
			return
		}
		// struct values are never tainted as a whole in alias mode: their reference-typed fields carry
		// the taint field-based (so a by-value copy of a struct still aliases what its fields point to)
		if fl.taintStructFields(v.Type(), 0) {
			return
		}
	}
	fl.Add(v)
}

// taintStructFields taints, field-based, every reference-typed field of a struct (or array of struct) type.
// Returns false if t is not a struct/array-of-struct.
func (fl *Flow) taintStructFields(t types.Type, d int) bool {
	switch u := t.Underlying().(type) {
	case *types.Struct:
		if d > 4 {
			return true
		}
		for i := 0; i < u.NumFields(); i++ {
			f := u.Field(i)
			if !refLike(f.Type()) {
				continue
			}
			if !fl.taintStructFields(f.Type(), d+1) {
				fl.AddField(f)
			}
		}
		return true
	case *types.Array:
		if _, ok := u.Elem().Underlying().(*types.Struct); ok {
			return fl.taintStructFields(u.Elem(), d)
		}
	}
	return false
}

// taintLoadsOf marks every load through address a (and through interior addresses in alias mode).
func (fl *Flow) taintLoadsOf(a ssa.Value) {
	refs := a.Referrers()
	if refs == nil {
		return
	}
	for _, ref := range *refs {
		if u, ok := ref.(*ssa.UnOp); ok && u.Op == token.MUL && u.X == a {
			fl.addLoaded(u)
		}
	}
}

// storeTo handles "a tainted value is stored at address addr".
func (fl *Flow) storeTo(addr ssa.Value) {
	switch a := addr.(type) {
	case *ssa.FieldAddr:
		fl.AddField(fieldVarOfAddr(a))
	case *ssa.Alloc:
		fl.taintLoadsOf(a)
		// address-taken locals captured by closures: loads through the free variable
		fl.propagateCell(a)
	case *ssa.Global:
		fl.AddGlobal(a)
	case *ssa.IndexAddr:
		// element of a slice/array: taint the container value (loads of any element)
		fl.Add(a.X)
		fl.storeToContainer(a.X)
	case *ssa.FreeVar:
		fl.taintLoadsOf(a)
		fl.propagateFreeVar(a)
	case *ssa.Parameter, *ssa.Phi, *ssa.UnOp, *ssa.Call, *ssa.Extract:
		// store through a pointer value: taint loads through the same SSA pointer value
		fl.taintLoadsOf(a)
		if fv := fieldVarOfLoad(a); fv != nil {
			// pointer loaded from a field: field-based approximation of the pointee
			_ = fv
		}
	}
}

func (fl *Flow) storeToContainer(c ssa.Value) {
	// container obtained from a field / global / alloc: make the taint visible to other readers
	switch x := c.(type) {
	case *ssa.UnOp:
		if x.Op == token.MUL {
			fl.storeTo(x.X)
		}
	case *ssa.Slice:
		fl.storeToContainer(x.X)
	case *ssa.Alloc:
		// array in a local
		fl.taintLoadsOf(x)
	}
}

// propagateCell: an Alloc captured by closures appears as FreeVars there.
func (fl *Flow) propagateCell(a *ssa.Alloc) {
	for _, ref := range *a.Referrers() {
		if mc, ok := ref.(*ssa.MakeClosure); ok {
			fn := mc.Fn.(*ssa.Function)
			for i, b := range mc.Bindings {
				if b == ssa.Value(a) && i < len(fn.FreeVars) {
					fl.taintLoadsOf(fn.FreeVars[i])
				}
			}
		}
	}
}

func (fl *Flow) propagateFreeVar(fv *ssa.FreeVar) {
	// stores through a free variable are visible in the parent's alloc
	fn := fv.Parent()
	idx := -1
	for i, x := range fn.FreeVars {
		if x == fv {
			idx = i
		}
	}
	if idx < 0 || fn.Parent() == nil {
		return
	}
	eachInstr(fn.Parent(), func(i ssa.Instruction) {
		if mc, ok := i.(*ssa.MakeClosure); ok && mc.Fn == fn && idx < len(mc.Bindings) {
			fl.taintLoadsOf(mc.Bindings[idx])
			if a, ok := mc.Bindings[idx].(*ssa.Alloc); ok {
				fl.propagateCell(a)
			}
		}
	})
}

func (fl *Flow) calleesOf(site ssa.CallInstruction) []*ssa.Function {
	return fl.p.Callees(site)
}

func (fl *Flow) enterable(f *ssa.Function) bool {
	if f == nil || f.Blocks == nil || !fl.p.InModule(f) {
		return false
	}
	if fl.NoEnter != nil && fl.NoEnter(f) {
		return false
	}
	return true
}

// Run propagates until fixpoint.
func (fl *Flow) Run() {
	for len(fl.work) > 0 {
		v := fl.work[len(fl.work)-1]
		fl.work = fl.work[:len(fl.work)-1]
		fl.step(v)
	}
}

func (fl *Flow) markRet(f *ssa.Function, idx int) {
	m := fl.rets[f]
	if m == nil {
		m = map[int]bool{}
		fl.rets[f] = m
	}
	if m[idx] {
		return
	}
	m[idx] = true
	// propagate to all call sites
	n := fl.p.VTA().Nodes[f]
	if n == nil {
		return
	}
	for _, e := range n.In {
		site := e.Site
		if site == nil {
			continue
		}
		cv, ok := site.(ssa.Value)
		if !ok {
			continue // go/defer: result discarded
		}
		if f.Signature.Results().Len() == 1 {
			fl.Add(cv)
		} else {
			for _, ref := range *cv.Referrers() {
				if ex, ok := ref.(*ssa.Extract); ok && ex.Index == idx {
					fl.Add(ex)
				}
			}
		}
	}
}

func (fl *Flow) step(v ssa.Value) {
	// parameter of a closure's free variable binding etc. handled at the use sites below
	var refList []ssa.Instruction
	if g, ok := v.(*ssa.Global); ok {
		refList = fl.globalRefs[g] // ssa.Global has no referrer list of its own
	} else if refs := v.Referrers(); refs != nil {
		refList = *refs
	}
	for _, ref := range refList {
		switch x := ref.(type) {
		case *ssa.Phi, *ssa.ChangeType, *ssa.ChangeInterface, *ssa.MakeInterface, *ssa.SliceToArrayPointer:
			fl.Add(x.(ssa.Value))
		case *ssa.Convert:
			if fl.Alias {
				// string(bytes) / []byte(string) copy: no alias
				if _, ok := x.Type().Underlying().(*types.Basic); ok {
					continue
				}
				if _, ok := x.X.Type().Underlying().(*types.Basic); ok {
					continue
				}
			}
			fl.Add(x)
		case *ssa.Slice:
			if x.X == v {
				fl.Add(x)
			} else if !fl.Alias {
				// bound derived from tainted value: the slice "value" is not derived, bounds are sinks (rule-specific)
			}
		case *ssa.TypeAssert:
			fl.Add(x)
		case *ssa.Extract:
			// tuple taint: only for non-call tuples (typeassert commaok, lookup commaok, next)
			switch t := x.Tuple.(type) {
			case *ssa.Call:
				_ = t // handled by markRet per index
			case *ssa.TypeAssert, *ssa.Lookup, *ssa.UnOp:
				if x.Index == 0 {
					fl.Add(x)
				} else if !fl.Alias {
					// ok flag: not derived from the value
				}
			case *ssa.Next:
				if x.Index > 0 {
					fl.Add(x)
				}
			default:
				fl.Add(x)
			}
		case *ssa.Field:
			fl.addLoaded(x)
		case *ssa.FieldAddr:
			if fl.Alias && x.X == v {
				fl.Add(x) // interior address of tainted memory
			}
		case *ssa.IndexAddr:
			if x.X == v {
				if fl.Alias {
					fl.Add(x) // address of an element of tainted memory
				} else {
					// loads of elements of a tainted container
					fl.taintLoadsOf(x)
				}
			}
		case *ssa.Index:
			if x.X == v {
				fl.addLoaded(x)
			}
		case *ssa.Lookup:
			if x.X == v {
				fl.addLoaded(x)
			}
		case *ssa.Range:
			fl.Add(x)
		case *ssa.Next:
			fl.Add(x)
		case *ssa.UnOp:
			if x.Op == token.MUL {
				if fl.Alias {
					// load through a tainted address: value read from tainted memory; a reference only if ref-like
					fl.addLoaded(x)
				} else {
					fl.Add(x)
				}
			} else if !fl.Alias {
				fl.Add(x)
			}
		case *ssa.BinOp:
			if !fl.Alias {
				fl.Add(x)
			}
		case *ssa.Store:
			if x.Val == v {
				fl.storeTo(x.Addr)
			}
		case *ssa.MapUpdate:
			if x.Value == v {
				if k, ok := ctxKey(x.Map, x.Key); ok {
					fl.AddCell(k)
				} else {
					fl.Add(x.Map)
					fl.storeToContainer(x.Map)
				}
			}
		case *ssa.MakeClosure:
			fn := x.Fn.(*ssa.Function)
			for i, b := range x.Bindings {
				if b == v && i < len(fn.FreeVars) {
					fl.Add(fn.FreeVars[i])
				}
			}
		case *ssa.Return:
			f := x.Parent()
			for i, r := range x.Results {
				if r == v {
					fl.markRet(f, i)
				}
			}
		case *ssa.Send:
			// channels: not modelled (none on the analysed paths)
		case ssa.CallInstruction:
			fl.stepCall(v, x)
		}
	}
}

func (fl *Flow) stepCall(v ssa.Value, site ssa.CallInstruction) {
	c := site.Common()
	if b, ok := c.Value.(*ssa.Builtin); ok {
		cv, _ := site.(ssa.Value)
		switch b.Name() {
		case "append":
			if cv != nil {
				if fl.Alias {
					if len(c.Args) > 0 && c.Args[0] == v {
						fl.Add(cv)
					}
				} else {
					fl.Add(cv)
				}
			}
		case "min", "max":
			if cv != nil && !fl.Alias {
				fl.Add(cv)
			}
		case "len", "cap":
			// the length of tainted memory is not a reference; in value mode the length of a tainted string/slice is derived
		case "copy":
			if !fl.Alias && len(c.Args) == 2 && c.Args[1] == v {
				fl.Add(c.Args[0])
				fl.storeToContainer(c.Args[0])
			}
		}
		return
	}
	callees := fl.calleesOf(site)
	entered := false
	for _, callee := range callees {
		if !fl.enterable(callee) {
			continue
		}
		entered = true
		// receiver + args -> params
		args := c.Args
		params := callee.Params
		if c.IsInvoke() {
			// params[0] is the receiver
			if c.Value == v && len(params) > 0 {
				fl.Add(params[0])
			}
			for i, a := range args {
				if a == v && i+1 < len(params) {
					fl.Add(params[i+1])
				}
			}
		} else {
			for i, a := range args {
				if a == v && i < len(params) {
					fl.Add(params[i])
				}
			}
			if c.Value == v {
				// calling a tainted closure value: nothing to bind
			}
		}
		// results already tainted for this callee
		if cv, ok := site.(ssa.Value); ok {
			for idx := range fl.rets[callee] {
				if callee.Signature.Results().Len() == 1 {
					fl.Add(cv)
				} else {
					for _, ref := range *cv.Referrers() {
						if ex, ok := ref.(*ssa.Extract); ok && ex.Index == idx {
							fl.Add(ex)
						}
					}
				}
			}
		}
	}
	if !entered {
		if fl.NoEnter != nil {
			for _, callee := range callees {
				if callee != nil && fl.NoEnter(callee) {
					return
				}
			}
		}
		if fl.ExtResult != nil && fl.ExtResult(c) {
			if cv, ok := site.(ssa.Value); ok {
				if cv.Type() != nil {
					if tup, ok := cv.Type().(*types.Tuple); ok && tup.Len() > 0 {
						for _, ref := range *cv.Referrers() {
							if ex, ok := ref.(*ssa.Extract); ok {
								fl.Add(ex)
							}
						}
					} else {
						fl.Add(cv)
					}
				}
			}
		}
	}
}

// TaintedValues returns the number of tainted SSA values (for evidence).
func (fl *Flow) Count() int { return len(fl.vals) }

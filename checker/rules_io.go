package main

import (
	"fmt"
	"go/token"
	"go/types"
	"strings"

	"golang.org/x/tools/go/ssa"
)

// ---------------------------------------------------------------------------------------
// I/O error discipline and lifecycle: R-IOERR, R-EOS-ERR, R-CLOSE-ORDER, R-LIFECYCLE, R-BS-CLOSED, R-SEQ-REVERT
// ---------------------------------------------------------------------------------------

func init() {
	register("R-IOERR", "no error returned by the underlying sink/source (Write, Read, Close, flush, refill) is dropped in the stream and bitstream layers", false, ruleIOErr)
	register("R-EOS-ERR", "the refill never reports (0, nil) for a non-empty request, parks a read error only in pendingErr and returns it on the next refill; pull panics on a refill error", false, ruleEosErr)
	register("R-CLOSE-ORDER", "end marker and finalized only after a successful last batch; closed only after successful bitstream and sink Close; the bitstream is marked closed only after a successful flush", false, ruleCloseOrder)
	register("R-LIFECYCLE", "Write/Read fail at entry on a closed stream before any effect; Close is idempotent at entry; the header is written before the empty-buffer return", false, ruleLifecycle)
	register("R-BS-CLOSED", "closing a bitstream stores the closed state and every buffer-touching operation tests it first", false, ruleBsClosed)
	register("R-SEQ-REVERT", "a declined stage of a transform sequence restores the length and neither swaps buffers nor clears its skip bit", false, ruleSeqRevert)
}

var errorType = types.Universe.Lookup("error").Type()

// errResult returns the SSA value holding the error result of call c (nil if the call has none or it is discarded).
func errResult(c ssa.Value) (ssa.Value, bool) {
	t := c.Type()
	if tup, ok := t.(*types.Tuple); ok {
		idx := -1
		for i := 0; i < tup.Len(); i++ {
			if isErrType(tup.At(i).Type()) {
				idx = i
			}
		}
		if idx < 0 {
			return nil, false
		}
		for _, ref := range *c.Referrers() {
			if ex, ok := ref.(*ssa.Extract); ok && ex.Index == idx {
				return ex, true
			}
		}
		return nil, true // has an error result, never extracted
	}
	if isErrType(t) {
		return c, true
	}
	return nil, false
}

// errResultType: does the signature have an error result?
func errResultType(sig *types.Signature) (int, bool) {
	for i := 0; i < sig.Results().Len(); i++ {
		if isErrType(sig.Results().At(i).Type()) {
			return i, true
		}
	}
	return -1, false
}

func isErrType(t types.Type) bool {
	if types.Identical(t, errorType) {
		return true
	}
	// *IOError and friends
	if _, ok := t.Underlying().(*types.Pointer); ok && types.Implements(t, errorIface) {
		return true
	}
	return false
}

// escapes: the error value reaches a return, a panic, a store, or is converted (Error() called / passed on).
func escapes(v ssa.Value) bool {
	seen := map[ssa.Value]bool{}
	var walk func(v ssa.Value) bool
	walk = func(v ssa.Value) bool {
		if seen[v] {
			return false
		}
		seen[v] = true
		refs := v.Referrers()
		if refs == nil {
			return false
		}
		for _, ref := range *refs {
			switch x := ref.(type) {
			case *ssa.Return, *ssa.Panic:
				return true
			case *ssa.Store:
				if x.Val == v {
					return true
				}
			case *ssa.Phi:
				if walk(x) {
					return true
				}
			case *ssa.MakeInterface:
				if walk(x) {
					return true
				}
			case *ssa.ChangeInterface:
				if walk(x) {
					return true
				}
			case *ssa.TypeAssert:
				if walk(x) {
					return true
				}
			case *ssa.Extract:
				if walk(x) {
					return true
				}
			case ssa.CallInstruction:
				c := x.Common()
				if c.IsInvoke() && c.Value == v && c.Method.Name() == "Error" {
					return true // converted into another error's message
				}
				for _, a := range c.Args {
					if a == v {
						return true // handed to a wrapper / logger
					}
				}
			}
		}
		return false
	}
	return walk(v)
}

func ruleIOErr(p *Prog, r *RuleResult) {
	n := 0
	var k keyer
	batchFns := map[*ssa.Function]bool{}
	for _, owner := range []string{"Writer", "Reader"} {
		if f := p.MethodOpt("io", owner, "processBlock"); f != nil {
			batchFns[f] = true
		}
	}
	for _, f := range p.ModFns {
		rel := p.Rel(f)
		if rel != "io" && rel != "bitstream" && rel != "app" {
			continue
		}
		fname := p.FnName(f)
		if strings.Contains(fname, "Debug") {
			continue // debug wrappers are not on the stream layer's path
		}
		eachInstr(f, func(i ssa.Instruction) {
			ci, ok := i.(ssa.CallInstruction)
			if !ok {
				return
			}
			c := ci.Common()
			o := calleeObj(c)
			if o == nil {
				return
			}
			what := ""
			if c.IsInvoke() {
				recv := namedOf(c.Value.Type())
				if recv != nil && recv.Obj().Pkg() != nil {
					rp := recv.Obj().Pkg().Path()
					switch {
					case rp == "io" && (o.Name() == "Write" || o.Name() == "Read" || o.Name() == "Close"):
						what = "underlying " + recv.Obj().Name() + "." + o.Name()
					case rp == p.ModPath && o.Name() == "Close" && (recv.Obj().Name() == "InputBitStream" || recv.Obj().Name() == "OutputBitStream"):
						what = "shared " + recv.Obj().Name() + ".Close"
					case rp == p.ModPath && rel == "io" && (recv.Obj().Name() == "InputBitStream" || recv.Obj().Name() == "OutputBitStream"):
						// any other operation of the shared bitstream that reports its failure as an error value
						// (HasMoreToRead): a source failure must not be read as "no more data"
						if _, has := errResultType(c.Signature()); has {
							what = "shared " + recv.Obj().Name() + "." + o.Name()
						}
					}
				}
			} else if callee := c.StaticCallee(); callee != nil && rel == "app" && p.Rel(callee) == "io" && callee.Signature.Recv() != nil &&
				(callee.Name() == "Read" || callee.Name() == "Write" || callee.Name() == "Close") {
				// the command-line tool drives the compressed stream: what the stream reports must reach the exit status
				if rn := namedOf(callee.Signature.Recv().Type()); rn != nil && (rn.Obj().Name() == "Reader" || rn.Obj().Name() == "Writer") {
					what = "compressed-stream " + rn.Obj().Name() + "." + callee.Name()
				}
			} else if callee := c.StaticCallee(); callee != nil && rel == "io" && batchFns[callee] {
				// the batch function of the Writer/Reader: whatever calls it (Write, Read, Close - or a new entry point
				// such as a WriteTo fast path) must look at its error on every path
				what = "batch function " + callee.Name()
			} else if callee := c.StaticCallee(); callee != nil && p.Rel(callee) == "bitstream" {
				flushFn := p.MethodOpt("bitstream", "DefaultOutputBitStream", "flush")
				refillFn := p.MethodOpt("bitstream", "DefaultInputBitStream", "readFromInputStream")
				switch {
				case callee == flushFn && flushFn != nil:
					what = "bitstream.flush"
				case callee == refillFn && refillFn != nil:
					what = "bitstream.readFromInputStream"
				}
				switch callee.Name() {
				case "Close":
					what = "task-local bitstream Close"
				}
			}
			if what == "" {
				return
			}
			key := k.key(fname, strings.ReplaceAll(what, " ", "-"))
			if _, isDefer := i.(*ssa.Defer); isDefer && rel == "app" {
				// safety-net defers of the tool (they run on the early error returns; on the success path the stream and
				// the files are closed by ordinary calls, which R-REMOVE-ORDER requires before a source is removed)
				r.exempt(key, p.IPos(i), "safety-net defer of the command-line tool: not the call that decides the exit status")
				return
			}
			if _, isDefer := i.(*ssa.Defer); isDefer {
				r.fail(key, p.IPos(i), what+" is deferred: its error cannot be reported")
				n++
				return
			}
			if _, isGo := i.(*ssa.Go); isGo {
				return
			}
			cv := i.(ssa.Value)
			ev, has := errResult(cv)
			if !has {
				return
			}
			n++
			if what == "task-local bitstream Close" {
				// frozen exception: streams created in the same function over an in-memory BufferStream
				local := false
				if len(c.Args) > 0 {
					if ex, ok := c.Args[0].(*ssa.Extract); ok {
						if mk, ok := ex.Tuple.(*ssa.Call); ok {
							if mf := mk.Call.StaticCallee(); mf != nil && strings.HasPrefix(mf.Name(), "NewDefault") && len(mk.Call.Args) > 0 {
								src := stripConv(mk.Call.Args[0])
								if bc, ok := src.(*ssa.Call); ok && bc.Call.StaticCallee() != nil && bc.Call.StaticCallee().Name() == "NewBufferStream" {
									local = true
								}
							}
						}
					}
				}
				if !local && len(c.Args) > 0 {
					// created by a same-package helper that builds it over a BufferStream
					var src ssa.Value = c.Args[0]
					if ex, ok := src.(*ssa.Extract); ok {
						src = ex.Tuple
					}
					if hc, ok := src.(*ssa.Call); ok {
						if h := hc.Call.StaticCallee(); h != nil && h.Blocks != nil && FnPkg(h) == FnPkg(f) {
							eachInstr(h, func(j ssa.Instruction) {
								if cc := callOf(j); cc != nil && cc.StaticCallee() != nil && cc.StaticCallee().Name() == "NewBufferStream" {
									local = true
								}
							})
						}
					}
				}
				if local {
					r.exempt(key, p.IPos(i), "task-local bitstream over an in-memory BufferStream: Close cannot fail before it is closed (its flush target is a bytes buffer)")
					return
				}
			}
			if ev == nil || !escapes(ev) {
				r.fail(key, p.IPos(i), fmt.Sprintf("the error returned by %s is dropped: an I/O failure at this point is reported as success", what))
				return
			}
			// ... on every path: no way from the call to a return (or back to the call) on which the error value is
			// neither tested, stored, returned nor carried on
			if at, dropped := errorDroppedOnSomePath(i, ev); dropped {
				r.fail(key+"#some-path", p.IPos(at), fmt.Sprintf("there is a path after %s on which the error it returned is never looked at (it is examined only under a condition on the other results): a failure reported together with a full byte count is treated as success", what))
				return
			}
			r.ok(key+" error is returned, panicked, stored or wrapped", p.IPos(i))
		})
	}
	r.floor(6, n, "underlying I/O call sites")
}

func ruleEosErr(p *Prog, r *RuleResult) {
	f := p.Method("bitstream", "DefaultInputBitStream", "readFromInputStream")
	fname := p.FnName(f)
	if len(f.Params) < 2 {
		undecided("unexpected signature of %s", fname)
	}
	countP := f.Params[1]
	// edges implying v > 0
	positiveEdges := func(v ssa.Value) []edge {
		var out []edge
		for _, b := range f.Blocks {
			ifi := blockIf(b)
			if ifi == nil {
				continue
			}
			atom, pos := condAtom(ifi.Cond)
			bo, ok := atom.(*ssa.BinOp)
			if !ok {
				continue
			}
			op := bo.Op
			var k int64
			if bo.X == v {
				c, ok := constInt(bo.Y)
				if !ok {
					continue
				}
				k = c
			} else if bo.Y == v {
				c, ok := constInt(bo.X)
				if !ok {
					continue
				}
				k = c
				op = mirrorOp(op)
			} else {
				continue
			}
			// atom true => ? ; atom false => ?
			impliesPos := func(op token.Token, k int64) bool {
				switch op {
				case token.GTR:
					return k >= 0
				case token.GEQ:
					return k >= 1
				}
				return false
			}
			if impliesPos(op, k) {
				out = append(out, edge{b, succFor(pos, true)})
			}
			if impliesPos(negateOp(op), k) {
				out = append(out, edge{b, succFor(pos, false)})
			}
		}
		return out
	}
	zeroCountEdges := func() []edge {
		var out []edge
		for _, b := range f.Blocks {
			ifi := blockIf(b)
			if ifi == nil {
				continue
			}
			atom, pos := condAtom(ifi.Cond)
			bo, ok := atom.(*ssa.BinOp)
			if !ok || (bo.Op != token.EQL && bo.Op != token.NEQ) {
				continue
			}
			if (bo.X == ssa.Value(countP) && isZeroConst(bo.Y)) || (bo.Y == ssa.Value(countP) && isZeroConst(bo.X)) {
				out = append(out, edge{b, succFor(pos, bo.Op == token.EQL)})
			}
		}
		return out
	}()
	nret := 0
	var k keyer
	for _, b := range f.Blocks {
		ret, ok := b.Instrs[len(b.Instrs)-1].(*ssa.Return)
		if !ok || b == f.Recover {
			continue
		}
		nret++
		key := k.key(fname, "return")
		if !definitelyNil(rvals(ret)[1]) {
			// error return: count must be 0 (nothing to consume)
			r.info(key+" error return", p.IPos(ret))
			continue
		}
		okRet := false
		for _, e := range zeroCountEdges {
			if edgeDominates(f, e, b) && isZeroConst(rvals(ret)[0]) {
				okRet = true
			}
		}
		for _, e := range positiveEdges(rvals(ret)[0]) {
			if edgeDominates(f, e, b) {
				okRet = true
			}
		}
		if okRet {
			r.ok(key+" success return only with bytes available (or an empty request)", p.IPos(ret))
		} else {
			r.fail(key, p.IPos(ret), "the refill can return success without having obtained any byte for a non-empty request: exhausting the source reads as data (or a clean end) instead of an error")
		}
	}
	// pendingErr protocol
	var pend *types.Var
	if st, ok := derefType(f.Params[0].Type()).Underlying().(*types.Struct); ok {
		for i := 0; i < st.NumFields(); i++ {
			if isErrType(st.Field(i).Type()) {
				pend = st.Field(i)
			}
		}
	}
	var under ssa.Instruction
	eachInstr(f, func(i ssa.Instruction) {
		if c := callOf(i); c != nil && ((c.IsInvoke() && c.Method.Name() == "Read") || isPkgFunc(c, "io", "ReadFull") || isPkgFunc(c, "io", "ReadAtLeast")) {
			if under == nil {
				under = i
			}
		}
	})
	if pend != nil && under != nil {
		okP := false
		for _, b := range f.Blocks {
			ifi := blockIf(b)
			if ifi == nil {
				continue
			}
			x, succ, ok := nilTest(ifi.Cond)
			if !ok || fieldVarOfLoad(x) != pend {
				continue
			}
			// the non-nil edge returns the pending error and the test dominates the underlying read
			tb := b.Succs[succ]
			if ret, ok := tb.Instrs[len(tb.Instrs)-1].(*ssa.Return); ok && fieldVarOfLoad(stripConv(rvals(ret)[1])) == pend && isZeroConst(rvals(ret)[0]) && instrDominates(ifi, under) {
				okP = true
				r.ok(fname+" returns a parked read error before touching the source again", p.IPos(ifi))
			}
		}
		if !okP {
			r.fail(fname+"#pending-error", p.Pos(f.Pos()), "a read error parked in pendingErr is not returned by the next refill before the source is read again: the error is lost")
		}
	}
	// callers inside the bitstream: pull panics on the error
	pull := p.Method("bitstream", "DefaultInputBitStream", "pull")
	okPull := false
	eachInstr(pull, func(i ssa.Instruction) {
		c, ok := i.(*ssa.Call)
		if !ok || c.Call.StaticCallee() != f {
			return
		}
		if ev, has := errResult(c); has && ev != nil {
			// must reach a panic
			seen := map[ssa.Value]bool{}
			var walk func(v ssa.Value) bool
			walk = func(v ssa.Value) bool {
				if seen[v] {
					return false
				}
				seen[v] = true
				for _, ref := range *v.Referrers() {
					switch x := ref.(type) {
					case *ssa.Panic:
						return true
					case *ssa.MakeInterface:
						if walk(x) {
							return true
						}
					case *ssa.ChangeInterface:
						if walk(x) {
							return true
						}
					case *ssa.Phi:
						if walk(x) {
							return true
						}
					}
				}
				return false
			}
			if walk(ev) {
				okPull = true
			}
		}
	})
	if okPull {
		r.ok(p.FnName(pull)+" panics with the refill error", p.Pos(pull.Pos()))
	} else {
		r.fail(p.FnName(pull)+"#refill-error", p.Pos(pull.Pos()), "pull does not raise the refill error: reading past the end of the source returns stale buffer bytes")
	}
	r.floor(3, nret, "returns of readFromInputStream")
}

// errEdgeOf finds, for the error produced by call c, the If testing it; returns the block of the test and the successor index taken on error.
func errEdgeOf(c ssa.Value) (*ssa.If, int, bool) {
	ev, has := errResult(c)
	if !has || ev == nil {
		return nil, 0, false
	}
	seen := map[ssa.Value]bool{}
	var found *ssa.If
	var succ int
	var walk func(v ssa.Value)
	walk = func(v ssa.Value) {
		if seen[v] || found != nil {
			return
		}
		seen[v] = true
		for _, ref := range *v.Referrers() {
			switch x := ref.(type) {
			case *ssa.BinOp:
				for _, r2 := range *x.Referrers() {
					if ifi, ok := r2.(*ssa.If); ok {
						if tv, s, ok := nilTest(ifi.Cond); ok && tv == v {
							found, succ = ifi, s
						}
					}
				}
			case *ssa.Phi:
				walk(x)
			case *ssa.ChangeInterface:
				walk(x)
			case *ssa.MakeInterface:
				walk(x)
			}
		}
	}
	walk(ev)
	return found, succ, found != nil
}

func reachesFromBlock(start *ssa.BasicBlock, target ssa.Instruction) bool {
	return reach(start, nil, nil)[target.Block()]
}

func ruleCloseOrder(p *Prog, r *RuleResult) {
	wc := p.Method("io", "Writer", "Close")
	wname := p.FnName(wc)
	wt := namedOf(wc.Params[0].Type())
	fieldOfWriter := func(name string) *types.Var {
		st := wt.Underlying().(*types.Struct)
		for i := 0; i < st.NumFields(); i++ {
			if st.Field(i).Name() == name {
				return st.Field(i)
			}
		}
		undecided("anchor unresolved: io.Writer.%s", name)
		return nil
	}
	// the closed flag: the field tested by the entry block of Close; the finalized flag: the field set to 1 right after
	// the end marker (resolved structurally, names are only a fallback)
	var closedF, finalF *types.Var
	if ifi := blockIf(wc.Blocks[0]); ifi != nil {
		atom, _ := condAtom(ifi.Cond)
		if bo, ok := atom.(*ssa.BinOp); ok {
			if c, ok := bo.X.(*ssa.Call); ok && isAtomic(&c.Call, "LoadInt32", "SwapInt32") && len(c.Call.Args) > 0 {
				closedF = fieldVarOfAddr(c.Call.Args[0])
			}
		}
	}
	if closedF == nil {
		closedF = fieldOfWriter("closed")
	}
	_ = wt
	atomicStoreTo := func(f *ssa.Function, fv *types.Var) []ssa.Instruction {
		var out []ssa.Instruction
		eachInstr(f, func(i ssa.Instruction) {
			if c := callOf(i); c != nil && isAtomic(c, "StoreInt32", "SwapInt32", "CompareAndSwapInt32") && len(c.Args) >= 2 && fieldVarOfAddr(c.Args[0]) == fv {
				if v, ok := constInt(c.Args[len(c.Args)-1]); ok && v == 1 {
					out = append(out, i)
				}
			}
			if st, ok := i.(*ssa.Store); ok && fieldVarOfAddr(st.Addr) == fv {
				if v, ok := constInt(st.Val); ok && v == 1 {
					out = append(out, i)
				}
			}
		})
		return out
	}
	closedStores := atomicStoreTo(wc, closedF)
	var finalStores []ssa.Instruction
	var pbCall, obsClose, sinkClose *ssa.Call
	var markers []ssa.Instruction
	pbFn := p.MethodOpt("io", "Writer", "processBlock")
	// the finishing part (last batch, end marker, finalized=1) may live in a helper of Close: fin is the function that
	// calls processBlock, finCall the call of that helper in Close
	fin := wc
	var finCall *ssa.Call
	hasPB := func(f *ssa.Function) bool {
		found := false
		eachInstr(f, func(i ssa.Instruction) {
			if c, ok := i.(*ssa.Call); ok && c.Call.StaticCallee() != nil && c.Call.StaticCallee() == pbFn {
				found = true
			}
		})
		return found
	}
	if !hasPB(wc) {
		eachInstr(wc, func(i ssa.Instruction) {
			if h := helperCallee(i, FnPkg(wc)); h != nil && h != pbFn && hasPB(h) {
				if c, ok := i.(*ssa.Call); ok {
					fin, finCall = h, c
				}
			}
		})
	}
	scanCalls := func(f *ssa.Function) {
		eachInstr(f, func(i ssa.Instruction) {
			c, ok := i.(*ssa.Call)
			if !ok {
				return
			}
			if callee := c.Call.StaticCallee(); callee != nil && callee == pbFn && f == fin {
				pbCall = c
			}
			if c.Call.IsInvoke() {
				recv := namedOf(c.Call.Value.Type())
				if recv == nil || recv.Obj().Pkg() == nil {
					return
				}
				switch {
				case recv.Obj().Pkg().Path() == p.ModPath && c.Call.Method.Name() == "Close" && f == wc:
					obsClose = c
				case recv.Obj().Pkg().Path() == "io" && c.Call.Method.Name() == "Close" && f == wc:
					sinkClose = c
				case recv.Obj().Pkg().Path() == p.ModPath && c.Call.Method.Name() == "WriteBits" && f == fin:
					markers = append(markers, c)
				}
			}
		})
	}
	scanCalls(wc)
	if fin != wc {
		scanCalls(fin)
	}
	// the end-marker writes may live in a helper of Close (but not in the processBlock/writeHeader chain)
	isZeroWrite := func(i ssa.Instruction) bool {
		c := callOf(i)
		if c == nil || !c.IsInvoke() || c.Method.Name() != "WriteBits" || len(c.Args) < 1 {
			return false
		}
		recv := namedOf(c.Value.Type())
		return recv != nil && recv.Obj().Pkg() != nil && recv.Obj().Pkg().Path() == p.ModPath && isZeroConst(c.Args[0])
	}
	memo := map[*ssa.Function]int{}
	eachInstr(fin, func(i ssa.Instruction) {
		h := helperCallee(i, FnPkg(wc))
		if h == nil || (pbCall != nil && i == ssa.Instruction(pbCall)) || h == pbFn || h == p.MethodOpt("io", "Writer", "writeHeader") {
			return
		}
		if p.containsDeep(h, isZeroWrite, memo) {
			// count the zero writes inside the helper
			eachInstr(h, func(j ssa.Instruction) {
				if isZeroWrite(j) {
					markers = append(markers, i)
				}
			})
		}
	})
	// the tail of Close (sink Close, closed=1, buffer release) may live in a helper: the call of the helper then
	// stands for the store in Close, and the sink-Close/closed ordering is checked inside the helper
	var tailHelpers []*ssa.Function
	if len(closedStores) == 0 || sinkClose == nil {
		isClosedStore := func(i ssa.Instruction) bool {
			c := callOf(i)
			if c == nil || !isAtomic(c, "StoreInt32", "SwapInt32") || len(c.Args) != 2 {
				return false
			}
			v, ok := constInt(c.Args[1])
			return ok && v == 1 && fieldVarOfAddr(c.Args[0]) == closedF
		}
		memo2 := map[*ssa.Function]int{}
		eachInstr(wc, func(i ssa.Instruction) {
			h := helperCallee(i, FnPkg(wc))
			if h == nil || h == p.MethodOpt("io", "Writer", "processBlock") || h == p.MethodOpt("io", "Writer", "writeHeader") || h == fin {
				return
			}
			if _, isDefer := i.(*ssa.Defer); isDefer {
				return
			}
			if p.containsDeep(h, isClosedStore, memo2) {
				closedStores = append(closedStores, i)
				seen := false
				for _, t := range tailHelpers {
					seen = seen || t == h
				}
				if !seen {
					tailHelpers = append(tailHelpers, h)
				}
			}
		})
	}
	if pbCall == nil || obsClose == nil || len(closedStores) == 0 {
		undecided("%s: cannot find processBlock call / bitstream Close / closed store", wname)
	}
	// finalized: an atomic store of 1 (not a CAS) to another field, made after the end marker was written
	eachInstr(fin, func(i ssa.Instruction) {
		c := callOf(i)
		if c == nil || !isAtomic(c, "StoreInt32", "SwapInt32") || len(c.Args) != 2 {
			return
		}
		fv := fieldVarOfAddr(c.Args[0])
		if v, ok := constInt(c.Args[1]); !ok || v != 1 || fv == nil || fv == closedF {
			return
		}
		for _, m := range markers {
			if instrReaches(m, i) {
				finalF = fv
			}
		}
	})
	if finalF == nil && pbCall != nil {
		// by role: the flag whose being 0 lets Close run the last batch (a load compared with 0 on an edge that dominates
		// the processBlock call); it must not be the closed flag
		for _, b := range fin.Blocks {
			ifi := blockIf(b)
			if ifi == nil {
				continue
			}
			atom, pos := condAtom(ifi.Cond)
			bo, ok := atom.(*ssa.BinOp)
			if !ok || (bo.Op != token.EQL && bo.Op != token.NEQ) || !isZeroConst(bo.Y) {
				continue
			}
			c, ok := bo.X.(*ssa.Call)
			if !ok || !isAtomic(&c.Call, "LoadInt32") || len(c.Call.Args) != 1 {
				continue
			}
			fv := fieldVarOfAddr(c.Call.Args[0])
			if fv == nil || fv == closedF {
				continue
			}
			if edgeDominates(fin, edge{b, succFor(pos, bo.Op == token.EQL)}, pbCall.Block()) {
				finalF = fv
			}
		}
	}
	if finalF != nil {
		finalStores = atomicStoreTo(fin, finalF)
		// finalized=1 says "the end marker is in the stream": it may only be set once every marker write has been made,
		// otherwise a Close that failed inside the marker is retried as if the marker were complete
		for k, st := range finalStores {
			for _, m := range markers {
				if !instrDominates(m, st) {
					r.fail(fmt.Sprintf("%s#finalized-before-marker#%d", wname, k+1), p.IPos(st), "the stream is marked finalized before the end marker has been written completely: if the marker's write fails, a retried Close skips the marker and reports success for a stream without a complete end marker")
					break
				}
			}
		}
	}
	n := 0
	mustFollowOK := func(call *ssa.Call, callName string, targets []ssa.Instruction, tname string, mustDominate bool) {
		ifi, succ, ok := errEdgeOf(call)
		for k, t := range targets {
			n++
			key := fmt.Sprintf("%s#%s-after-%s#%d", wname, tname, callName, k+1)
			if !ok {
				r.fail(key, p.IPos(call), fmt.Sprintf("the error of %s is not tested before %s", callName, tname))
				continue
			}
			if reachesFromBlock(ifi.Block().Succs[succ], t) {
				r.fail(key, p.IPos(t), fmt.Sprintf("%s can be reached after %s failed: Close would report (or record) success for a stream whose bytes did not all reach the sink", tname, callName))
				continue
			}
			if mustDominate && !instrDominates(call, t) {
				r.fail(key, p.IPos(t), fmt.Sprintf("%s is reachable without %s having been called", tname, callName))
				continue
			}
			r.ok(fmt.Sprintf("%s only on the success edge of %s", key, callName), p.IPos(t))
		}
	}
	mustFollowOK(pbCall, "processBlock", markers, "end-marker write", true)
	mustFollowOK(pbCall, "processBlock", finalStores, "finalized=1", true)
	if finCall != nil {
		// Close goes on to close the bitstream only when the finishing helper succeeded
		mustFollowOK(finCall, fin.Name(), []ssa.Instruction{obsClose}, "bitstream.Close", true)
	}
	mustFollowOK(obsClose, "bitstream.Close", closedStores, "closed=1", true)
	if sinkClose != nil {
		mustFollowOK(sinkClose, "sink.Close", closedStores, "closed=1", false)
	}
	for _, h := range tailHelpers {
		var hSink *ssa.Call
		eachInstr(h, func(i ssa.Instruction) {
			if c, ok := i.(*ssa.Call); ok && c.Call.IsInvoke() && c.Call.Method.Name() == "Close" {
				if recv := namedOf(c.Call.Value.Type()); recv != nil && recv.Obj().Pkg() != nil && recv.Obj().Pkg().Path() == "io" {
					hSink = c
				}
			}
		})
		if hSink != nil {
			mustFollowOK(hSink, "sink.Close", atomicStoreTo(h, closedF), "closed=1", false)
		}
	}
	if len(markers) < 2 {
		r.fail(wname+"#end-marker", p.Pos(wc.Pos()), "Writer.Close does not write the end marker (zero block length) to the shared stream: readers cannot tell a complete stream from a truncated one")
	}
	// every success return is either the already-closed early return or follows a successful bitstream Close
	ifiC, succC, okC := errEdgeOf(obsClose)
	for _, b := range wc.Blocks {
		ret, ok := b.Instrs[len(b.Instrs)-1].(*ssa.Return)
		if !ok || b == wc.Recover || len(ret.Results) == 0 || !retMayBeNil(ret, 0) {
			continue
		}
		n++
		early := false
		for _, bb := range wc.Blocks {
			if ifi := blockIf(bb); ifi != nil {
				atom, pos := condAtom(ifi.Cond)
				if bo, ok := atom.(*ssa.BinOp); ok && bo.Op == token.EQL {
					if c, ok := bo.X.(*ssa.Call); ok && isAtomic(&c.Call, "LoadInt32") && fieldVarOfAddr(c.Call.Args[0]) == closedF {
						if edgeDominates(wc, edge{bb, succFor(pos, true)}, b) {
							early = true
						}
					}
				}
			}
		}
		after := okC && edgeDominates(wc, edge{ifiC.Block(), 1 - succC}, b)
		// named result + deferred recover: the return operand is a load of the result cell, see through it
		if early || after {
			r.ok(fmt.Sprintf("%s#success-return: already closed, or after a successful bitstream Close", wname), p.IPos(ret))
		} else {
			r.fail(wname+"#success-return", p.IPos(ret), "Writer.Close can return nil on a path that neither found the stream already closed nor closed the bitstream successfully")
		}
	}
	// DefaultOutputBitStream.Close
	oc := p.Method("bitstream", "DefaultOutputBitStream", "Close")
	oname := p.FnName(oc)
	var flushCall *ssa.Call
	var closedSt []ssa.Instruction
	eachInstr(oc, func(i ssa.Instruction) {
		if c, ok := i.(*ssa.Call); ok && c.Call.StaticCallee() != nil && c.Call.StaticCallee() == p.MethodOpt("bitstream", "DefaultOutputBitStream", "flush") {
			flushCall = c
		}
		if st, ok := i.(*ssa.Store); ok {
			if fv := fieldVarOfAddr(st.Addr); fv != nil && isBool(fv.Type()) {
				if c, ok := st.Val.(*ssa.Const); ok && c.Value != nil && c.Value.String() == "true" {
					closedSt = append(closedSt, i)
				}
			}
		}
	})
	if flushCall == nil || len(closedSt) == 0 {
		r.fail(oname+"#flush-then-closed", p.Pos(oc.Pos()), "the output bitstream's Close does not flush and then mark the stream closed")
	} else {
		ifi, succ, ok := errEdgeOf(flushCall)
		for _, st := range closedSt {
			n++
			if !ok || reachesFromBlock(ifi.Block().Succs[succ], st) || !instrDominates(flushCall, st) {
				r.fail(oname+"#closed-after-flush", p.IPos(st), "the bitstream is marked closed although the final flush failed (or was skipped): the unwritten bytes are lost and a retry reports success")
			} else {
				r.ok(oname+": closed=true only after a successful flush", p.IPos(st))
			}
		}
	}
	r.floor(6, n, "close-ordering obligations")
}

func ruleLifecycle(p *Prog, r *RuleResult) {
	n := 0
	var wantField, gotField *types.Var
	entryTest := func(f *ssa.Function, wantAtomic []string) (*ssa.If, *ssa.BasicBlock, bool) {
		b := f.Blocks[0]
		// skip over the entry block if it only installs a deferred handler and jumps
		ifi := blockIf(b)
		if ifi == nil {
			return nil, nil, false
		}
		atom, pos := condAtom(ifi.Cond)
		bo, ok := atom.(*ssa.BinOp)
		if !ok || bo.Op != token.EQL {
			return nil, nil, false
		}
		c, ok := bo.X.(*ssa.Call)
		if !ok || !isAtomic(&c.Call, wantAtomic...) {
			return nil, nil, false
		}
		if fv := fieldVarOfAddr(c.Call.Args[0]); fv == nil || (wantField != nil && fv != wantField) {
			return nil, nil, false
		} else {
			gotField = fv
		}
		if k, ok := constInt(bo.Y); !ok || k != 1 {
			return nil, nil, false
		}
		// no effect before the test
		for _, in := range b.Instrs {
			switch x := in.(type) {
			case *ssa.Store:
				if _, isAlloc := x.Addr.(*ssa.Alloc); !isAlloc {
					return nil, nil, false
				}
			case *ssa.Call:
				if x != c && !trivialFn(x.Call.StaticCallee(), 0) {
					return nil, nil, false
				}
			}
		}
		return ifi, b.Succs[succFor(pos, true)], true
	}
	closedOf := map[string]*types.Var{}
	for _, m := range [][3]string{{"Writer", "Close", "LoadInt32"}, {"Reader", "Close", "SwapInt32"}} {
		f := p.Method("io", m[0], m[1])
		fname := p.FnName(f)
		n++
		gotField = nil
		ifi, tb, ok := entryTest(f, []string{m[2], "LoadInt32", "SwapInt32"})
		closedOf[m[0]] = gotField
		if !ok {
			r.fail(fname+"#idempotent", p.Pos(f.Pos()), "Close does not test the closed flag first: a repeated Close is not a no-op")
			continue
		}
		ret, isRet := tb.Instrs[len(tb.Instrs)-1].(*ssa.Return)
		okRet := isRet && len(ret.Results) == 1
		if okRet {
			v := rvals(ret)[0]
			okRet = definitelyNil(v)
			if !okRet {
				// named result: load of the result cell that was never stored on this path
				if u, ok := v.(*ssa.UnOp); ok && u.Op == token.MUL {
					if al, ok := u.X.(*ssa.Alloc); ok {
						okRet = true
						for _, ref := range *al.Referrers() {
							if st, ok := ref.(*ssa.Store); ok && st.Block() == tb && !isNilConst(st.Val) {
								okRet = false
							}
						}
					}
				}
			}
		}
		if !okRet {
			r.fail(fname+"#idempotent", p.IPos(ifi), "Close on an already closed stream does not return nil immediately")
		} else {
			r.ok(fname+": already closed -> nil at entry", p.IPos(ifi))
		}
	}
	// The Reader has nothing to flush: its Close marks the stream closed before it closes the bitstream, whatever
	// that returns - otherwise a Close that fails half-way leaves a Reader whose bitstream is closed but which still
	// serves buffered data and then reports a clean end.
	if rc := p.Method("io", "Reader", "Close"); closedOf["Reader"] != nil {
		var mark, ibsClose ssa.Instruction
		eachInstr(rc, func(i ssa.Instruction) {
			c := callOf(i)
			if c == nil {
				return
			}
			if isAtomic(c, "SwapInt32", "StoreInt32", "CompareAndSwapInt32") && len(c.Args) >= 2 && fieldVarOfAddr(c.Args[0]) == closedOf["Reader"] {
				if v, ok := constInt(c.Args[len(c.Args)-1]); ok && v == 1 && mark == nil {
					mark = i
				}
			}
			if c.IsInvoke() && c.Method.Name() == "Close" {
				if recv := namedOf(c.Value.Type()); recv != nil && recv.Obj().Pkg() != nil && recv.Obj().Pkg().Path() == p.ModPath && ibsClose == nil {
					ibsClose = i
				}
			}
		})
		if ibsClose != nil {
			n++
			if mark != nil && instrDominates(mark, ibsClose) {
				r.ok(p.FnName(rc)+": the stream is marked closed before the bitstream is closed", p.IPos(mark))
			} else {
				r.fail(p.FnName(rc)+"#closed-before-bitstream", p.IPos(ibsClose), "Reader.Close closes the bitstream before (or without) marking the stream closed: if the close of the bitstream or of the source fails, later Read calls are served from the buffers of a half-closed stream and end with a clean EOF instead of failing")
			}
		}
	}
	for _, m := range [][2]string{{"Writer", "Write"}, {"Reader", "Read"}} {
		f := p.Method("io", m[0], m[1])
		fname := p.FnName(f)
		n++
		wantField = closedOf[m[0]]
		ifi, tb, ok := entryTest(f, []string{"LoadInt32"})
		wantField = nil
		if !ok {
			r.fail(fname+"#closed-test", p.Pos(f.Pos()), fmt.Sprintf("%s does not test the closed flag first: a call after Close has side effects or succeeds", m[1]))
			continue
		}
		ret, isRet := tb.Instrs[len(tb.Instrs)-1].(*ssa.Return)
		effect := false
		for _, in := range tb.Instrs {
			switch x := in.(type) {
			case *ssa.Store:
				if fa, ok := x.Addr.(*ssa.FieldAddr); ok {
					if _, isAlloc := fa.X.(*ssa.Alloc); !isAlloc {
						effect = true
					}
				}
			case *ssa.Call:
				effect = true
			}
		}
		if !isRet || len(ret.Results) != 2 || !isZeroConst(rvals(ret)[0]) || mayBeNil(rvals(ret)[1], 0) || effect {
			r.fail(fname+"#closed-test", p.IPos(ifi), fmt.Sprintf("%s on a closed stream does not immediately return (0, error) without side effects", m[1]))
		} else {
			r.ok(fname+": closed stream -> (0, error) at entry, no effect", p.IPos(ifi))
		}
	}
	// header before the empty-buffer return
	pb := p.Method("io", "Writer", "processBlock")
	pname := p.FnName(pb)
	var wh *ssa.Call
	eachInstr(pb, func(i ssa.Instruction) {
		if c, ok := i.(*ssa.Call); ok && c.Call.StaticCallee() != nil && c.Call.StaticCallee() == p.MethodOpt("io", "Writer", "writeHeader") {
			wh = c
		}
	})
	n++
	found := false
	for _, b := range pb.Blocks {
		ifi := blockIf(b)
		if ifi == nil {
			continue
		}
		atom, pos := condAtom(ifi.Cond)
		bo, ok := atom.(*ssa.BinOp)
		if !ok || bo.Op != token.EQL || !isZeroConst(bo.Y) {
			continue
		}
		if fv := fieldVarOfLoad(bo.X); fv == nil {
			continue
		}
		tb := b.Succs[succFor(pos, true)]
		if ret, ok := tb.Instrs[len(tb.Instrs)-1].(*ssa.Return); !ok || len(ret.Results) != 1 || !definitelyNil(rvals(ret)[0]) {
			continue
		}
		found = true
		if wh != nil && instrDominates(wh, ifi) {
			r.ok(pname+": header written before the empty-buffer return (an empty stream is still framed)", p.IPos(ifi))
		} else {
			r.fail(pname+"#header-before-empty", p.IPos(ifi), "processBlock returns on an empty buffer before writing the header: a Writer closed without any Write produces a stream without header")
		}
	}
	if !found {
		r.info(pname+": no empty-buffer early return", p.Pos(pb.Pos()))
		if wh == nil {
			r.fail(pname+"#header", p.Pos(pb.Pos()), "processBlock never writes the header")
		}
	}
	r.floor(5, n, "lifecycle entry obligations")
}

func ruleBsClosed(p *Prog, r *RuleResult) {
	n := 0
	// field names are resolved from the code that gives them their role: closed = what Closed() returns,
	// availBits = what the single-bit operation tests first, maxPosition = what pull() compares the position with
	roleField := func(typ, role string) string {
		first := func(m string, second bool) string {
			f := p.MethodOpt("bitstream", typ, m)
			if f == nil || f.Blocks == nil {
				return ""
			}
			if ifi := blockIf(f.Blocks[0]); ifi != nil {
				atom, _ := condAtom(ifi.Cond)
				if bo, ok := atom.(*ssa.BinOp); ok {
					v := bo.X
					if second {
						v = bo.Y
					}
					if fv := fieldVarOfLoad(v); fv != nil {
						return fv.Name()
					}
				}
			}
			return ""
		}
		switch role {
		case "closed":
			if f := p.MethodOpt("bitstream", typ, "Closed"); f != nil && f.Blocks != nil {
				for _, b := range f.Blocks {
					if ret, ok := b.Instrs[len(b.Instrs)-1].(*ssa.Return); ok && len(ret.Results) == 1 {
						if fv := fieldVarOfLoad(rvals(ret)[0]); fv != nil {
							return fv.Name()
						}
					}
				}
			}
		case "availBits":
			for _, m := range []string{"ReadBit", "WriteBit"} {
				if n := first(m, false); n != "" {
					return n
				}
			}
		case "maxPosition":
			// the field pull() compares the position with, on whichever side it is written: of the two fields of that
			// comparison it is the one pull never stores to
			if f := p.MethodOpt("bitstream", typ, "pull"); f != nil && f.Blocks != nil {
				if ifi := blockIf(f.Blocks[0]); ifi != nil {
					atom, _ := condAtom(ifi.Cond)
					if bo, ok := atom.(*ssa.BinOp); ok {
						stored := map[*types.Var]bool{}
						eachInstr(f, func(i ssa.Instruction) {
							if st, ok := i.(*ssa.Store); ok {
								if fv := fieldVarOfAddr(st.Addr); fv != nil {
									stored[fv] = true
								}
							}
						})
						for _, v := range []ssa.Value{bo.Y, bo.X} {
							if fv := fieldVarOfLoad(stripConv(v)); fv != nil && !stored[fv] {
								return fv.Name()
							}
						}
					}
				}
			}
			if n := first("pull", true); n != "" {
				return n
			}
		}
		return role
	}

	closeStores := func(typ string, want map[string]string) {
		f := p.Method("bitstream", typ, "Close")
		fname := p.FnName(f)
		got := map[string]ssa.Instruction{}
		eachInstr(f, func(i ssa.Instruction) {
			st, ok := i.(*ssa.Store)
			if !ok {
				return
			}
			fv := fieldVarOfAddr(st.Addr)
			if fv == nil {
				return
			}
			w, ok := want[fv.Name()]
			if !ok {
				return
			}
			if c, ok := st.Val.(*ssa.Const); ok && c.Value != nil && c.Value.String() == w {
				got[fv.Name()] = i
			}
		})
		for _, name := range sortedKeys(want) {
			n++
			st, ok := got[name]
			key := fmt.Sprintf("%s#store.%s", fname, name)
			if !ok {
				r.fail(key, p.Pos(f.Pos()), fmt.Sprintf("Close does not set %s = %s: operations on the closed stream keep working on stale state instead of failing", name, want[name]))
				continue
			}
			// every success return except the already-closed one is preceded by the store
			bad := false
			for _, b := range f.Blocks {
				ret, isRet := b.Instrs[len(b.Instrs)-1].(*ssa.Return)
				if !isRet || !definitelyNil(rvals(ret)[0]) {
					continue
				}
				if instrDominates(st, ret) {
					continue
				}
				// the already-closed early return: dominated by the true edge of a Closed() test
				early := false
				for _, bb := range f.Blocks {
					if ifi := blockIf(bb); ifi != nil {
						atom, pos := condAtom(ifi.Cond)
						isClosedTest := false
						if c, ok := atom.(*ssa.Call); ok && c.Call.StaticCallee() != nil && c.Call.StaticCallee().Name() == "Closed" {
							isClosedTest = true
						}
						if fv := fieldVarOfLoad(atom); fv != nil && fv.Name() == roleField(typ, "closed") {
							isClosedTest = true
						}
						if isClosedTest && edgeDominates(f, edge{bb, succFor(pos, true)}, b) {
							early = true
						}
					}
				}
				if !early {
					bad = true
				}
			}
			if bad {
				r.fail(key, p.IPos(st), fmt.Sprintf("a successful Close can return without having set %s = %s", name, want[name]))
			} else {
				r.ok(key+" on every successful close", p.IPos(st))
			}
		}
	}
	closeStores("DefaultOutputBitStream", map[string]string{roleField("DefaultOutputBitStream", "closed"): "true", roleField("DefaultOutputBitStream", "availBits"): "0"})
	closeStores("DefaultInputBitStream", map[string]string{roleField("DefaultInputBitStream", "closed"): "true", roleField("DefaultInputBitStream", "availBits"): "0", roleField("DefaultInputBitStream", "maxPosition"): "-1"})
	for _, m := range [][2]string{{"DefaultOutputBitStream", "flush"}, {"DefaultOutputBitStream", "WriteArray"}, {"DefaultInputBitStream", "readFromInputStream"}, {"DefaultInputBitStream", "ReadArray"}} {
		f := p.Method("bitstream", m[0], m[1])
		fname := p.FnName(f)
		n++
		b := f.Blocks[0]
		ifi := blockIf(b)
		okT := false
		if ifi != nil {
			atom, pos := condAtom(ifi.Cond)
			isClosedTest := false
			if c, ok := atom.(*ssa.Call); ok && c.Call.StaticCallee() != nil && c.Call.StaticCallee().Name() == "Closed" {
				isClosedTest = true
			}
			if fv := fieldVarOfLoad(atom); fv != nil && fv.Name() == roleField(m[0], "closed") {
				isClosedTest = true
			}
			effect := false
			for _, in := range b.Instrs {
				if st, ok := in.(*ssa.Store); ok {
					if _, isAlloc := st.Addr.(*ssa.Alloc); !isAlloc {
						effect = true
					}
				}
			}
			if isClosedTest && !effect {
				tb := b.Succs[succFor(pos, true)]
				switch x := tb.Instrs[len(tb.Instrs)-1].(type) {
				case *ssa.Panic:
					okT = true
				case *ssa.Return:
					okT = len(x.Results) > 0 && !mayBeNil(rvals(x)[len(x.Results)-1], 0)
				}
			}
		}
		if !okT {
			// the test may sit in a guard helper called first thing (checkOpen()): a method of the same type, called
			// before any store, whose own entry is "closed -> panic"
			for _, in := range b.Instrs {
				if st, ok := in.(*ssa.Store); ok {
					if _, isAlloc := st.Addr.(*ssa.Alloc); !isAlloc {
						break
					}
				}
				c := callOf(in)
				if c == nil {
					continue
				}
				h := c.StaticCallee()
				if h == nil || h.Blocks == nil || h.Signature.Recv() == nil || namedOf(h.Signature.Recv().Type()) != namedOf(f.Signature.Recv().Type()) {
					break
				}
				if hi := blockIf(h.Blocks[0]); hi != nil {
					atom, pos := condAtom(hi.Cond)
					isClosedTest := false
					if cc, ok := atom.(*ssa.Call); ok && cc.Call.StaticCallee() != nil && cc.Call.StaticCallee().Name() == "Closed" {
						isClosedTest = true
					}
					if fv := fieldVarOfLoad(atom); fv != nil && fv.Name() == roleField(m[0], "closed") {
						isClosedTest = true
					}
					tb := h.Blocks[0].Succs[succFor(pos, true)]
					if _, isPanic := tb.Instrs[len(tb.Instrs)-1].(*ssa.Panic); isPanic && isClosedTest {
						okT = true
					}
				}
				break
			}
		}
		if okT {
			r.ok(fname+": tests the closed state first and fails", p.Pos(f.Pos()))
		} else {
			r.fail(fname+"#closed-test", p.Pos(f.Pos()), "the operation does not test the closed state before touching the buffer: a closed stream accepts further operations")
		}
	}
	// The bit and word operations have no closed test of their own: they rely on the sentinel Close leaves in the
	// bits-available field (0) to send them into the flush / refill path, which does test the closed state. So for
	// each of them: the entry test, evaluated with the sentinel value, must select the branch that calls the
	// flush/refill helper (a method of the same type) - not the fast path.
	for _, m := range [][2]string{{"DefaultOutputBitStream", "WriteBit"}, {"DefaultInputBitStream", "ReadBit"}} {
		f := p.MethodOpt("bitstream", m[0], m[1])
		if f == nil || f.Blocks == nil {
			continue
		}
		fname := p.FnName(f)
		ifi := blockIf(f.Blocks[0])
		if ifi == nil {
			continue
		}
		atom, pos := condAtom(ifi.Cond)
		bo, ok := atom.(*ssa.BinOp)
		if !ok {
			continue
		}
		fv := fieldVarOfLoad(stripConv(bo.X))
		c, okc := constInt(bo.Y)
		if fv == nil || !okc || fv.Name() != roleField(m[0], "availBits") {
			continue
		}
		n++
		var val bool
		switch bo.Op {
		case token.EQL:
			val = 0 == c
		case token.NEQ:
			val = 0 != c
		case token.LSS:
			val = 0 < c
		case token.LEQ:
			val = 0 <= c
		case token.GTR:
			val = 0 > c
		case token.GEQ:
			val = 0 >= c
		default:
			continue
		}
		taken := f.Blocks[0].Succs[succFor(pos, val)]
		slow := false
		for _, in := range taken.Instrs {
			if cc := callOf(in); cc != nil && cc.StaticCallee() != nil && cc.StaticCallee().Signature.Recv() != nil &&
				namedOf(cc.StaticCallee().Signature.Recv().Type()) == namedOf(f.Signature.Recv().Type()) {
				slow = true
			}
		}
		if slow {
			r.ok(fname+": with the closed sentinel (0 bits available) the entry test selects the flush/refill path", p.IPos(ifi))
		} else {
			r.fail(fname+"#closed-sentinel", p.IPos(ifi), "with the sentinel that Close leaves in the bits-available field (0) the entry test of this operation selects the fast path: on a closed stream the operation is accepted (the unsigned field wraps and every later operation is accepted too) instead of reaching the flush/refill path that refuses it")
		}
	}
	r.floor(9, n, "closed-state obligations")
}

func ruleSeqRevert(p *Prog, r *RuleResult) {
	var seqT *types.Named
	pk := p.Pkg("transform")
	for _, name := range sortedKeys(pk.Members) {
		if tm, ok := pk.Members[name].(*ssa.Type); ok {
			if n, ok := tm.Type().(*types.Named); ok && isTransformSequence(p, n) {
				seqT = n
			}
		}
	}
	if seqT == nil {
		undecided("anchor unresolved: transform sequence type")
	}
	f := p.Method("transform", seqT.Obj().Name(), "Forward")
	fname := p.FnName(f)
	var call *ssa.Call
	eachInstr(f, func(i ssa.Instruction) {
		if c, ok := i.(*ssa.Call); ok && c.Call.IsInvoke() && c.Call.Method.Name() == "Forward" {
			call = c
		}
	})
	if call == nil {
		undecided("%s: no stage Forward call", fname)
	}
	ifi, succ, ok := errEdgeOf(call)
	if !ok {
		r.fail(fname+"#stage-error-test", p.IPos(call), "the error of a stage's Forward is not tested: a declined stage is treated as applied")
		r.floor(1, 1, "stage calls")
		return
	}
	// follow the error edge to the loop header (first block with phis that is reachable back to the call)
	cur := ifi.Block().Succs[succ]
	prev := ifi.Block()
	path := []*ssa.BasicBlock{}
	var header *ssa.BasicBlock
	for steps := 0; steps < 16; steps++ {
		hasPhi := false
		for _, in := range cur.Instrs {
			if _, ok := in.(*ssa.Phi); ok {
				hasPhi = true
			}
		}
		if hasPhi && reach(cur, nil, nil)[call.Block()] {
			header = cur
			break
		}
		path = append(path, cur)
		if len(cur.Succs) != 1 {
			// conditional on the error path (e.g. loop condition of a rotated loop): follow the edge that loops
			next := (*ssa.BasicBlock)(nil)
			for _, s := range cur.Succs {
				if reach(s, nil, nil)[call.Block()] {
					next = s
				}
			}
			if next == nil {
				break
			}
			prev, cur = cur, next
			continue
		}
		prev, cur = cur, cur.Succs[0]
	}
	if header == nil {
		undecided("%s: cannot follow the error edge of the stage call back to the loop header", fname)
	}
	pidx := -1
	for i, pb := range header.Preds {
		if pb == prev {
			pidx = i
		}
	}
	if pidx < 0 {
		undecided("%s: predecessor of loop header not found", fname)
	}
	// values feeding the call
	var inBase, lenVal ssa.Value
	if sl, ok := call.Call.Args[0].(*ssa.Slice); ok {
		inBase, lenVal = sl.X, sl.High
	} else {
		inBase = call.Call.Args[0]
	}
	n := 0
	derivesFromCall := func(v ssa.Value) bool {
		seen := map[ssa.Value]bool{}
		var walk func(v ssa.Value) bool
		walk = func(v ssa.Value) bool {
			if seen[v] {
				return false
			}
			seen[v] = true
			switch x := v.(type) {
			case *ssa.Extract:
				return x.Tuple == ssa.Value(call)
			case *ssa.Phi:
				for _, e := range x.Edges {
					if walk(e) {
						return true
					}
				}
			case *ssa.Convert:
				return walk(x.X)
			}
			return false
		}
		return walk(v)
	}
	for _, in := range header.Instrs {
		ph, ok := in.(*ssa.Phi)
		if !ok {
			continue
		}
		e := ph.Edges[pidx]
		if ssa.Value(ph) == inBase {
			n++
			if e == ssa.Value(ph) {
				r.ok(fname+": input buffer unchanged after a declined stage (no swap)", p.IPos(call))
			} else {
				r.fail(fname+"#swap-on-error", p.IPos(call), "after a declined stage the sequence continues with a different input buffer (buffers swapped): the next stage reads the declined stage's scratch output")
			}
		}
		if lenVal != nil && ssa.Value(ph) == lenVal {
			n++
			if e == ssa.Value(ph) || !derivesFromCall(e) {
				r.ok(fname+": length restored after a declined stage", p.IPos(call))
			} else {
				r.fail(fname+"#length-on-error", p.IPos(call), "after a declined stage the sequence keeps the length reported by the failed call: the next stage processes a wrong number of bytes")
			}
		}
	}
	// no skip-flag clearing on the error path
	cleared := false
	for _, b := range path {
		for _, in := range b.Instrs {
			if st, ok := in.(*ssa.Store); ok {
				if fv := fieldVarOfAddr(st.Addr); fv != nil && namedOf(st.Addr.(*ssa.FieldAddr).X.Type()) == seqT && typeBits(fv.Type()) == 8 {
					cleared = true
				}
			}
		}
	}
	n++
	if cleared {
		r.fail(fname+"#skipflag-on-error", p.IPos(call), "the skip flag of a declined stage is modified on the error path: the decoder would try to undo a transform that was not applied")
	} else {
		r.ok(fname+": skip flags untouched on the error path", p.IPos(call))
	}
	// and the success path does clear the bit
	clearedOK := false
	okBlock := ifi.Block().Succs[1-succ]
	for b := range reach(okBlock, nil, map[*ssa.BasicBlock]bool{header: true}) {
		for _, in := range b.Instrs {
			if st, ok := in.(*ssa.Store); ok {
				if fv := fieldVarOfAddr(st.Addr); fv != nil && namedOf(st.Addr.(*ssa.FieldAddr).X.Type()) == seqT && typeBits(fv.Type()) == 8 {
					clearedOK = true
				}
			}
		}
	}
	n++
	if clearedOK {
		r.ok(fname+": skip bit updated on the success path", p.IPos(call))
	} else {
		r.fail(fname+"#skipflag-on-success", p.IPos(call), "an applied stage does not update its skip bit")
	}
	r.floor(3, n, "revert obligations")
}

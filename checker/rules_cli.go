package main

import (
	"fmt"
	"go/constant"
	"go/token"
	"go/types"
	"os"
	"strings"

	"golang.org/x/tools/go/ssa"
)

// ---------------------------------------------------------------------------------------
// Command-line tool: R-FS-WHO, R-EXCL, R-REMOVE-ORDER
// ---------------------------------------------------------------------------------------

func init() {
	register("R-FS-WHO", "the only file-system mutations in the module are the allow-listed ones (output creation in openOutputFile, source removal in the two task call methods, CPU profile creation)", true, ruleFsWho)
	register("R-EXCL", "output files are created with O_EXCL unless the overwrite flag is set; with overwrite a same-file test precedes every truncating open", false, ruleExcl)
	register("R-REMOVE-ORDER", "a source file is removed only after the compressed stream was closed without error, every write succeeded and (decompression) the output size matched", false, ruleRemoveOrder)
}

var fsMutators = map[string]map[string]bool{
	"os": {"Create": true, "OpenFile": true, "Remove": true, "RemoveAll": true, "Rename": true, "Mkdir": true, "MkdirAll": true,
		"MkdirTemp": true, "CreateTemp": true, "WriteFile": true, "Truncate": true, "Chmod": true, "Chown": true, "Lchown": true,
		"Chtimes": true, "Link": true, "Symlink": true, "CopyFS": true},
	"io/ioutil": {"WriteFile": true, "TempFile": true, "TempDir": true},
}

var fsFileMethods = map[string]bool{"Truncate": true, "Chmod": true, "Chown": true}

// fsAllow: function name (as printed by FnName) -> callee -> reason
var fsAllow = map[string]map[string]string{
	"app.openOutputFile": {
		"os.OpenFile": "creates the output file (flags governed by R-EXCL)",
		"os.MkdirAll": "creates the missing directories of the output path",
	},
	"(*app.fileCompressTask).call":   {"os.Remove": "removes the source after a complete compression (ordering governed by R-REMOVE-ORDER)"},
	"(*app.fileDecompressTask).call": {"os.Remove": "removes the source after a complete decompression (ordering governed by R-REMOVE-ORDER)"},
	"app.compress":                   {"os.Create": "CPU profile file requested on the command line"},
	"app.decompress":                 {"os.Create": "CPU profile file requested on the command line"},
}

const writeFlags = os.O_WRONLY | os.O_RDWR | os.O_CREATE | os.O_TRUNC | os.O_APPEND

func ruleFsWho(p *Prog, r *RuleResult) {
	n := 0
	var k keyer
	for _, f := range p.ModFns {
		if p.Rel(f) == "benchmark" {
			continue
		}
		fname := p.FnName(f)
		if p.isForwarder(f) {
			r.exempt(fname, p.Pos(f.Pos()), "thin forwarder to "+forwarderFns[f].FullName()+": its call sites are held to the rules instead")
			continue
		}
		eachInstr(f, func(i ssa.Instruction) {
			c := callOf(i)
			if c == nil {
				return
			}
			o := calleeObj(c)
			if t := fwdTarget[c]; t != nil {
				o = t
			}
			if o == nil || o.Pkg() == nil {
				return
			}
			path := o.Pkg().Path()
			sig := o.Type().(*types.Signature)
			callee := ""
			if sig.Recv() == nil {
				if m, ok := fsMutators[path]; ok && m[o.Name()] {
					callee = path + "." + o.Name()
				}
			} else if path == "os" && fsFileMethods[o.Name()] {
				callee = "os.File." + o.Name()
			}
			if callee == "" {
				return
			}
			if callee == "os.OpenFile" && len(c.Args) >= 2 {
				if fl, ok := constInt(c.Args[1]); ok && int(fl)&writeFlags == 0 {
					return // read-only open
				}
			}
			n++
			// closures inherit the allow-list entry of their outermost function
			root := f
			for root.Parent() != nil {
				root = root.Parent()
			}
			rootName := p.FnName(root)
			if of := p.FuncOpt("app", "openOutputFile"); of != nil && root == of {
				rootName = "app.openOutputFile" // resolved structurally if it was renamed
			}
			if reason, ok := fsAllow[rootName][callee]; ok {
				r.exempt(k.key(fname, callee), p.IPos(i), reason)
				return
			}
			if callee == "os.Remove" && p.Rel(f) == "app" {
				r.exempt(k.key(fname, callee), p.IPos(i), "source removal in the CLI: every os.Remove of package app is held to R-REMOVE-ORDER (flag, close, write and size obligations)")
				return
			}
			// a file created only to be handed to the CPU profiler (wherever that code lives in the CLI)
			if callee == "os.Create" && p.Rel(f) == "app" {
				if cv, ok := i.(ssa.Value); ok {
					toProf := false
					fl := NewFlow(p, false)
					for _, ref := range *cv.Referrers() {
						if ex, ok := ref.(*ssa.Extract); ok && ex.Index == 0 {
							fl.Add(ex)
						}
					}
					fl.Run()
					for _, g := range p.ModFns {
						eachInstr(g, func(j ssa.Instruction) {
							if c2 := callOf(j); c2 != nil && isPkgFunc(c2, "runtime/pprof", "StartCPUProfile") && len(c2.Args) == 1 && fl.Tainted(c2.Args[0]) {
								toProf = true
							}
						})
					}
					if toProf {
						r.exempt(k.key(fname, callee), p.IPos(i), "file created for runtime/pprof.StartCPUProfile (CPU profile requested on the command line)")
						return
					}
				}
			}
			r.sink(k.key(fname, callee), p.IPos(i), fmt.Sprintf("%s is called outside the allow-listed functions: the tool (or library) modifies the file system in a place that none of the file-safety rules covers", callee))
		})
	}
	if len(r.Findings) == 0 {
		r.ok(fmt.Sprintf("%d file-system mutating call sites, all allow-listed", n), "-")
	}
	r.floor(4, n, "file-system mutating call sites")
}

func ruleExcl(p *Prog, r *RuleResult) {
	f := p.Func("app", "openOutputFile")
	fname := p.FnName(f)
	var ow *ssa.Parameter
	for _, prm := range f.Params {
		if isBool(prm.Type()) {
			ow = prm
		}
	}
	if ow == nil {
		undecided("%s: no boolean overwrite parameter", fname)
	}
	var owEdges, noOwEdges []edge
	for _, b := range f.Blocks {
		if ifi := blockIf(b); ifi != nil {
			atom, pos := condAtom(ifi.Cond)
			if atom == ssa.Value(ow) {
				owEdges = append(owEdges, edge{b, succFor(pos, true)})
				noOwEdges = append(noOwEdges, edge{b, succFor(pos, false)})
			}
		}
	}
	var opens []*ssa.Call
	var same *ssa.Call
	var stats []*ssa.Call
	eachInstr(f, func(i ssa.Instruction) {
		c, ok := i.(*ssa.Call)
		if !ok {
			return
		}
		switch {
		case isPkgFunc(&c.Call, "os", "OpenFile"), isPkgFunc(&c.Call, "os", "Create"):
			opens = append(opens, c)
		case isPkgFunc(&c.Call, "os", "SameFile"):
			same = c
		case isPkgFunc(&c.Call, "os", "Stat"), isPkgFunc(&c.Call, "os", "Lstat"):
			stats = append(stats, c)
		}
	})
	n := 0
	exclOnNoOw := false
	var truncs []*ssa.Call
	var k keyer
	for _, c := range opens {
		n++
		key := k.key(fname, "open")
		type flagCase struct {
			val int64
			at  *ssa.BasicBlock // block whose dominance facts hold when this value is used
		}
		var cases []flagCase
		undecidable := false
		if isPkgFunc(&c.Call, "os", "Create") {
			cases = []flagCase{{int64(os.O_RDWR | os.O_CREATE | os.O_TRUNC), c.Block()}}
		} else {
			// the flags may be a constant, or a variable assembled from constants along the branches (phi / |)
			var eval func(v ssa.Value, at *ssa.BasicBlock, d int) []flagCase
			eval = func(v ssa.Value, at *ssa.BasicBlock, d int) []flagCase {
				if d > 6 {
					undecidable = true
					return nil
				}
				switch x := v.(type) {
				case *ssa.Const:
					if fl, ok := constInt(x); ok {
						return []flagCase{{fl, at}}
					}
				case *ssa.Phi:
					var out []flagCase
					for i, e := range x.Edges {
						out = append(out, eval(e, x.Block().Preds[i], d+1)...)
					}
					return out
				case *ssa.BinOp:
					if x.Op == token.OR {
						var out []flagCase
						for _, a := range eval(x.X, at, d+1) {
							for _, b := range eval(x.Y, at, d+1) {
								// keep the more specific location (a branch block rather than the join)
								loc := a.at
								if _, isC := x.X.(*ssa.Const); isC {
									loc = b.at
								}
								if loc == at && x.Block() != at {
									loc = x.Block()
								}
								out = append(out, flagCase{a.val | b.val, loc})
							}
						}
						return out
					}
				case *ssa.Convert:
					return eval(x.X, at, d+1)
				}
				undecidable = true
				return nil
			}
			cases = eval(c.Call.Args[1], c.Block(), 0)
		}
		if undecidable || len(cases) == 0 {
			r.fail(key, p.IPos(c), "output file opened with flags that are not assembled from constants: cannot establish O_EXCL")
			continue
		}
		okOpen := true
		for _, fc := range cases {
			flags := fc.val
			if flags&int64(os.O_EXCL) != 0 && flags&int64(os.O_CREATE) != 0 {
				for _, e := range noOwEdges {
					if edgeDominates(f, e, fc.at) {
						exclOnNoOw = true
					}
				}
				continue
			}
			dom := false
			for _, e := range owEdges {
				if edgeDominates(f, e, fc.at) {
					dom = true
				}
			}
			if !dom {
				okOpen = false
				r.fail(key, p.IPos(c), "an output file is opened without O_EXCL on a path where the overwrite flag is not known to be set: an existing file is overwritten without --force")
				break
			}
			if flags&int64(os.O_CREATE) != 0 && flags&int64(os.O_TRUNC) == 0 && flags&int64(os.O_APPEND) == 0 {
				okOpen = false
				r.fail(key+"#no-trunc", p.IPos(c), "with the overwrite flag set an existing output is opened without O_TRUNC: when it is longer than the new data its old tail survives, the run exits 0 and the file no longer round-trips")
				break
			}
			isTrunc := false
			for _, t := range truncs {
				if t == c {
					isTrunc = true
				}
			}
			if !isTrunc {
				truncs = append(truncs, c)
			}
		}
		if okOpen {
			r.ok(fmt.Sprintf("%s: O_CREATE|O_EXCL without overwrite, truncating open only under overwrite == true (%d flag value(s))", key, len(cases)), p.IPos(c))
		}
	}
	if !exclOnNoOw {
		r.fail(fname+"#exclusive-create", p.Pos(f.Pos()), "the overwrite == false path does not create the output with O_CREATE|O_EXCL")
	}
	// same-file protection of truncating opens
	if len(truncs) > 0 {
		n++
		if same == nil {
			r.fail(fname+"#same-file", p.Pos(f.Pos()), "no os.SameFile test before the truncating open: with --force the tool can truncate its own input")
		} else {
			var sameIf *ssa.If
			var sameSucc int
			for _, ref := range *same.Referrers() {
				if ifi, ok := ref.(*ssa.If); ok {
					_, pos := condAtom(ifi.Cond)
					sameIf, sameSucc = ifi, succFor(pos, true)
				}
			}
			// both operands must describe the files the names resolve to (os.Stat, following symbolic links) and be
			// taken from two different name parameters
			statOf := func(v ssa.Value) (*ssa.Call, bool) {
				if ex, ok := v.(*ssa.Extract); ok {
					if c, ok := ex.Tuple.(*ssa.Call); ok {
						return c, isPkgFunc(&c.Call, "os", "Stat")
					}
				}
				return nil, false
			}
			ca, okA := statOf(same.Call.Args[0])
			cb, okB := statOf(same.Call.Args[1])
			n++
			switch {
			case ca == nil || cb == nil:
				r.fail(fname+"#same-file-operands", p.IPos(same), "the operands of os.SameFile are not the results of stat calls in this function")
			case !okA || !okB:
				r.fail(fname+"#same-file-operands", p.IPos(same), "the same-file test compares a file with os.Lstat (the link itself) instead of os.Stat (the file it resolves to): an input given as a symbolic link to the output is not recognised and gets truncated")
			default:
				pa, isPa := ca.Call.Args[0].(*ssa.Parameter)
				pb, isPb := cb.Call.Args[0].(*ssa.Parameter)
				if !isPa || !isPb || pa == pb {
					r.fail(fname+"#same-file-operands", p.IPos(same), "the same-file test does not compare the input name with the output name")
				} else {
					r.ok(fname+": same-file test compares os.Stat(input) with os.Stat(output)", p.IPos(same))
				}
			}
			if sameIf == nil {
				r.fail(fname+"#same-file", p.IPos(same), "the result of os.SameFile does not decide a branch")
			} else {
				tb := sameIf.Block().Succs[sameSucc]
				okRefuse := true
				for b := range reach(tb, nil, nil) {
					for _, in := range b.Instrs {
						if c, ok := in.(*ssa.Call); ok && (isPkgFunc(&c.Call, "os", "OpenFile") || isPkgFunc(&c.Call, "os", "Create")) {
							okRefuse = false
						}
						if ret, ok := in.(*ssa.Return); ok && retMayBeNil(ret, len(ret.Results)-1) {
							// returning the package-level sentinel error: a load of a global is fine
							v := rvals(ret)[len(ret.Results)-1]
							if u, ok := v.(*ssa.UnOp); ok {
								if _, isG := u.X.(*ssa.Global); isG {
									continue
								}
							}
							okRefuse = false
						}
					}
				}
				// bypass only through a failing Stat (or the stdin test)
				cut := map[edge]bool{}
				for _, st := range stats {
					if ifi, succ, ok := errEdgeOf(st); ok {
						cut[edge{ifi.Block(), succ}] = true
					}
				}
				for _, b := range f.Blocks {
					if ifi := blockIf(b); ifi != nil {
						atom, pos := condAtom(ifi.Cond)
						if c, ok := atom.(*ssa.Call); ok && isPkgFunc(&c.Call, "strings", "EqualFold") {
							cut[edge{b, succFor(pos, true)}] = true
						}
					}
				}
				cut[edge{sameIf.Block(), 1 - sameSucc}] = true
				reached := reach(f.Blocks[0], cut, nil)
				bypass := false
				for _, t := range truncs {
					if reached[t.Block()] {
						bypass = true
					}
				}
				switch {
				case !okRefuse:
					r.fail(fname+"#same-file", p.IPos(sameIf), "when input and output are the same file the function does not refuse with an error before opening")
				case bypass:
					r.fail(fname+"#same-file", p.IPos(truncs[0]), "a truncating open is reachable without passing the same-file test although both files could be stat'ed: with --force the tool can truncate its own input")
				default:
					r.ok(fname+": same-file test guards every truncating open (skipped only when a Stat fails or input is stdin)", p.IPos(sameIf))
				}
			}
		}
	}
	// callers pass ctx["overwrite"]
	node := p.VTA().Nodes[f]
	ncall := 0
	if node != nil {
		for _, e := range node.In {
			if !p.InModule(e.Caller.Func) || strings.HasSuffix(p.Fset.Position(e.Site.Pos()).Filename, "_test.go") {
				continue
			}
			ncall++
			n++
			idx := -1
			for i, prm := range f.Params {
				if prm == ow {
					idx = i
				}
			}
			arg := e.Site.Common().Args[idx]
			if key, ok := ctxKeyOfValue(arg, 0); ok {
				r.ok(fmt.Sprintf("%s passes the user's option ctx[%q]", p.FnName(e.Caller.Func), key), p.IPos(e.Site))
			} else {
				r.fail(fmt.Sprintf("%s#overwrite-arg", p.FnName(e.Caller.Func)), p.IPos(e.Site), "openOutputFile is called with an overwrite argument that is not the user's ctx[\"overwrite\"] flag")
			}
		}
	}
	if ncall == 0 {
		r.fail(fname+"#callers", p.Pos(f.Pos()), "openOutputFile has no caller: output files are created elsewhere")
	}
	r.floor(4, n, "open sites, same-file guard, callers")
}

func ruleRemoveOrder(p *Prog, r *RuleResult) {
	nrem := 0
	isRemove := func(i ssa.Instruction) bool {
		c := callOf(i)
		return c != nil && (isPkgFunc(c, "os", "Remove") || isPkgFunc(c, "os", "RemoveAll"))
	}
	isStreamClose := func(i ssa.Instruction) bool {
		c, ok := i.(*ssa.Call)
		if !ok {
			return false
		}
		o := calleeObj(&c.Call)
		if o == nil || o.Name() != "Close" {
			return false
		}
		sig := o.Type().(*types.Signature)
		if sig.Recv() == nil {
			return false
		}
		rn := namedOf(sig.Recv().Type())
		return rn != nil && rn.Obj().Pkg() != nil && rn.Obj().Pkg().Path() == p.ModPath+"/io" && (rn.Obj().Name() == "Writer" || rn.Obj().Name() == "Reader")
	}
	// the functions to analyse: those that close the compressed stream and (directly or through a helper) remove a
	// file; a helper that only removes is covered by its analysed callers, or analysed itself if it has none
	covered := map[*ssa.Function]bool{}
	var todo []*ssa.Function
	for _, f := range p.ModFns {
		if p.Rel(f) != "app" || f.Parent() != nil || p.isForwarder(f) {
			continue
		}
		hasClose := false
		eachInstr(f, func(i ssa.Instruction) {
			if isStreamClose(i) {
				hasClose = true
			}
		})
		d, v := p.liftedSites(f, isRemove)
		if hasClose && len(d)+len(v) > 0 {
			todo = append(todo, f)
			for _, vi := range v {
				if h := helperCallee(vi, FnPkg(f)); h != nil {
					covered[h] = true
					for _, hh := range p.helperClosure(h) {
						covered[hh] = true
					}
				}
			}
		}
	}
	for _, f := range p.ModFns {
		if p.Rel(f) != "app" || f.Parent() != nil || covered[f] || p.isForwarder(f) {
			continue
		}
		already := false
		for _, t := range todo {
			if t == f {
				already = true
			}
		}
		d, _ := p.liftedSites(f, isRemove)
		if !already && len(d) > 0 {
			todo = append(todo, f)
		}
	}
	for _, f := range todo {
		var removes []ssa.Instruction
		d, v := p.liftedSites(f, isRemove)
		removes = append(append(removes, d...), v...)
		if len(removes) == 0 {
			continue
		}
		fname := p.FnName(f)
		// stream close / write calls
		var closes, writes, buffered, flushes []*ssa.Call
		var sizeIfs []*ssa.If
		eachInstr(f, func(i ssa.Instruction) {
			c, ok := i.(*ssa.Call)
			if !ok {
				return
			}
			o := calleeObj(&c.Call)
			if o == nil {
				return
			}
			sig := o.Type().(*types.Signature)
			if sig.Recv() == nil {
				return
			}
			rn := namedOf(sig.Recv().Type())
			if rn == nil || rn.Obj().Pkg() == nil {
				return
			}
			isStream := rn.Obj().Pkg().Path() == p.ModPath+"/io" && (rn.Obj().Name() == "Writer" || rn.Obj().Name() == "Reader")
			switch o.Name() {
			case "Close":
				if isStream {
					closes = append(closes, c)
				}
			case "Write":
				if isStream || rn.Obj().Pkg().Path() == "io" {
					writes = append(writes, c)
				}
				if rn.Obj().Pkg().Path() == "bufio" {
					writes = append(writes, c)
					buffered = append(buffered, c)
				}
			case "Flush":
				if rn.Obj().Pkg().Path() == "bufio" {
					flushes = append(flushes, c)
				}
			}
		})
		for _, b := range f.Blocks {
			ifi := blockIf(b)
			if ifi == nil {
				continue
			}
			atom, _ := condAtom(ifi.Cond)
			if bo, ok := atom.(*ssa.BinOp); ok && (bo.Op == token.NEQ || bo.Op == token.EQL) {
				kx, okx := ctxKeyOfValue(bo.X, 0)
				ky, oky := ctxKeyOfValue(bo.Y, 0)
				_, cx := bo.X.(*ssa.Const)
				_, cy := bo.Y.(*ssa.Const)
				// the size recorded in the header reaches the task through the context (an int64 entry)
				is64 := func(v ssa.Value) bool { return typeBits(v.Type()) == 64 }
				_, _ = kx, ky
				if (okx && !cy && is64(bo.X)) || (oky && !cx && is64(bo.Y)) {
					sizeIfs = append(sizeIfs, ifi)
				}
			}
		}
		for k, rm := range removes {
			nrem++
			key := fmt.Sprintf("%s#remove#%d", fname, k+1)
			// guarded by the user's remove flag
			guarded := false
			for _, b := range f.Blocks {
				if ifi := blockIf(b); ifi != nil {
					atom, pos := condAtom(ifi.Cond)
					if _, ok := ctxKeyOfValue(atom, 0); ok && isBool(atom.Type()) && edgeDominates(f, edge{b, succFor(pos, true)}, rm.Block()) {
						guarded = true
					}
				}
			}
			if !guarded {
				r.fail(key+"#flag", p.IPos(rm), "the source is removed on a path not guarded by the user's remove option")
			} else {
				r.ok(key+" only under ctx[\"remove\"] == true", p.IPos(rm))
			}
			// stream Close succeeded
			okClose := false
			for _, c := range closes {
				ifi, succ, ok := errEdgeOf(c)
				if ok && instrDominates(c, rm) && !reachesFromBlock(ifi.Block().Succs[succ], rm) {
					okClose = true
				}
			}
			if !okClose {
				r.fail(key+"#close", p.IPos(rm), "the source is removed on a path where the compressed stream's Close() has not been called and found error-free: at that moment the output may be incomplete (buffered blocks, end marker), so a kill or a late error leaves neither source nor a decodable output")
			} else {
				r.ok(key+" dominated by the success edge of the stream's Close()", p.IPos(rm))
			}
			// every write error prevents the removal
			okW := len(writes) > 0
			for _, w := range writes {
				ifi, succ, ok := errEdgeOf(w)
				if !ok || reachesFromBlock(ifi.Block().Succs[succ], rm) {
					okW = false
					r.fail(key+"#write-error", p.IPos(w), "a failed Write does not prevent the removal of the source")
				}
			}
			if okW {
				r.ok(fmt.Sprintf("%s unreachable from the error edge of each of the %d Write call(s)", key, len(writes)), p.IPos(rm))
			} else if len(writes) == 0 {
				// the copy loop may have been moved into a helper: the clause is then not decided on this tree
				isWrite := func(i ssa.Instruction) bool {
					c := callOf(i)
					if c == nil {
						return false
					}
					o := calleeObj(c)
					return o != nil && o.Name() == "Write" && o.Type().(*types.Signature).Recv() != nil
				}
				_, via := p.liftedSites(f, isWrite)
				reloc := false
				for _, vi := range via {
					if instrDominates(vi, rm) {
						reloc = true
					}
				}
				if reloc {
					r.info(key+": the copy loop (Write calls) lives in a helper called before the removal; the clause 'a failed write prevents the removal' is NOT DECIDED on this tree (relocated code)", p.IPos(rm))
				} else {
					r.fail(key+"#write-error", p.IPos(rm), "no Write call found in the function that removes the source")
				}
			}
			// a failed read of the source (other than end of input) prevents the removal: from the error edge of every
			// Read the removal is reachable only across an explicit end-of-file test
			eofCut := map[edge]bool{}
			for _, b := range f.Blocks {
				ifi := blockIf(b)
				if ifi == nil {
					continue
				}
				atom, pos := condAtom(ifi.Cond)
				if c, ok := atom.(*ssa.Call); ok && isPkgFunc(&c.Call, "errors", "Is") && len(c.Call.Args) == 2 {
					if u, ok := c.Call.Args[1].(*ssa.UnOp); ok {
						if g, ok := u.X.(*ssa.Global); ok && (g.Name() == "EOF" || g.Name() == "ErrUnexpectedEOF") {
							eofCut[edge{b, succFor(pos, true)}] = true
						}
					}
				}
				if bo, ok := atom.(*ssa.BinOp); ok && (bo.Op == token.EQL || bo.Op == token.NEQ) {
					for _, o := range []ssa.Value{bo.X, bo.Y} {
						if u, ok := o.(*ssa.UnOp); ok {
							if g, ok := u.X.(*ssa.Global); ok && (g.Name() == "EOF" || g.Name() == "ErrUnexpectedEOF") {
								eofCut[edge{b, succFor(pos, bo.Op == token.EQL)}] = true
							}
						}
					}
				}
			}
			nreads := 0
			eachInstr(f, func(i ssa.Instruction) {
				c, ok := i.(*ssa.Call)
				if !ok {
					return
				}
				o := calleeObj(&c.Call)
				isRead := false
				if o != nil && o.Name() == "Read" && o.Type().(*types.Signature).Recv() != nil && len(c.Call.Args) >= 1 {
					if tup, ok := c.Type().(*types.Tuple); ok && tup.Len() == 2 {
						isRead = true
					}
				}
				if isPkgFunc(&c.Call, "io", "ReadFull") || isPkgFunc(&c.Call, "io", "ReadAtLeast") {
					isRead = true
				}
				if !isRead {
					return
				}
				nreads++
				ifi, succ, ok := errEdgeOf(c)
				if !ok {
					r.fail(key+"#read-error", p.IPos(c), "the error of a read of the source is not tested")
					return
				}
				if reach(ifi.Block().Succs[succ], eofCut, nil)[rm.Block()] {
					r.fail(key+"#read-error", p.IPos(c), "after a failed read of the source the removal is still reachable without an end-of-file test: a real I/O error (EIO, stale handle ...) is taken for the end of the input, a truncated output is written, the tool exits 0 and the only complete copy is deleted")
				} else {
					r.ok(fmt.Sprintf("%s reachable from a read error only across an explicit end-of-file test", key), p.IPos(c))
				}
			})
			// output written through a buffered writer: a successful Flush must precede the removal
			if len(buffered) > 0 {
				okF := false
				for _, fc := range flushes {
					ifi, succ, ok := errEdgeOf(fc)
					if ok && instrDominates(fc, rm) && !reachesFromBlock(ifi.Block().Succs[succ], rm) {
						okF = true
					}
				}
				if okF {
					r.ok(key+" dominated by a successful Flush of the buffered output", p.IPos(rm))
				} else {
					r.fail(key+"#flush", p.IPos(rm), "the output is written through a bufio.Writer but the source is removed without a successful Flush before it: at that moment output bytes are still only in memory, so a kill (or a failing final write) loses both source and output")
				}
			}
			// decompression: size check
			if strings.Contains(strings.ToLower(fname), "decompress") {
				okS := false
				for _, ifi := range sizeIfs {
					atom, pos := condAtom(ifi.Cond)
					bo := atom.(*ssa.BinOp)
					mism := ifi.Block().Succs[succFor(pos, bo.Op == token.NEQ)]
					if !reachesFromBlock(mism, rm) && reach(ifi.Block(), nil, nil)[rm.Block()] {
						okS = true
					}
				}
				if okS {
					r.ok(key+" unreachable from the output-size mismatch edge", p.IPos(rm))
				} else {
					r.fail(key+"#size-check", p.IPos(rm), "the decompressed size is not compared with the size recorded in the header before the source is removed (or a mismatch does not prevent the removal)")
				}
			}
		}
	}
	r.floor(2, nrem, "os.Remove sites in app")
}

var _ = constant.MakeInt64

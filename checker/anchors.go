package main

import (
	"go/types"
	"strings"

	"golang.org/x/tools/go/ssa"
)

// ---------------------------------------------------------------------------------------
// Structural anchors: when an unexported function the rules anchor in has been renamed, it is found again by what it
// does (exported API names - Writer, Reader, Read, Write, Close, the bitstream types - are stable by contract).
// Exactly one candidate must match; otherwise the anchor stays unresolved (undecided, never an alarm).
// ---------------------------------------------------------------------------------------

func (p *Prog) structuralAnchor(rel, typ, name string) *ssa.Function {
	key := rel + "." + typ + "." + name
	if p.anchorMemo == nil {
		p.anchorMemo = map[string]*ssa.Function{}
	}
	if f, ok := p.anchorMemo[key]; ok {
		return f
	}
	p.anchorMemo[key] = nil
	pred := anchorPredicates[key]
	if pred == nil {
		return nil
	}
	var cands []*ssa.Function
	for _, f := range p.ModFns {
		if f.Parent() != nil || p.Rel(f) != rel || f.Blocks == nil {
			continue
		}
		recv := ""
		if f.Signature.Recv() != nil {
			if n := namedOf(f.Signature.Recv().Type()); n != nil {
				recv = n.Obj().Name()
			}
		}
		if recv != typ {
			continue
		}
		if f.Object() != nil && f.Object().Exported() {
			continue // exported functions keep their names; only unexported helpers are searched for
		}
		if pred(p, f) {
			cands = append(cands, f)
		}
	}
	if len(cands) == 1 {
		p.anchorMemo[key] = cands[0]
		return cands[0]
	}
	return nil
}

func countCalls(f *ssa.Function, pred func(*ssa.CallCommon) bool) int {
	n := 0
	eachInstr(f, func(i ssa.Instruction) {
		if c := callOf(i); c != nil && pred(c) {
			n++
		}
	})
	return n
}

func hasGo(f *ssa.Function) bool {
	found := false
	eachInstr(f, func(i ssa.Instruction) {
		if _, ok := i.(*ssa.Go); ok {
			found = true
		}
	})
	return found
}

func invokes(name string) func(*ssa.CallCommon) bool {
	return func(c *ssa.CallCommon) bool { return c.IsInvoke() && c.Method.Name() == name }
}

func callsPkgFunc(f *ssa.Function, path, name string) bool {
	return countCalls(f, func(c *ssa.CallCommon) bool { return isPkgFunc(c, path, name) }) > 0
}

func resultNamed(f *ssa.Function, idx int, typeName string) bool {
	rs := f.Signature.Results()
	if idx >= rs.Len() {
		return false
	}
	n := namedOf(rs.At(idx).Type())
	return n != nil && n.Obj().Name() == typeName
}

var anchorPredicates = map[string]func(p *Prog, f *ssa.Function) bool{
	"io.Writer.processBlock": func(p *Prog, f *ssa.Function) bool { return hasGo(f) },
	"io.Reader.processBlock": func(p *Prog, f *ssa.Function) bool { return hasGo(f) },
	"io.Writer.writeHeader": func(p *Prog, f *ssa.Function) bool {
		return !hasGo(f) && countCalls(f, invokes("WriteBits")) >= 5
	},
	"io.Reader.readHeader": func(p *Prog, f *ssa.Function) bool {
		return !hasGo(f) && countCalls(f, invokes("ReadBits")) >= 5
	},
	"io.Reader.validateHeaderless": func(p *Prog, f *ssa.Function) bool {
		return callsPkgFunc(f, p.ModPath+"/entropy", "GetType") && callsPkgFunc(f, p.ModPath+"/transform", "GetType")
	},
	"io..createWriterWithCtx": func(p *Prog, f *ssa.Function) bool {
		return resultNamed(f, 0, "Writer") && callsPkgFunc(f, p.ModPath+"/entropy", "GetType")
	},
	"io..createReaderWithCtx": func(p *Prog, f *ssa.Function) bool {
		if !resultNamed(f, 0, "Reader") || f.Signature.Params().Len() == 0 {
			return false
		}
		n := namedOf(f.Signature.Params().At(0).Type())
		return n != nil && n.Obj().Name() == "InputBitStream"
	},
	"app..openOutputFile": func(p *Prog, f *ssa.Function) bool {
		return callsPkgFunc(f, "os", "OpenFile") && resultNamed(f, 0, "File")
	},
	"app..runWithRecovery": func(p *Prog, f *ssa.Function) bool {
		if len(recoveringDefers(f)) == 0 {
			return false
		}
		ps := f.Signature.Params()
		for i := 0; i < ps.Len(); i++ {
			if _, ok := ps.At(i).Type().Underlying().(*types.Signature); ok {
				return true
			}
		}
		return false
	},
	"app..getTransformAndCodec": func(p *Prog, f *ssa.Function) bool {
		return sigIntToStrOnly(f.Signature) && extractSwitch(f) != nil && len(extractSwitch(f).cases) >= 8
	},
	"transform..newToken": func(p *Prog, f *ssa.Function) bool {
		if !resultNamed(f, 0, "ByteTransform") {
			return false
		}
		t := extractSwitch(f)
		return t != nil && len(t.cases) >= 10
	},
	"bitstream.DefaultInputBitStream.readFromInputStream": func(p *Prog, f *ssa.Function) bool {
		rs := f.Signature.Results()
		if rs.Len() != 2 || !isErrType(rs.At(1).Type()) {
			return false
		}
		if b, ok := rs.At(0).Type().Underlying().(*types.Basic); !ok || b.Info()&types.IsInteger == 0 {
			return false
		}
		// reads the underlying source itself or through a helper
		reads := func(g *ssa.Function) bool {
			return countCalls(g, func(c *ssa.CallCommon) bool {
				return (c.IsInvoke() && c.Method.Name() == "Read" && len(c.Args) == 1) || isPkgFunc(c, "io", "ReadFull") || isPkgFunc(c, "io", "ReadAtLeast")
			}) > 0
		}
		if reads(f) {
			return true
		}
		for _, h := range p.helperClosure(f) {
			if reads(h) {
				// the helper itself also matches the shape: prefer the outer function (the one callers use)
				return true
			}
		}
		return false
	},
	"bitstream.DefaultInputBitStream.pull": func(p *Prog, f *ssa.Function) bool {
		rs := f.Signature.Results()
		return rs.Len() == 2 && typeBits(rs.At(0).Type()) == 64 && f.Signature.Params().Len() == 0 && !strings.HasPrefix(f.Name(), "Read")
	},
	"bitstream.DefaultOutputBitStream.flush": func(p *Prog, f *ssa.Function) bool {
		return countCalls(f, invokes("Write")) > 0 && f.Signature.Results().Len() == 1 && isErrType(f.Signature.Results().At(0).Type()) && f.Signature.Params().Len() == 0
	},
}

func sigIntToStrOnly(s *types.Signature) bool {
	if s.Params().Len() != 1 || s.Results().Len() != 1 {
		return false
	}
	b, ok := s.Params().At(0).Type().Underlying().(*types.Basic)
	if !ok || b.Info()&types.IsInteger == 0 {
		return false
	}
	r, ok := s.Results().At(0).Type().Underlying().(*types.Basic)
	return ok && r.Kind() == types.String
}

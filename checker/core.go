package main

import (
	"fmt"
	"go/token"
	"go/types"
	"os"
	"path/filepath"
	"sort"
	"strconv"
	"strings"

	"golang.org/x/tools/go/callgraph"
	"golang.org/x/tools/go/callgraph/cha"
	"golang.org/x/tools/go/callgraph/vta"
	"golang.org/x/tools/go/packages"
	"golang.org/x/tools/go/ssa"
	"golang.org/x/tools/go/ssa/ssautil"
)

// Prog is one loaded, type-checked, SSA-built module tree (the kanzi module or a fixture).
type Prog struct {
	Root    string // directory holding go.mod
	ModPath string
	Fset    *token.FileSet
	Pkgs    []*packages.Package // module packages only
	SSA     *ssa.Program
	ByRel   map[string]*ssa.Package // "" (root), "io", "transform", ...
	All     map[*ssa.Function]bool  // every function (incl. std, closures)
	ModFns  []*ssa.Function         // functions of module packages (incl. anonymous), sorted by position
	anchorMemo map[string]*ssa.Function
	cgVTA   *callgraph.Graph
	cgCHA   *callgraph.Graph
	Tests   bool
}

// Undecided is raised (panic) when the checker cannot vouch (exit 2, never a VIOLATION).
type Undecided struct{ Msg string }

func undecided(format string, a ...any) {
	panic(Undecided{fmt.Sprintf(format, a...)})
}

func readModPath(root string) string {
	b, err := os.ReadFile(filepath.Join(root, "go.mod"))
	if err != nil {
		undecided("cannot read go.mod in %s: %v", root, err)
	}
	for _, l := range strings.Split(string(b), "\n") {
		l = strings.TrimSpace(l)
		if strings.HasPrefix(l, "module ") {
			return strings.TrimSpace(strings.TrimPrefix(l, "module "))
		}
	}
	undecided("no module line in %s/go.mod", root)
	return ""
}

// Load loads every package of the module rooted at root. Any load or type error is "undecided".
func Load(root string, tests bool) *Prog {
	p := &Prog{Root: root, ModPath: readModPath(root), Tests: tests}
	env := append(os.Environ(), "PATH=/opt/veriftools/go1.26.8/bin:"+os.Getenv("PATH"), "GOWORK=off", "GOFLAGS=-mod=mod", "GOPROXY=off", "GOSUMDB=off", "GOTOOLCHAIN=local", "CGO_ENABLED=0")
	cfg := &packages.Config{
		Mode:  packages.LoadAllSyntax,
		Dir:   root,
		Tests: tests,
		Env:   env,
	}
	p.Fset = token.NewFileSet()
	cfg.Fset = p.Fset
	pkgs, err := packages.Load(cfg, "./...")
	if err != nil {
		undecided("packages.Load(%s): %v", root, err)
	}
	if len(pkgs) == 0 {
		undecided("no packages loaded from %s", root)
	}
	nerr := 0
	packages.Visit(pkgs, nil, func(pk *packages.Package) {
		for _, e := range pk.Errors {
			fmt.Fprintf(os.Stderr, "load error: %v\n", e)
			nerr++
		}
	})
	if nerr > 0 {
		undecided("%d load/type errors in %s: cannot vouch", nerr, root)
	}
	prog, spkgs := ssautil.AllPackages(pkgs, ssa.InstantiateGenerics)
	prog.Build()
	p.SSA = prog
	p.ByRel = map[string]*ssa.Package{}
	for i, pk := range pkgs {
		if spkgs[i] == nil {
			continue
		}
		path := pk.PkgPath
		if strings.HasSuffix(pk.ID, ".test") || strings.Contains(pk.ID, " [") || strings.HasSuffix(path, "_test") {
			// test variants are only loaded in thorough tier to check anchors are not shadowed
			continue
		}
		if path == p.ModPath {
			p.ByRel[""] = spkgs[i]
		} else if strings.HasPrefix(path, p.ModPath+"/") {
			p.ByRel[strings.TrimPrefix(path, p.ModPath+"/")] = spkgs[i]
		} else {
			continue
		}
		p.Pkgs = append(p.Pkgs, pk)
	}
	if len(p.ByRel) == 0 {
		undecided("no module packages found under %s", root)
	}
	p.All = ssautil.AllFunctions(prog)
	for f := range p.All {
		if p.InModule(f) && f.Blocks != nil {
			p.ModFns = append(p.ModFns, f)
		}
	}
	sort.Slice(p.ModFns, func(i, j int) bool {
		a, b := p.ModFns[i], p.ModFns[j]
		pa, pb := p.Fset.Position(a.Pos()), p.Fset.Position(b.Pos())
		if pa.Filename != pb.Filename {
			return pa.Filename < pb.Filename
		}
		if pa.Line != pb.Line {
			return pa.Line < pb.Line
		}
		return a.String() < b.String()
	})
	p.canonicaliseComparisons()
	p.computeForwarders()
	return p
}

// canonicaliseComparisons puts the constant operand of every comparison (and of every commutative arithmetic
// operation) of the module's functions on the right: `1 == x` becomes `x == 1`, `0 < n` becomes `n > 0`. The rules then
// need to know one spelling only. Operands are only swapped within the instruction, so referrer lists stay valid.
func (p *Prog) canonicaliseComparisons() {
	for _, f := range p.ModFns {
		eachInstr(f, func(i ssa.Instruction) {
			bo, ok := i.(*ssa.BinOp)
			if !ok {
				return
			}
			if _, xc := bo.X.(*ssa.Const); !xc {
				return
			}
			if _, yc := bo.Y.(*ssa.Const); yc {
				return
			}
			switch bo.Op {
			case token.EQL, token.NEQ, token.ADD, token.MUL, token.AND, token.OR, token.XOR:
				bo.X, bo.Y = bo.Y, bo.X
			case token.LSS:
				bo.X, bo.Y, bo.Op = bo.Y, bo.X, token.GTR
			case token.GTR:
				bo.X, bo.Y, bo.Op = bo.Y, bo.X, token.LSS
			case token.LEQ:
				bo.X, bo.Y, bo.Op = bo.Y, bo.X, token.GEQ
			case token.GEQ:
				bo.X, bo.Y, bo.Op = bo.Y, bo.X, token.LEQ
			}
		})
	}
}

// Thin forwarders: a function or method whose whole body is one call to a standard-library function with its own
// parameters, in order, and a return of that call's results (a file-system seam such as `func (osFS) Remove(n string)
// error { return os.Remove(n) }`). A call that can only reach forwarders of one standard-library function is treated
// as a call of that function by isPkgFunc; the forwarder itself is not a call site of interest.
var fwdTarget = map[*ssa.CallCommon]*types.Func{}
var forwarderFns = map[*ssa.Function]*types.Func{}

func forwarderOf(f *ssa.Function) *types.Func {
	if len(f.Blocks) != 1 {
		return nil
	}
	var call *ssa.Call
	for _, in := range f.Blocks[0].Instrs {
		switch x := in.(type) {
		case *ssa.Call:
			if call != nil {
				return nil
			}
			call = x
		case *ssa.Return, *ssa.Extract, *ssa.DebugRef:
		default:
			return nil
		}
	}
	if call == nil || call.Call.IsInvoke() {
		return nil
	}
	o := calleeObj(&call.Call)
	if o == nil || o.Pkg() == nil || strings.Contains(o.Pkg().Path(), ".") || o.Type().(*types.Signature).Recv() != nil {
		return nil
	}
	params := f.Params
	if f.Signature.Recv() != nil && len(params) > 0 {
		params = params[1:]
	}
	if len(params) != len(call.Call.Args) {
		return nil
	}
	for i, a := range call.Call.Args {
		if a != ssa.Value(params[i]) {
			return nil
		}
	}
	return o
}

func (p *Prog) computeForwarders() {
	any := false
	for _, f := range p.ModFns {
		if o := forwarderOf(f); o != nil {
			forwarderFns[f] = o
			any = true
		}
	}
	if !any {
		return
	}
	// synthetic wrappers ((*T).M for a value-receiver method, bound-method thunks) of a forwarder are forwarders
	for _, f := range p.ModFns {
		if forwarderFns[f] != nil || f.Synthetic == "" {
			continue
		}
		var tgt *types.Func
		ncall := 0
		eachInstr(f, func(in ssa.Instruction) {
			if c, ok := in.(*ssa.Call); ok {
				if _, isB := c.Call.Value.(*ssa.Builtin); isB {
					return
				}
				ncall++
				if sc := c.Call.StaticCallee(); sc != nil {
					tgt = forwarderFns[sc]
				}
			}
		})
		if ncall == 1 && tgt != nil {
			forwarderFns[f] = tgt
		}
	}
	for _, f := range p.ModFns {
		if forwarderFns[f] != nil {
			continue
		}
		eachInstr(f, func(i ssa.Instruction) {
			site, ok := i.(ssa.CallInstruction)
			if !ok {
				return
			}
			cs := p.Callees(site)
			if len(cs) == 0 {
				return
			}
			var tgt *types.Func
			for _, c := range cs {
				o := forwarderFns[c]
				if o == nil || (tgt != nil && o != tgt) {
					return
				}
				tgt = o
			}
			fwdTarget[site.Common()] = tgt
		})
	}
}

func (p *Prog) isForwarder(f *ssa.Function) bool {
	for g := f; g != nil; g = g.Parent() {
		if forwarderFns[g] != nil {
			return true
		}
	}
	return false
}

// FnPkg returns the ssa package a function (or its outermost parent) belongs to.
func FnPkg(f *ssa.Function) *ssa.Package {
	for f.Parent() != nil {
		f = f.Parent()
	}
	if f.Pkg != nil {
		return f.Pkg
	}
	if o := f.Origin(); o != nil && o.Pkg != nil {
		return o.Pkg
	}
	return nil
}

func (p *Prog) InModule(f *ssa.Function) bool {
	pk := FnPkg(f)
	if pk == nil {
		// synthetic wrappers/bounds: decide by receiver/object package
		if f.Object() != nil && f.Object().Pkg() != nil {
			return p.isModPath(f.Object().Pkg().Path())
		}
		return false
	}
	return p.isModPath(pk.Pkg.Path())
}

func (p *Prog) isModPath(path string) bool {
	return path == p.ModPath || strings.HasPrefix(path, p.ModPath+"/")
}

// Rel returns the module-relative package directory of f ("io", "transform", "" for root, "?" outside).
func (p *Prog) Rel(f *ssa.Function) string {
	pk := FnPkg(f)
	var path string
	if pk != nil {
		path = pk.Pkg.Path()
	} else if f.Object() != nil && f.Object().Pkg() != nil {
		path = f.Object().Pkg().Path()
	}
	if path == p.ModPath {
		return ""
	}
	if strings.HasPrefix(path, p.ModPath+"/") {
		return strings.TrimPrefix(path, p.ModPath+"/")
	}
	return "?"
}

func (p *Prog) Pkg(rel string) *ssa.Package {
	pk := p.ByRel[rel]
	if pk == nil {
		undecided("anchor unresolved: package %q not in module %s", rel, p.ModPath)
	}
	return pk
}

// Func resolves a package-level function; nil if absent.
func (p *Prog) FuncOpt(rel, name string) *ssa.Function {
	pk := p.ByRel[rel]
	if pk == nil {
		return nil
	}
	if f := pk.Func(name); f != nil {
		return f
	}
	return p.structuralAnchor(rel, "", name)
}

func (p *Prog) Func(rel, name string) *ssa.Function {
	f := p.FuncOpt(rel, name)
	if f == nil {
		undecided("anchor unresolved: func %s.%s", rel, name)
	}
	return f
}

// MethodOpt resolves (*T).name or T.name declared in package rel.
func (p *Prog) MethodOpt(rel, typ, name string) *ssa.Function {
	if f := p.methodByName(rel, typ, name); f != nil {
		return f
	}
	return p.structuralAnchor(rel, typ, name)
}

func (p *Prog) methodByName(rel, typ, name string) *ssa.Function {
	pk := p.ByRel[rel]
	if pk == nil {
		return nil
	}
	t := pk.Type(typ)
	if t == nil {
		return nil
	}
	for _, T := range []types.Type{types.NewPointer(t.Type()), t.Type()} {
		ms := p.SSA.MethodSets.MethodSet(T)
		for i := 0; i < ms.Len(); i++ {
			sel := ms.At(i)
			if sel.Obj().Name() == name {
				f := p.SSA.MethodValue(sel)
				if f != nil && f.Synthetic != "" && strings.Contains(f.Synthetic, "wrapper") {
					// use the declared method, not the pointer wrapper
					if fn, ok := sel.Obj().(*types.Func); ok {
						if d := p.SSA.FuncValue(fn); d != nil {
							return d
						}
					}
				}
				return f
			}
		}
	}
	return nil
}

func (p *Prog) Method(rel, typ, name string) *ssa.Function {
	f := p.MethodOpt(rel, typ, name)
	if f == nil || f.Blocks == nil {
		undecided("anchor unresolved: method %s.%s.%s", rel, typ, name)
	}
	return f
}

func (p *Prog) Pos(pos token.Pos) string {
	if !pos.IsValid() {
		return "-"
	}
	ps := p.Fset.Position(pos)
	rel, err := filepath.Rel(p.Root, ps.Filename)
	if err != nil || strings.HasPrefix(rel, "..") {
		rel = ps.Filename
	}
	return fmt.Sprintf("%s:%d", rel, ps.Line)
}

// InstrPos gives the best source position for an instruction.
func (p *Prog) IPos(i ssa.Instruction) string {
	pos := i.Pos()
	if !pos.IsValid() {
		if v, ok := i.(ssa.Value); ok {
			_ = v
		}
		// fall back to any operand position or the block's first positioned instruction
		for _, op := range i.Operands(nil) {
			if *op != nil && (*op).Pos().IsValid() {
				pos = (*op).Pos()
				break
			}
		}
	}
	if !pos.IsValid() && i.Block() != nil {
		for _, j := range i.Block().Instrs {
			if j.Pos().IsValid() {
				pos = j.Pos()
				break
			}
		}
	}
	if !pos.IsValid() && i.Parent() != nil {
		pos = i.Parent().Pos()
	}
	return p.Pos(pos)
}

// FnName is a stable printable name: pkgrel.(T).m or pkgrel.f, closures as parent$N.
func (p *Prog) FnName(f *ssa.Function) string {
	s := f.String()
	s = strings.ReplaceAll(s, p.ModPath+"/", "")
	s = strings.ReplaceAll(s, p.ModPath+".", "kanzi.")
	s = strings.ReplaceAll(s, p.ModPath, "kanzi")
	return s
}

func (p *Prog) VTA() *callgraph.Graph {
	if p.cgVTA == nil {
		p.cgVTA = vta.CallGraph(p.All, cha.CallGraph(p.SSA))
	}
	return p.cgVTA
}

func (p *Prog) CHA() *callgraph.Graph {
	if p.cgCHA == nil {
		p.cgCHA = cha.CallGraph(p.SSA)
	}
	return p.cgCHA
}

// Callees resolves the possible callees of a call instruction (static, closure or via VTA).
func (p *Prog) Callees(site ssa.CallInstruction) []*ssa.Function {
	c := site.Common()
	if f := c.StaticCallee(); f != nil {
		return []*ssa.Function{f}
	}
	n := p.VTA().Nodes[site.Parent()]
	var out []*ssa.Function
	if n != nil {
		for _, e := range n.Out {
			if e.Site == site && e.Callee != nil && e.Callee.Func != nil {
				out = append(out, e.Callee.Func)
			}
		}
	}
	sort.Slice(out, func(i, j int) bool { return out[i].String() < out[j].String() })
	return out
}

// Reachable returns the set of functions reachable from roots over the VTA graph.
// stop(fn) == true prevents descending into fn (fn itself is still included).
func (p *Prog) Reachable(roots []*ssa.Function, stop func(*ssa.Function) bool) map[*ssa.Function]bool {
	seen := map[*ssa.Function]bool{}
	var work []*ssa.Function
	for _, r := range roots {
		if r != nil && !seen[r] {
			seen[r] = true
			work = append(work, r)
		}
	}
	g := p.VTA()
	for len(work) > 0 {
		f := work[len(work)-1]
		work = work[:len(work)-1]
		if stop != nil && stop(f) {
			continue
		}
		n := g.Nodes[f]
		if n != nil {
			for _, e := range n.Out {
				c := e.Callee.Func
				if c != nil && !seen[c] {
					seen[c] = true
					work = append(work, c)
				}
			}
		}
		// closures created here are considered reachable too (they may be called later through values)
		for _, an := range f.AnonFuncs {
			if !seen[an] {
				seen[an] = true
				work = append(work, an)
			}
		}
	}
	return seen
}

// ---------- small SSA helpers ----------

func eachInstr(f *ssa.Function, fn func(ssa.Instruction)) {
	for _, b := range f.Blocks {
		for _, i := range b.Instrs {
			fn(i)
		}
	}
}

// calleeObj returns the *types.Func called (static function/method, or interface method for invoke).
func calleeObj(c *ssa.CallCommon) *types.Func {
	if c.IsInvoke() {
		return c.Method
	}
	if f := c.StaticCallee(); f != nil {
		if o, ok := f.Object().(*types.Func); ok {
			return o
		}
		if f.Origin() != nil {
			if o, ok := f.Origin().Object().(*types.Func); ok {
				return o
			}
		}
	}
	return nil
}

// isPkgFunc: call to package-level function pkgPath.name
func isPkgFunc(c *ssa.CallCommon, pkgPath, name string) bool {
	o := calleeObj(c)
	if t := fwdTarget[c]; t != nil {
		o = t
	}
	if o == nil || o.Pkg() == nil {
		return false
	}
	if o.Pkg().Path() != pkgPath || o.Name() != name {
		return false
	}
	sig := o.Type().(*types.Signature)
	return sig.Recv() == nil
}

// isMethodNamed: call (static or invoke) to a method with that name whose receiver's named type
// is pkgPath.typeName (typeName "" = any type in pkgPath; pkgPath "" = any).
func isMethodNamed(c *ssa.CallCommon, pkgPath, typeName, name string) bool {
	o := calleeObj(c)
	if o == nil || o.Name() != name {
		return false
	}
	sig, _ := o.Type().(*types.Signature)
	if sig == nil || sig.Recv() == nil {
		return false
	}
	t := sig.Recv().Type()
	if pt, ok := t.(*types.Pointer); ok {
		t = pt.Elem()
	}
	nt, ok := t.(*types.Named)
	if !ok {
		return pkgPath == "" && typeName == ""
	}
	if typeName != "" && nt.Obj().Name() != typeName {
		return false
	}
	if pkgPath != "" && (nt.Obj().Pkg() == nil || nt.Obj().Pkg().Path() != pkgPath) {
		return false
	}
	return true
}

func derefType(t types.Type) types.Type {
	if pt, ok := t.Underlying().(*types.Pointer); ok {
		return pt.Elem()
	}
	return t
}

func namedOf(t types.Type) *types.Named {
	t = derefType(t)
	if n, ok := t.(*types.Named); ok {
		return n
	}
	if a, ok := t.(*types.Alias); ok {
		if n, ok := types.Unalias(a).(*types.Named); ok {
			return n
		}
	}
	return nil
}

// fieldOf: if v is a FieldAddr or Field, returns (struct named type name, field name, base value).
func fieldOf(v ssa.Value) (string, string, ssa.Value, bool) {
	switch x := v.(type) {
	case *ssa.FieldAddr:
		st := derefType(x.X.Type())
		s, ok := st.Underlying().(*types.Struct)
		if !ok {
			return "", "", nil, false
		}
		n := ""
		if nt := namedOf(st); nt != nil {
			n = nt.Obj().Name()
		}
		return n, s.Field(x.Field).Name(), x.X, true
	case *ssa.Field:
		st := x.X.Type()
		s, ok := st.Underlying().(*types.Struct)
		if !ok {
			return "", "", nil, false
		}
		n := ""
		if nt := namedOf(st); nt != nil {
			n = nt.Obj().Name()
		}
		return n, s.Field(x.Field).Name(), x.X, true
	}
	return "", "", nil, false
}

// loadOfField: v == *(&X.field) ; returns struct type name, field name.
func loadOfField(v ssa.Value) (string, string, ssa.Value, bool) {
	u, ok := v.(*ssa.UnOp)
	if !ok || u.Op != token.MUL {
		return "", "", nil, false
	}
	return fieldOf(u.X)
}

func isLoadOfFieldNamed(v ssa.Value, typ, field string) bool {
	t, f, _, ok := loadOfField(v)
	return ok && f == field && (typ == "" || t == typ)
}

func isNilConst(v ssa.Value) bool {
	c, ok := v.(*ssa.Const)
	return ok && c.Value == nil && c.IsNil()
}

func constInt(v ssa.Value) (int64, bool) {
	c, ok := v.(*ssa.Const)
	if !ok || c.Value == nil {
		return 0, false
	}
	if b, ok := c.Type().Underlying().(*types.Basic); ok && b.Info()&types.IsInteger != 0 {
		return c.Int64(), true
	}
	return 0, false
}

// stripConv removes ChangeType/Convert/ChangeInterface/MakeInterface wrappers.
func stripConv(v ssa.Value) ssa.Value {
	for {
		switch x := v.(type) {
		case *ssa.ChangeType:
			v = x.X
		case *ssa.Convert:
			v = x.X
		case *ssa.ChangeInterface:
			v = x.X
		case *ssa.MakeInterface:
			v = x.X
		default:
			return v
		}
	}
}

// ---------- CFG helpers ----------

type edge struct {
	from *ssa.BasicBlock
	succ int
}

// reach computes blocks reachable from start without traversing any edge in cut and
// without entering any block in avoid.
func reach(start *ssa.BasicBlock, cut map[edge]bool, avoid map[*ssa.BasicBlock]bool) map[*ssa.BasicBlock]bool {
	seen := map[*ssa.BasicBlock]bool{}
	if avoid[start] {
		return seen
	}
	seen[start] = true
	work := []*ssa.BasicBlock{start}
	for len(work) > 0 {
		b := work[len(work)-1]
		work = work[:len(work)-1]
		for i, s := range b.Succs {
			if cut[edge{b, i}] || avoid[s] || seen[s] {
				continue
			}
			seen[s] = true
			work = append(work, s)
		}
	}
	return seen
}

// edgeDominates: every path from entry to target crosses the edge (from -> from.Succs[succ]).
func edgeDominates(f *ssa.Function, e edge, target *ssa.BasicBlock) bool {
	if len(f.Blocks) == 0 {
		return false
	}
	r := reach(f.Blocks[0], map[edge]bool{e: true}, nil)
	return !r[target]
}

// instrIndex of i in its block.
func instrIndex(i ssa.Instruction) int {
	for k, j := range i.Block().Instrs {
		if j == i {
			return k
		}
	}
	return -1
}

// instrDominates: a is executed before b on every path reaching b.
func instrDominates(a, b ssa.Instruction) bool {
	if a.Block() == b.Block() {
		return instrIndex(a) < instrIndex(b)
	}
	return a.Block().Dominates(b.Block())
}

// instrReaches: there is a CFG path from (after) a to b.
func instrReaches(a, b ssa.Instruction) bool {
	if a.Block() == b.Block() && instrIndex(a) < instrIndex(b) {
		return true
	}
	// paths leaving a's block
	seen := map[*ssa.BasicBlock]bool{}
	work := append([]*ssa.BasicBlock{}, a.Block().Succs...)
	for len(work) > 0 {
		x := work[len(work)-1]
		work = work[:len(work)-1]
		if seen[x] {
			continue
		}
		seen[x] = true
		if x == b.Block() {
			return true
		}
		work = append(work, x.Succs...)
	}
	return false
}

// pathAvoiding: is there a path from entry of `from` block (start of block) to instruction `to`
// that executes none of the instructions in avoid?
func pathAvoiding(fromBlock *ssa.BasicBlock, fromIdx int, to ssa.Instruction, avoid map[ssa.Instruction]bool) bool {
	type st struct {
		b   *ssa.BasicBlock
		idx int
	}
	seen := map[*ssa.BasicBlock]bool{}
	work := []st{{fromBlock, fromIdx}}
	first := true
	for len(work) > 0 {
		s := work[len(work)-1]
		work = work[:len(work)-1]
		if !first || s.idx == 0 {
			if seen[s.b] {
				continue
			}
			seen[s.b] = true
		}
		first = false
		blocked := false
		for k := s.idx; k < len(s.b.Instrs); k++ {
			in := s.b.Instrs[k]
			if in == to {
				return true
			}
			if avoid[in] {
				blocked = true
				break
			}
		}
		if blocked {
			continue
		}
		for _, nx := range s.b.Succs {
			work = append(work, st{nx, 0})
		}
	}
	return false
}

// condAtom normalises a branch condition: strips !x, x==true, x==false, x!=true, x!=false.
// Returns the underlying atom and whether the If's true edge corresponds to atom being true.
func condAtom(v ssa.Value) (ssa.Value, bool) {
	pos := true
	for {
		switch x := v.(type) {
		case *ssa.UnOp:
			if x.Op == token.NOT {
				pos = !pos
				v = x.X
				continue
			}
		case *ssa.BinOp:
			if x.Op == token.EQL || x.Op == token.NEQ {
				if c, ok := x.Y.(*ssa.Const); ok && c.Value != nil && isBool(c.Type()) {
					bv := c.Value.String() == "true"
					if (x.Op == token.EQL) != bv {
						pos = !pos
					}
					v = x.X
					continue
				}
				if c, ok := x.X.(*ssa.Const); ok && c.Value != nil && isBool(c.Type()) {
					bv := c.Value.String() == "true"
					if (x.Op == token.EQL) != bv {
						pos = !pos
					}
					v = x.Y
					continue
				}
			}
		}
		return v, pos
	}
}

func isBool(t types.Type) bool {
	b, ok := t.Underlying().(*types.Basic)
	return ok && b.Info()&types.IsBoolean != 0
}

// blockIf returns the If terminating b, or nil.
func blockIf(b *ssa.BasicBlock) *ssa.If {
	if len(b.Instrs) == 0 {
		return nil
	}
	i, _ := b.Instrs[len(b.Instrs)-1].(*ssa.If)
	return i
}

// succFor returns the successor index taken when the atom evaluates to `want`.
func succFor(pos bool, want bool) int {
	if pos == want {
		return 0
	}
	return 1
}

// isErrNonNilTest recognises `x != nil` / `x == nil` on value x. Returns x and the succ index taken when x != nil.
func nilTest(cond ssa.Value) (ssa.Value, int, bool) {
	atom, pos := condAtom(cond)
	b, ok := atom.(*ssa.BinOp)
	if !ok || (b.Op != token.EQL && b.Op != token.NEQ) {
		return nil, 0, false
	}
	var x ssa.Value
	if isNilConst(b.Y) {
		x = b.X
	} else if isNilConst(b.X) {
		x = b.Y
	} else {
		return nil, 0, false
	}
	nonNilWhenTrue := b.Op == token.NEQ
	// atom true <=> (x != nil) if NEQ
	return x, succFor(pos, nonNilWhenTrue), true
}

func sortedKeys[M ~map[string]V, V any](m M) []string {
	ks := make([]string, 0, len(m))
	for k := range m {
		ks = append(ks, k)
	}
	sort.Strings(ks)
	return ks
}

func unquote(s string) (string, error) { return strconv.Unquote(s) }

// rvals returns the operands of a return with go/ssa's result spilling undone: when a function has defers (or named
// results) a `return a, b` is lowered to `*r0 = a; *r1 = b; rundefers; return *r0, *r1` in the same block; the rules
// want to see a and b.
func rvals(ret *ssa.Return) []ssa.Value {
	out := make([]ssa.Value, len(ret.Results))
	for i, v := range ret.Results {
		out[i] = v
		u, ok := v.(*ssa.UnOp)
		if !ok || u.Op != token.MUL {
			continue
		}
		al, ok := u.X.(*ssa.Alloc)
		if !ok {
			continue
		}
		for _, in := range ret.Block().Instrs {
			if in == ssa.Instruction(u) {
				break
			}
			if st, ok := in.(*ssa.Store); ok && st.Addr == ssa.Value(al) {
				out[i] = st.Val
			}
		}
	}
	return out
}

// feasibleBlocks: the blocks of f reachable from the entry when branches whose outcome is already decided by a
// dominating test of the same SSA value are followed only in the decided direction (`if !isX { continue }` followed
// by `if isX {..} else {dead}`). The value is an SSA value, so it is the same instance at both tests whenever the
// first test's edge lies on every path to the second.
func feasibleBlocks(f *ssa.Function) map[*ssa.BasicBlock]bool {
	if len(f.Blocks) == 0 {
		return nil
	}
	type tst struct {
		b    *ssa.BasicBlock
		atom ssa.Value
		pos  bool
	}
	byAtom := map[ssa.Value][]tst{}
	for _, b := range f.Blocks {
		if ifi := blockIf(b); ifi != nil {
			atom, pos := condAtom(ifi.Cond)
			if _, isConst := atom.(*ssa.Const); isConst {
				continue
			}
			byAtom[atom] = append(byAtom[atom], tst{b, atom, pos})
		}
	}
	cut := map[edge]bool{}
	for _, ts := range byAtom {
		if len(ts) < 2 {
			continue
		}
		for _, d := range ts {
			for _, b := range ts {
				if d.b == b.b || !d.b.Dominates(b.b) {
					continue
				}
				for k := 0; k < 2; k++ {
					if d.b.Succs[0] == d.b.Succs[1] {
						continue
					}
					if !edgeDominates(f, edge{d.b, k}, b.b) {
						continue
					}
					atomTrue := (k == 0) == d.pos // truth of the atom on edge k of d
					// at b the atom has that truth: the successor taken is succFor(b.pos, atomTrue); the other is dead
					cut[edge{b.b, 1 - succFor(b.pos, atomTrue)}] = true
				}
			}
		}
	}
	return reach(f.Blocks[0], cut, nil)
}

package main

// Affine-equality abstract domain (Karr 1976, in the generator form of Müller-Olm/Seidl 2004):
// an abstract state is an affine subspace of Q^n, kept as one point and a list of linearly independent
// directions in reduced row echelon form. Transfer functions: affine assignment, havoc (non-affine assignment),
// meet with a hyperplane (equality guards), join (affine hull). The domain has finite height (the dimension
// grows with every change), so the fixpoint iteration terminates without widening.
//
// Rationals are int64 fractions; an overflow aborts the analysis of the function (reported as "not decided").

import (
	"fmt"
	"math/bits"
)

type affOverflow struct{}

type q struct{ n, d int64 } // d > 0, gcd(n,d) == 1

func gcd64(a, b int64) int64 {
	if a < 0 {
		a = -a
	}
	if b < 0 {
		b = -b
	}
	for b != 0 {
		a, b = b, a%b
	}
	if a == 0 {
		return 1
	}
	return a
}

func mk(n, d int64) q {
	if d == 0 {
		panic(affOverflow{})
	}
	if d < 0 {
		n, d = -n, -d
	}
	g := gcd64(n, d)
	return q{n / g, d / g}
}

func qi(i int64) q { return q{i, 1} }

var q0 = q{0, 1}
var q1 = q{1, 1}

func mul64(a, b int64) int64 {
	neg := (a < 0) != (b < 0)
	ua, ub := uint64(a), uint64(b)
	if a < 0 {
		ua = uint64(-a)
	}
	if b < 0 {
		ub = uint64(-b)
	}
	hi, lo := bits.Mul64(ua, ub)
	if hi != 0 || lo > 1<<62 {
		panic(affOverflow{})
	}
	if neg {
		return -int64(lo)
	}
	return int64(lo)
}

func add64(a, b int64) int64 {
	s := a + b
	if (a > 0 && b > 0 && s < 0) || (a < 0 && b < 0 && s >= 0) {
		panic(affOverflow{})
	}
	return s
}

func (a q) zero() bool { return a.n == 0 }
func (a q) eq(b q) bool { return a.n == b.n && a.d == b.d }
func (a q) neg() q      { return q{-a.n, a.d} }
func (a q) add(b q) q {
	if a.n == 0 {
		return b
	}
	if b.n == 0 {
		return a
	}
	if a.d == b.d {
		return mk(add64(a.n, b.n), a.d)
	}
	return mk(add64(mul64(a.n, b.d), mul64(b.n, a.d)), mul64(a.d, b.d))
}
func (a q) sub(b q) q { return a.add(b.neg()) }
func (a q) mul(b q) q {
	if a.n == 0 || b.n == 0 {
		return q0
	}
	g1 := gcd64(a.n, b.d)
	g2 := gcd64(b.n, a.d)
	return mk(mul64(a.n/g1, b.n/g2), mul64(a.d/g2, b.d/g1))
}
func (a q) div(b q) q {
	if b.n == 0 {
		panic(affOverflow{})
	}
	return a.mul(mk(b.d, b.n))
}
func (a q) String() string {
	if a.d == 1 {
		return fmt.Sprint(a.n)
	}
	return fmt.Sprintf("%d/%d", a.n, a.d)
}

// linear expression: c + Σ co[v]·v
type lin struct {
	c  q
	co map[int]q
}

func linConst(c int64) lin { return lin{c: qi(c), co: map[int]q{}} }
func linVar(v int) lin     { return lin{c: q0, co: map[int]q{v: q1}} }
func (a lin) clone() lin {
	m := make(map[int]q, len(a.co))
	for k, v := range a.co {
		m[k] = v
	}
	return lin{a.c, m}
}
func (a lin) scale(k q) lin {
	r := lin{a.c.mul(k), map[int]q{}}
	for v, c := range a.co {
		if x := c.mul(k); !x.zero() {
			r.co[v] = x
		}
	}
	return r
}
func (a lin) plus(b lin) lin {
	r := a.clone()
	r.c = r.c.add(b.c)
	for v, c := range b.co {
		x := r.co[v].addz(c)
		if x.zero() {
			delete(r.co, v)
		} else {
			r.co[v] = x
		}
	}
	return r
}
func (a lin) minus(b lin) lin { return a.plus(b.scale(qi(-1))) }

// addz treats the zero value of q (d == 0, missing map entry) as 0
func (a q) addz(b q) q {
	if a.d == 0 {
		return b
	}
	return a.add(b)
}

type vec []q

func (v vec) at(i int) q {
	if i < len(v) {
		if v[i].d == 0 {
			return q0
		}
		return v[i]
	}
	return q0
}

func (v vec) isZero() bool {
	for _, x := range v {
		if x.d != 0 && x.n != 0 {
			return false
		}
	}
	return true
}

func (v vec) clone(n int) vec {
	if n < len(v) {
		n = len(v)
	}
	r := make(vec, n)
	for i := range r {
		r[i] = q0
	}
	for i, x := range v {
		if x.d != 0 {
			r[i] = x
		}
	}
	return r
}

type space struct {
	zt   map[int]bool // variables holding (or derived from) an unknown that was given the benefit of the doubt
	bot  bool
	n    int // number of variables in use (vectors are padded on demand)
	p    vec
	rows []vec
	piv  []int
}

func newSpace(n int) *space {
	return &space{n: n, p: make(vec, 0).clone(n)}
}

func botSpace(n int) *space { return &space{bot: true, n: n} }

func (s *space) clone() *space {
	if s.bot {
		return &space{bot: true, n: s.n}
	}
	r := &space{n: s.n, p: s.p.clone(s.n), piv: append([]int(nil), s.piv...)}
	if len(s.zt) > 0 {
		r.zt = make(map[int]bool, len(s.zt))
		for k := range s.zt {
			r.zt[k] = true
		}
	}
	for _, row := range s.rows {
		r.rows = append(r.rows, row.clone(s.n))
	}
	return r
}

func (s *space) grow(n int) {
	if n <= s.n {
		return
	}
	s.n = n
	if s.bot {
		return
	}
	s.p = s.p.clone(n)
	for i := range s.rows {
		s.rows[i] = s.rows[i].clone(n)
	}
}

func (s *space) dim() int {
	if s.bot {
		return -1
	}
	return len(s.rows)
}

// reduce v by the rows (RREF): afterwards v is zero on every pivot column
func (s *space) reduce(v vec) {
	for i, row := range s.rows {
		c := v.at(s.piv[i])
		if c.zero() {
			continue
		}
		for j := range row {
			if !row[j].zero() {
				v[j] = v[j].sub(c.mul(row[j]))
			}
		}
	}
}

// insertDir adds a direction; returns true if the space grew
func (s *space) insertDir(v0 vec) bool {
	v := v0.clone(s.n)
	s.reduce(v)
	pc := -1
	for j, x := range v {
		if !x.zero() {
			pc = j
			break
		}
	}
	if pc < 0 {
		return false
	}
	inv := q1.div(v[pc])
	for j := range v {
		if !v[j].zero() {
			v[j] = v[j].mul(inv)
		}
	}
	// eliminate the new pivot column from the other rows
	for _, row := range s.rows {
		c := row.at(pc)
		if c.zero() {
			continue
		}
		for j := range v {
			if !v[j].zero() {
				row[j] = row[j].sub(c.mul(v[j]))
			}
		}
	}
	s.rows = append(s.rows, v)
	s.piv = append(s.piv, pc)
	return true
}

func (s *space) rebuild() {
	rows := s.rows
	s.rows, s.piv = nil, nil
	for _, r := range rows {
		s.insertDir(r)
	}
}

// join: s := affine hull of s and o; returns true if s changed
func (s *space) join(o *space) bool {
	if o.bot {
		return false
	}
	if s.bot {
		c := o.clone()
		c.grow(s.n)
		*s = *c
		return true
	}
	if o.n > s.n {
		s.grow(o.n)
	}
	ch := false
	for k := range o.zt {
		if !s.zt[k] {
			if s.zt == nil {
				s.zt = map[int]bool{}
			}
			s.zt[k] = true
			ch = true
		}
	}
	d := make(vec, s.n)
	for j := range d {
		d[j] = o.p.at(j).sub(s.p.at(j))
	}
	if s.insertDir(d) {
		ch = true
	}
	for _, r := range o.rows {
		if s.insertDir(r) {
			ch = true
		}
	}
	return ch
}

func (s *space) evalP(e lin) q {
	r := e.c
	for v, c := range e.co {
		r = r.add(c.mul(s.p.at(v)))
	}
	return r
}

func evalDir(row vec, e lin) q {
	r := q0
	for v, c := range e.co {
		r = r.add(c.mul(row.at(v)))
	}
	return r
}

// assignMany performs the parallel assignment xs[i] := es[i]
func (s *space) assignMany(xs []int, es []lin) {
	if s.bot || len(xs) == 0 {
		return
	}
	mx := 0
	for _, x := range xs {
		if x+1 > mx {
			mx = x + 1
		}
	}
	s.grow(mx)
	nt := make([]bool, len(xs))
	for i, e := range es {
		nt[i] = s.tainted(e)
	}
	for i, x := range xs {
		if nt[i] {
			if s.zt == nil {
				s.zt = map[int]bool{}
			}
			s.zt[x] = true
		} else if s.zt != nil {
			delete(s.zt, x)
		}
	}
	np := make([]q, len(xs))
	nr := make([][]q, len(xs))
	for i, e := range es {
		np[i] = s.evalP(e)
		nr[i] = make([]q, len(s.rows))
		for k, row := range s.rows {
			nr[i][k] = evalDir(row, e)
		}
	}
	needRebuild := false
	for i, x := range xs {
		s.p[x] = np[i]
		for k := range s.rows {
			if s.piv[k] == x {
				needRebuild = true
			}
			s.rows[k][x] = nr[i][k]
		}
	}
	if needRebuild {
		s.rebuild()
	} else {
		// rows stay independent and reduced w.r.t. pivots; drop nothing
	}
}

func (s *space) tainted(e lin) bool {
	for v := range e.co {
		if s.zt[v] {
			return true
		}
	}
	return false
}

func (s *space) markTaint(x int) {
	if s.zt == nil {
		s.zt = map[int]bool{}
	}
	s.zt[x] = true
}

func (s *space) assign(x int, e lin) { s.assignMany([]int{x}, []lin{e}) }

func (s *space) forget(x int) { s.assign(x, linConst(0)) }

func (s *space) havoc(x int) {
	if s.bot {
		return
	}
	s.forget(x)
	d := make(vec, s.n)
	for j := range d {
		d[j] = q0
	}
	d[x] = q1
	s.insertDir(d)
}

// meet with the hyperplane e == 0
func (s *space) meet(e lin) {
	if s.bot {
		return
	}
	r0 := s.evalP(e)
	cs := make([]q, len(s.rows))
	pj := -1
	for k, row := range s.rows {
		cs[k] = evalDir(row, e)
		if pj < 0 && !cs[k].zero() {
			pj = k
		}
	}
	if pj < 0 {
		if !r0.zero() {
			s.bot = true
			s.p, s.rows, s.piv = nil, nil, nil
		}
		return
	}
	dj := s.rows[pj]
	f := r0.div(cs[pj])
	for j := range s.p {
		if !dj.at(j).zero() {
			s.p[j] = s.p[j].sub(f.mul(dj[j]))
		}
	}
	var rows []vec
	for k, row := range s.rows {
		if k == pj {
			continue
		}
		if !cs[k].zero() {
			g := cs[k].div(cs[pj])
			for j := range row {
				if !dj.at(j).zero() {
					row[j] = row[j].sub(g.mul(dj[j]))
				}
			}
		}
		rows = append(rows, row)
	}
	s.rows = rows
	s.piv = nil
	s.rebuild()
}

// zeroOn: e == 0 everywhere on s
func (s *space) zeroOn(e lin) bool {
	if s.bot {
		return true
	}
	if !s.evalP(e).zero() {
		return false
	}
	for _, row := range s.rows {
		if !evalDir(row, e).zero() {
			return false
		}
	}
	return true
}

// constOn: e is constant on s
func (s *space) constOn(e lin) (q, bool) {
	if s.bot {
		return q0, false
	}
	for _, row := range s.rows {
		if !evalDir(row, e).zero() {
			return q0, false
		}
	}
	return s.evalP(e), true
}

// express: find an affine form over the variables `over` that equals variable x everywhere on s
func (s *space) express(x int, over []int) (lin, bool) {
	if s.bot {
		return lin{}, false
	}
	// unknowns a_0..a_{m-1}, c ; equations: one per row (linear part), one for the point
	m := len(over)
	var eqs [][]q
	for _, row := range s.rows {
		e := make([]q, m+2)
		for i, v := range over {
			e[i] = row.at(v)
		}
		e[m] = q0
		e[m+1] = row.at(x)
		eqs = append(eqs, e)
	}
	e := make([]q, m+2)
	for i, v := range over {
		e[i] = s.p.at(v)
	}
	e[m] = q1
	e[m+1] = s.p.at(x)
	eqs = append(eqs, e)
	// gaussian elimination
	sol := make([]q, m+1)
	for i := range sol {
		sol[i] = q0
	}
	r := 0
	pcol := []int{}
	for c := 0; c <= m && r < len(eqs); c++ {
		pr := -1
		for i := r; i < len(eqs); i++ {
			if !eqs[i][c].zero() {
				pr = i
				break
			}
		}
		if pr < 0 {
			continue
		}
		eqs[r], eqs[pr] = eqs[pr], eqs[r]
		inv := q1.div(eqs[r][c])
		for j := range eqs[r] {
			eqs[r][j] = eqs[r][j].mul(inv)
		}
		for i := range eqs {
			if i != r && !eqs[i][c].zero() {
				f := eqs[i][c]
				for j := range eqs[i] {
					eqs[i][j] = eqs[i][j].sub(f.mul(eqs[r][j]))
				}
			}
		}
		pcol = append(pcol, c)
		r++
	}
	for i := r; i < len(eqs); i++ {
		if !eqs[i][m+1].zero() {
			return lin{}, false // inconsistent: x is not an affine function of `over` on s
		}
	}
	for i, c := range pcol {
		sol[c] = eqs[i][m+1]
	}
	res := lin{c: sol[m], co: map[int]q{}}
	for i, v := range over {
		if !sol[i].zero() {
			res.co[v] = sol[i]
		}
	}
	// verify
	chk := res.minus(linVar(x))
	if !s.zeroOn(chk) {
		return lin{}, false
	}
	return res, true
}

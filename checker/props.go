package main

import "encoding/json"

type Property struct {
	Rules       []string
	Decided     string
	NotDecided  string
	Assumptions []string
}

func jsonUnmarshal(b []byte, v any) error { return json.Unmarshal(b, v) }
func jsonMarshal(v any) ([]byte, error)    { return json.Marshal(v) }

// properties lists, for each claimed property, the rules that decide its structural clauses.
// See /verif/DESIGN.md section 3.
var properties = map[string]*Property{
	"C01": {
		Rules:      []string{"R-HINT", "R-CTXTYPE", "R-TABLES", "R-CTX-MIRROR", "R-NAMECMP", "R-CTX-KEYS", "R-LIFECYCLE", "R-MODE-ORDER", "R-PAYLOAD-MIRROR", "R-CHUNK-STATE", "R-FIELD-WIDTH", "R-EMIT-EXACT", "R-HDR-MIRROR", "R-OWN", "R-HINT-READER"},
		Decided:    "the advisory size hint cannot steer which data is encoded (non-interference: hint-derived values reach no branch, loop bound, index or slice bound of the Writer data path); every context key is stored with the type every consumer asserts (no configuration accepted at construction can fail a type assertion at the first block); every codec name accepted at construction has a constructor case in every factory. Encode and decode tasks publish the same context keys (block size for the transform stage, post-transform size for the entropy stage) before creating their codecs. Every context key a codec constructor consults is published on the writing side and on both reading sides, so both build the same codec variant; an empty input still produces a framed stream (header before the empty-buffer return). In the block tasks the codecs are built from the task's transform/entropy type only after its last assignment. The size-hint header field fits the width it is written with for every value of the hint (interval argument over the tests that choose the width). The encode task emits exactly the bit count its private bitstream reports. The headerless initialisation of the Reader fills every field that the header parser fills and the read path uses. Each block task works on its own copy of the context map (nothing learned from one block steers another). On the reading side the recorded original size decides no error.",
		NotDecided: "byte equality of the round trip, codec correctness, buffer sizing, expansion bounds.",
	},
	"C02": {
		Rules:      []string{"R-CKSUM", "R-ERRSTATE", "R-CANCEL", "R-SKIP-RANGE"},
		Decided:    "on decode the block hash is recomputed on the inverse-transformed data, compared un-narrowed with the header value and a mismatch always sets the task error (must-pass-through on every clean exit after Inverse); on encode the hash of the original block is computed before the transform and is the value written with the hasher's width; a failed batch publishes 0 bytes, so no later Read can deliver its data. A task that fails for any reason, including a checksum mismatch found after the block was decoded, cancels the stream, so no later Read resumes behind the failed block. A block is marked as skipped (dropped from the output without its checksum being looked at) only behind a comparison of its id with the from/to bounds.",
		NotDecided: "hash collision freedom; that returned bytes equal the original.",
	},
	"C03": {
		Rules:      []string{"R-GOREC", "R-PANIC-API", "R-CLI-REC", "R-CANCEL", "R-ALLOC-GUARD", "R-ERRSTATE", "R-DIV-GUARD", "R-PIDX-RANGE", "R-TOKEN"},
		Decided:    "every library goroutine installs a recover before it can panic; no declared panicking bitstream operation or explicit panic is reachable from the Reader API without crossing a recovering frame; CLI entry points run under runWithRecovery; spin waits have a cancel exit and yield; data-derived allocation sizes on the decode path are bounded. A header field that is later used as a divisor is range-checked on every path of the header parser that reports success (no division by zero from a forged header). The multi-chunk inverse BWT range-checks every primary index before its chunk decoders use them (a forged index made them spin forever: F12). Task ids are computed from the counter value of the current batch iteration (a stale base makes every task of a repeated batch wait forever).",
		NotDecided: "termination within a time bound; implicit runtime panics (index/nil) raised in the calling goroutine outside a recovering frame.",
	},
	"C04": {
		Rules:      []string{"R-NONDET", "R-JOBS-INERT", "R-TOKEN", "R-OWN", "R-HASH-PURE", "R-HINT", "R-BLOCK-BOUND", "R-JOBS-WIRE", "R-WRITE-PARTITION", "R-EMIT-EXACT"},
		Decided:    "no nondeterministic API is reachable from the encode path; the per-task job count is unobservable in the forward direction; bytes are appended to the shared stream only while holding the hand-off token; tasks share no mutable state outside the protocol; the size hint does not steer the data path. The encode task reads its reused input slot only within the current block length. In the Writer the job count reaches no field that the header writer puts on the wire and decides no branch or loop around their assignment (block size and header fields are independent of the job count). Write only measures and copies the caller's slice (nothing else can make the output depend on the Write partition); header fields are assigned in the constructor only. The bit count copied to the shared stream is exactly what the private bitstream reports (no padding bits taken from a reused buffer).",
		NotDecided: "independence from the partition into Write calls (index arithmetic in Writer.Write).",
	},
	"C05": {
		Rules:      []string{"R-TOKEN", "R-OWN", "R-STALE", "R-ERRSTATE", "R-CANCEL", "R-COMPACT", "R-BUF-FRESH", "R-EOS-ONLY"},
		Decided:    "shared reads happen strictly under the token, none after release; per-task buffers/results are private and read by the parent only after Wait, in index order; the parent reads the buffer the task decoded into; no data from a failed batch is published. Decoded blocks are packed into consecutive buffer slots by a cursor that advances only for delivered blocks; buffer slots are only re-pointed to fresh allocations. A decode task ends cleanly only at the end marker, on cancellation or on a skip (no other silent exit can cut the output short depending on the schedule).",
		NotDecided: "cursor arithmetic of Reader.Read (consumed/available/bufferThreshold).",
	},
	"C06": {
		Rules:      []string{"R-REFILL", "R-READ-FULL", "R-EOF-AT-END", "R-STALE-SLOT", "R-WRITE-PARTITION"},
		Decided:    "source-side clause only: the input bitstream refills its buffer completely (loop or io.ReadFull) so a partial 64-bit word can only occur at end of source, the invariant every bulk read path relies on. Reader.Read returns a short count without error only when the stream ended (the decompressor treats a short read as end of data); every exit of the refill loop is decided by bytes obtained vs requested or by an error. Read answers io.EOF only after the batch function ran in that call and delivered nothing (a zero-length or buffered read never reports end of stream). No buffer index or offset computed before a batch call is reused after it (a Write or Read call that spans a batch boundary addresses the right block buffer).",
		NotDecided: "Write/Read buffer-length independence (arithmetic); sink-side chunking.",
	},
	"C07": {
		Rules:      []string{"R-TOKEN", "R-CANCEL", "R-POISON", "R-ERRSTATE", "R-SKIP-ORDER", "R-EOS-ONLY", "R-GOREC", "R-RESULT-SLOT"},
		Decided:    "exclusive and ordered access to the shared stream (dominance by the acquire edge, nothing after release); every task exit passes the token or cancels, including panics; waiters have a cancel exit; every task joins; a failure is reported by the enclosing call and stays reported. Every task goroutine recovers at its entry (a panic in a task becomes a task error, not a crash). The slot a task reports into is an element of the very slice the parent scans after Wait, and that slice is not re-allocated (grown by append without reserved capacity) while tasks hold slots. The ids of a batch are based on a counter value read while no task of the batch runs.",
		NotDecided: "fairness/timing (\"promptly\"); memory-model subtleties beyond all accesses being sync/atomic.",
	},
	"C08": {
		Rules:      []string{"R-PANIC-API", "R-IOERR", "R-EOS-ERR", "R-CLOSE-ORDER", "R-POISON", "R-ERRSTATE", "R-REFILL", "R-SKIP-ORDER", "R-CANCEL", "R-RESULT-SLOT", "R-BS-PANIC", "R-EOS-ONLY"},
		Decided:    "no declared bitstream panic escapes the Writer/Reader API; no error of the underlying sink/source is dropped; a source error is never turned into a clean end of stream by the refill; closed flags are set only after successful flush/close; a failed write batch cannot be followed by a successful Close. A block is classified as skipped only after its payload was read, so a source failure inside a skipped block is still an error. The exit handlers turn every recovered panic – whatever its dynamic type – into a task error. No error value of the shared bitstream (Close, HasMoreToRead) is discarded in the stream layer; the command-line tool looks at the error of every Read/Write/Close of the compressed stream and of its files on every path. No function of the bitstream package (tracing wrappers included) recovers a failure and then returns normally. Task results are reported into slots the parent actually reads. Every caller of the batch functions looks at the returned error on every path (new entry points included); a decode task ends cleanly only at the end marker, on cancellation or on a skip.",
		NotDecided: "counter restoration arithmetic in DefaultOutputBitStream.Close.",
	},
	"C09": {
		Rules:      []string{"R-EOS-ONLY", "R-EOS-ERR", "R-CLOSE-ORDER", "R-PANIC-API", "R-ERRSTATE", "R-BATCH-ONLY", "R-EOF-AT-END", "R-CANCEL", "R-IOERR", "R-BS-PANIC"},
		Decided:    "the only clean exits of a decode task are cancel, end marker, range skip and normal completion; exhausting the source is an error (panic) that the recovering frames turn into a reported error; the writer emits the end marker on every successful close. The Reader's batch function reports success only after a batch of tasks ran (which ends only at the end marker) or after a cancellation; io.EOF is produced only behind that. The exit handler of a decode task turns every recovered panic, whatever its dynamic type, into a task error. The end-of-source failure raised by the bitstream is not swallowed by any bitstream wrapper, a failed source read is not answered with io.EOF by discarding the error of HasMoreToRead, and the command-line tool cannot lose the error of Reader.Read between the call and the exit status. Every caller of the Reader's batch function looks at its error before anything else can end the read.",
		NotDecided: "bit-level behaviour of the partial last word in pull().",
	},
	"C10": {
		Rules:      []string{"R-WIRE", "R-TABLES", "R-CKSUM", "R-SORT-TIES"},
		Decided:    "every curated wire constant of bitstream format 6 (magic, version, masks, hash primes and seeds, codec type codes, chunk sizes, coder tops, escape tokens, table digests) still has its frozen value; name/type tables are a bijection. The block checksum field is written (encode) and read and compared (decode) for every block of a checksummed stream, copy blocks included. Codec code leaves no order of equal keys to an unstable library sort (only keys are transmitted, so the order of ties is format).",
		NotDecided: "algorithmic changes that keep every constant; tables computed at init; encoder-only changes.",
	},
	"C11": {
		Rules:      []string{"R-SKIP-ORDER", "R-SKIP-RANGE", "R-ERRSTATE", "R-COMPACT", "R-BATCH-ONLY", "R-OWN", "R-BUF-FRESH", "R-APP-CTX"},
		Decided:    "skipped blocks consume their bytes and pass the token before the range test, are never decoded nor delivered; block ids are compared with from/to as the half-open interval [from,to); all-skipped batches are refilled. The slot cursor of the result compaction advances only for non-skipped blocks. The range bounds reach the skip test un-narrowed (also when carried in task fields); the batch function never concludes 'past the end' from header counts. Only tasks advance or cancel the shared block counter (a parent-side fast path over skipped blocks must not). A compacted buffer slot never aliases a task buffer. The command-line tool gives every per-file task a context that carries the options of its option map (from/to included).",
		NotDecided: "mapping of block k to byte offsets; cursor compaction arithmetic.",
	},
	"C12": {
		Rules:      []string{"R-FACTORY-PAIR", "R-WIRE", "R-PAYLOAD-MIRROR", "R-CHUNK-STATE", "R-SORT-TIES", "R-CHUNK-LEN"},
		Decided:    "for each entropy code the encoder and decoder factories build the same codec family with the same constant arguments and the same predictor constructor; shared constants of the entropy package keep their format-6 values. For the static-model codecs (Huffman, ANS, Range) encoder and decoder agree, for every number of symbols and order, on whether a chunk carries payload bits after its statistics header (finite decision table compared on both sides). Encoder and decoder carry the same coder state (values derived from receiver fields) across the chunk loop: what one side re-initialises per chunk the other does too. No unstable library sort with a single-key order function in codec code. Chunk lengths that encoder and decoder each recompute from the block length are given by the same expressions on both sides.",
		NotDecided: "arithmetic-coder exactness, bit-exact consumption.",
	},
	"C13": {
		Rules:      []string{"R-SRC-RO", "R-SEQ-REVERT", "R-PACK-WIDTH"},
		Decided:    "no write path to the src argument exists in any Forward implementation or anything it calls, so a declining transform leaves its input unmodified; the sequence restores its state on a failed stage. A position packed into the upper bits of an int32 by an inverse transform (int32(i<<k)|v) fits for every size under which that routine is selected (constant guard at the call site, interval argument).",
		NotDecided: "in-bounds output and inverse exactness (numeric).",
	},
	"C14": {
		Rules:      []string{"R-BS-CLOSED", "R-BITCOUNT", "R-REFILL", "R-REFUSE-CLEAN", "R-WORD-BUF"},
		Decided:    "closed bitstreams refuse further operations (Close stores the closed state; every operation that touches the buffer tests it first). Counter clause, by an affine-equality analysis of the methods: the value returned by Written()/Read() advances by exactly the bit count of WriteBits, WriteArray, ReadBit and ReadBits and these return that count; flush, refill, HasMoreToRead and both Close methods conserve it at every return; a failed Close of the writer restores every integer field. The reader refills completely (a partial 64-bit word only at the end of the source), which the bulk read paths rely on. An operation refused by a closed stream has not stored any field the counter is computed from before the closed state is tested. The internal buffers hold a whole number of 64-bit words (constructor test or rounding).",
		NotDecided: "the values read back and the byte image (bit arithmetic); the counter clause for WriteBit and ReadArray (they depend on inequality invariants the affine domain cannot express); guards are ignored, so a wrong loop bound is not seen.",
		Assumptions: []string{"integer arithmetic in the bitstreams does not wrap", "a signed residual counter tested against 0 is never negative (A4)", "a unit-step counting loop exits exactly at its bound (A5)"},
	},
	"C15": {
		Rules:      []string{"R-TABLES", "R-NAMECMP", "R-LEVELS", "R-CHAIN-PACK", "R-NAMESET", "R-CTX-KEYS", "R-NAME-NORM"},
		Decided:    "name->type->name is the identity on canonical names and upper-cases before lookup; every type maps to a constructor in every factory; no codec variant is selected by a case-sensitive comparison of the user's spelling. In GetType the slot of a token in the packed chain advances only for non-NONE tokens (NONE fillers are removed). The names a codec variant is selected from (ctx transform/entropy) are published on every side. Beyond case folding, the name->type lookups normalise a name no more than every variant selector does; the type->name direction is also understood as a reverse scan of the name table.",
		NotDecided: "removal of NONE fillers (loop in GetType); stream byte equality.",
	},
	"C17": {
		Rules:      []string{"R-LIFECYCLE", "R-CLOSE-ORDER", "R-BITCOUNT", "R-FLUSH-STEP", "R-HINT-READER"},
		Decided:    "Write/Read after Close fail at entry before any effect; Close is idempotent at entry; an empty stream is still framed (header before the empty-buffer return); closed is set only after successful close. The bit counters behind GetWritten/GetRead are conserved by flush, refill and Close at every return including the failing ones (hence monotone across failures), and a failed bitstream Close restores the state a retry starts from (affine-equality analysis, R-BITCOUNT). A sink write inside a loop of the output bitstream is accounted for within the iteration (a retried Close cannot send bytes twice). No error of the read path is decided by the recorded original size (a Writer closed with less data than its hint still yields a readable stream).",
		NotDecided: "returned lengths, call-history semantics, the byte counters of the stream layer above the bitstream.",
	},
	"C18": {
		Rules:      []string{"R-GLOBAL-RO", "R-OWN", "R-HASH-PURE", "R-TOKEN", "R-BWT-WORKER", "R-BUF-FRESH", "R-GOREC"},
		Decided:    "package-level state is written only during initialisation (including through aliases handed to instances); tasks of one instance share only classified state, each class with its obligation (atomic counter, pure hashers, token-guarded stream, per-task buffers); inverse-BWT workers store only through dst. Buffer slots shared between a reader/writer and its tasks are only re-pointed to fresh allocations.",
		NotDecided: "disjointness of dst ranges of BWT workers (arithmetic); user listeners.",
	},
	"C19": {
		Rules:      []string{"R-EXCL", "R-FS-WHO", "R-REMOVE-ORDER", "R-LEVELS", "R-CLI-REC", "R-IOERR", "R-APP-OWN", "R-APP-CTX"},
		Decided:    "never overwrite without force (O_EXCL unless overwrite edge), same-file test before truncation, no other file-system mutation in the module, source removed only after complete error-free close (dominance, hence at every kill point), level table well-formed. The tool looks at the error of every Read/Write/Close it issues on the compressed stream and on the files, on every path (an error cannot be overwritten before it is tested). Per-file tasks queued for concurrent workers share no slice that a task writes into. Every per-file task context carries the options of the tool's option map.",
		NotDecided: "tree round trip, exit statuses.",
	},
}

func jsonMarshalIndent(v any) ([]byte, error) { return json.MarshalIndent(v, "", " ") }

package main

import (
	"fmt"
	"go/token"
	"go/types"

	"golang.org/x/tools/go/ssa"
)

// ---------------------------------------------------------------------------------------
// Structure of decodingTask.decode: R-EOS-ONLY, R-SKIP-ORDER, R-SKIP-RANGE, R-STALE
// ---------------------------------------------------------------------------------------

func init() {
	register("R-EOS-ONLY", "the only clean exits of a decode task are: cancel observed, end marker read, block outside the requested range, normal completion after the inverse transform", false, ruleEosOnly)
	register("R-SKIP-ORDER", "a skipped block still consumes its bytes and passes the token before the range test, is never decoded, and an all-skipped batch is refilled", false, ruleSkipOrder)
	register("R-SKIP-RANGE", "block ids are compared with from/to as the half-open interval [from,to)", false, ruleSkipRange)
	register("R-STALE", "every buffer a decode task re-allocates is stored back into the shared buffer slot before it is used, and the result is published from that slot", false, ruleStale)
}

type decodeAnatomy struct {
	s          *taskSide
	f          *ssa.Function
	cancel     int64
	cancelEdge []edge // edges taken when the counter holds the cancel value
	endEdge    []edge // edges taken when the block length read from the shared stream is 0
	skipStores []ssa.Instruction
	skipCell   ssa.Value
	errStores  map[ssa.Instruction]bool
	inv        *ssa.Call
	invOKEdge  *edge
	release    []ssa.Instruction // non-cancel counter writes in the body
	sharedOps  []ssa.Instruction
	liftedOps  []ssa.Instruction // calls to helpers that use the shared stream
	decodeCall []*ssa.Call // NewEntropyDecoder, transform.New, Inverse, entropy Read
}

func analyseDecode(p *Prog) *decodeAnatomy {
	s := resolveSide(p, "Reader")
	a := &decodeAnatomy{s: s, f: s.fn, cancel: -1, errStores: map[ssa.Instruction]bool{}}
	if c := p.Pkg("io").Const("_CANCEL_TASKS_ID"); c != nil {
		a.cancel = c.Value.Int64()
	}
	f := s.fn
	// skipped cell: the bool Alloc whose load is stored into the result's `skipped` field by the exit handler
	// (a free variable of a deferred closure, or a pointer parameter of a deferred method)
	if s.deferred != nil {
		eachInstr(s.deferred, func(i ssa.Instruction) {
			st, ok := i.(*ssa.Store)
			if !ok {
				return
			}
			fv := fieldVarOfAddr(st.Addr)
			if fv == nil || fv != s.skippedF {
				return
			}
			if u, ok := st.Val.(*ssa.UnOp); ok && u.Op == token.MUL {
				if b := bindingOf(f, s.deferred, u.X); b != nil {
					a.skipCell = b
				}
			}
		})
	}
	for _, b := range f.Blocks {
		for _, in := range b.Instrs {
			switch x := in.(type) {
			case *ssa.Store:
				if fieldVarOfAddr(x.Addr) == s.errField && !isNilConst(x.Val) {
					a.errStores[in] = true
				}
				if a.skipCell != nil && x.Addr == a.skipCell {
					if c, ok := x.Val.(*ssa.Const); ok && c.Value != nil && c.Value.String() == "true" {
						a.skipStores = append(a.skipStores, in)
					}
				}
			case *ssa.Call:
				if o := calleeObj(&x.Call); o != nil {
					switch o.Name() {
					case "Inverse":
						if n := namedOf(o.Type().(*types.Signature).Recv().Type()); n != nil && n.Obj().Pkg() != nil && n.Obj().Pkg().Path() == p.ModPath+"/transform" {
							a.inv = x
							a.decodeCall = append(a.decodeCall, x)
						}
					case "NewEntropyDecoder", "New":
						if o.Pkg() != nil && (o.Pkg().Path() == p.ModPath+"/entropy" || o.Pkg().Path() == p.ModPath+"/transform") {
							a.decodeCall = append(a.decodeCall, x)
						}
					case "Read":
						if x.Call.IsInvoke() {
							if n := namedOf(x.Call.Value.Type()); n != nil && n.Obj().Name() == "EntropyDecoder" {
								a.decodeCall = append(a.decodeCall, x)
							}
						}
					}
				}
			}
		}
		ifi := blockIf(b)
		if ifi == nil {
			continue
		}
		atom, pos := condAtom(ifi.Cond)
		bo, ok := atom.(*ssa.BinOp)
		if !ok || (bo.Op != token.EQL && bo.Op != token.NEQ) {
			continue
		}
		for _, pair := range [][2]ssa.Value{{bo.X, bo.Y}, {bo.Y, bo.X}} {
			v, k := pair[0], pair[1]
			kc, ok := constInt(k)
			if !ok {
				continue
			}
			if c, ok := v.(*ssa.Call); ok && kc == 0 && c.Call.IsInvoke() && fieldVarOfLoad(c.Call.Value) == s.stream && c.Call.Method.Name() == "ReadBits" {
				a.endEdge = append(a.endEdge, edge{b, succFor(pos, bo.Op == token.EQL)})
			}
			// the block length may be read by a helper that returns it
			if c, ok := v.(*ssa.Call); ok && kc == 0 && !c.Call.IsInvoke() {
				if h := c.Call.StaticCallee(); h != nil && h.Blocks != nil && FnPkg(h) == FnPkg(f) && returnsSharedReadBits(s, h) {
					a.endEdge = append(a.endEdge, edge{b, succFor(pos, bo.Op == token.EQL)})
				}
			}
		}
	}
	a.cancelEdge = s.cancelEdges(f)
	if a.inv != nil {
		var invErr ssa.Value
		for _, ref := range *a.inv.Referrers() {
			if ex, ok := ref.(*ssa.Extract); ok && types.Identical(ex.Type(), types.Universe.Lookup("error").Type()) {
				invErr = ex
			}
		}
		for _, b := range f.Blocks {
			if ifi := blockIf(b); ifi != nil {
				if x, succ, ok := nilTest(ifi.Cond); ok && invErr != nil && x == invErr {
					a.invOKEdge = &edge{b, 1 - succ}
				}
			}
		}
	}
	for _, w := range s.counterWritesLifted(f) {
		c := callOf(w)
		if c != nil && len(c.Args) >= 2 && !s.lifted[w] && helperCallee(w, FnPkg(f)) == nil {
			if v, ok := constInt(c.Args[1]); ok && v == a.cancel {
				continue
			}
		}
		a.release = append(a.release, w)
	}
	for _, u := range s.sharedUses(f) {
		if c := callOf(u); c != nil && c.IsInvoke() && !s.lifted[u] {
			a.sharedOps = append(a.sharedOps, u)
		}
		if s.lifted[u] {
			a.liftedOps = append(a.liftedOps, u)
		}
	}
	return a
}

func ruleEosOnly(p *Prog, r *RuleResult) {
	a := analyseDecode(p)
	f := a.f
	fname := p.FnName(f)
	if a.inv == nil || a.invOKEdge == nil {
		undecided("anchor unresolved: Inverse call / its error test in %s", fname)
	}
	cut := map[edge]bool{*a.invOKEdge: true}
	for _, e := range a.cancelEdge {
		cut[e] = true
		r.info(fname+" clean exit class: cancel observed", p.IPos(e.from.Instrs[len(e.from.Instrs)-1]))
	}
	for _, e := range a.endEdge {
		cut[e] = true
		r.info(fname+" clean exit class: end marker (block length 0)", p.IPos(e.from.Instrs[len(e.from.Instrs)-1]))
	}
	avoid := map[*ssa.BasicBlock]bool{}
	for _, st := range a.skipStores {
		avoid[st.Block()] = true
		r.info(fname+" clean exit class: block outside the requested range", p.IPos(st))
	}
	r.info(fname+" clean exit class: normal completion after Inverse (checked by R-CKSUM)", p.IPos(a.inv))
	for st := range a.errStores {
		// the store must be followed by the return in the same block for block-level avoidance to be exact
		if _, ok := st.Block().Instrs[len(st.Block().Instrs)-1].(*ssa.Return); ok {
			avoid[st.Block()] = true
		}
	}
	reached := reach(f.Blocks[0], cut, avoid)
	nbad := 0
	var k keyer
	for _, b := range f.Blocks {
		if !reached[b] || b == f.Recover {
			continue
		}
		ret, ok := b.Instrs[len(b.Instrs)-1].(*ssa.Return)
		if !ok {
			continue
		}
		// a reached block may still store the error before returning (store and return in different blocks)
		hasErr := false
		for st := range a.errStores {
			if st.Block() == b {
				hasErr = true
			}
		}
		if hasErr {
			continue
		}
		nbad++
		r.fail(k.key(fname, "unclassified-clean-exit"), p.IPos(ret), "decode can return without an error on a path that is neither cancel, end marker, range skip nor normal completion: the reader would report a clean end of stream (or deliver an undecoded block) instead of an error")
	}
	nclass := len(a.cancelEdge) + len(a.endEdge) + len(a.skipStores) + 1
	if nbad == 0 {
		r.ok(fmt.Sprintf("%s: every clean exit belongs to one of the %d classified exit edges", fname, nclass), p.Pos(f.Pos()))
	}
	if len(a.endEdge) == 0 {
		r.fail(fname+"#end-marker", p.Pos(f.Pos()), "decode has no exit on a zero block length read from the shared stream: the end marker is not recognised")
	}
	r.floor(4, nclass, "classified clean-exit edges (cancel, end marker, skips, completion)")
}

func ruleSkipOrder(p *Prog, r *RuleResult) {
	a := analyseDecode(p)
	f := a.f
	fname := p.FnName(f)
	if len(a.skipStores) == 0 {
		r.fail(fname+"#skip", p.Pos(f.Pos()), "decode never marks a block as skipped: from/to ranges are ignored")
		r.floor(2, 0, "skip exits")
		return
	}
	var dataRead []ssa.Instruction
	for _, u := range a.sharedOps {
		if callOf(u).Method.Name() == "ReadArray" {
			dataRead = append(dataRead, u)
		}
	}
	for _, u := range a.liftedOps {
		if helperUses(p, a.s, u, "ReadArray") {
			dataRead = append(dataRead, u)
		}
	}
	var k keyer
	for _, st := range a.skipStores {
		key := k.key(fname, "skip")
		// (a) release and data read dominate the skip
		relDom := false
		for _, rel := range a.release {
			if instrDominates(rel, st) {
				relDom = true
			}
		}
		if !relDom {
			r.fail(key+"#token", p.IPos(st), "a block is skipped before the task has passed the token: the next task never starts (or starts reading at this block's bytes)")
		} else {
			r.ok(key+" after the token was passed", p.IPos(st))
		}
		// the data read loop precedes: every path from entry to the skip passes the loop head that holds ReadArray;
		// ReadArray sits in a loop body, so require that the skip is reachable only after the release, which itself
		// is reachable only through the loop (release dominated by the loop header of the read loop)
		readOK := false
		for _, rd := range dataRead {
			for _, rel := range a.release {
				// loop header dominates both; the read's block must be able to reach the release and not vice versa
				if instrReaches(rd, rel) && !instrReaches(rel, rd) && instrDominates(rel, st) {
					// and the length read dominates
					readOK = true
				}
			}
		}
		lenRead := false
		for _, u := range a.sharedOps {
			if callOf(u).Method.Name() == "ReadBits" && instrDominates(u, st) {
				lenRead = true
			}
		}
		for _, u := range a.liftedOps {
			if helperUses(p, a.s, u, "ReadBits") && instrDominates(u, st) {
				lenRead = true
			}
		}
		if !readOK || !lenRead {
			r.fail(key+"#consume", p.IPos(st), "a block is skipped without its bytes having been read from the shared stream: the following blocks are read from the wrong offset")
		} else {
			r.ok(key+" after its bytes were consumed from the shared stream", p.IPos(st))
		}
		// (b) never decoded
		dec := false
		for _, c := range a.decodeCall {
			if instrReaches(st, c) || instrDominates(c, st) {
				dec = true
			}
		}
		if dec {
			r.fail(key+"#decoded", p.IPos(st), "a skipped block is (or was already) entropy-decoded / inverse-transformed")
		} else {
			r.ok(key+" is never decoded", p.IPos(st))
		}
	}
	// (c) Reader.processBlock repeats only when every task was skipped. The comparison skipCount ==/!= nbTasks
	// decides the loop either directly (if ... break) or through a loop flag (for repeat { ...; repeat = a == b }).
	pb := a.s.parent
	pname := p.FnName(pb)
	refill := false
	scanF, scanCall := scanFunction(p, a.s)
	isSkipCountIn := func(fn *ssa.Function, v ssa.Value) bool {
		ph, ok := v.(*ssa.Phi)
		if !ok {
			return false
		}
		// the increments feeding the counter, also through the merge phis of a `continue` / post statement
		var edgesOf func(ph *ssa.Phi, seen map[*ssa.Phi]bool) []ssa.Value
		edgesOf = func(ph *ssa.Phi, seen map[*ssa.Phi]bool) []ssa.Value {
			if seen[ph] {
				return nil
			}
			seen[ph] = true
			var out []ssa.Value
			for _, e := range ph.Edges {
				if q, ok := e.(*ssa.Phi); ok {
					out = append(out, edgesOf(q, seen)...)
				} else {
					out = append(out, e)
				}
			}
			return out
		}
		for _, e := range edgesOf(ph, map[*ssa.Phi]bool{}) {
			if add, ok := e.(*ssa.BinOp); ok && add.Op == token.ADD {
				if c, ok := constInt(add.Y); ok && c == 1 {
					for _, bb := range fn.Blocks {
						if i2 := blockIf(bb); i2 != nil {
							at, ps := condAtom(i2.Cond)
							if fv := fieldVarOfLoad(at); fv != nil && fv == a.s.skippedF {
								if edgeDominates(fn, edge{bb, succFor(ps, true)}, add.Block()) {
									return true
								}
							}
						}
					}
				}
			}
		}
		return false
	}
	isSkipCount := func(v ssa.Value) bool {
		if isSkipCountIn(pb, v) {
			return true
		}
		// result of a scan helper: the corresponding return operand is a skip counter in the helper
		if ex, ok := v.(*ssa.Extract); ok && scanCall != nil && ex.Tuple == ssa.Value(scanCall) {
			okAll, n := true, 0
			for _, b := range scanF.Blocks {
				if ret, ok := b.Instrs[len(b.Instrs)-1].(*ssa.Return); ok && b != scanF.Recover && ex.Index < len(ret.Results) {
					n++
					if !isSkipCountIn(scanF, rvals(ret)[ex.Index]) {
						if c, isC := rvals(ret)[ex.Index].(*ssa.Const); !isC || c.Value == nil {
							okAll = false
						}
					}
				}
			}
			return okAll && n > 0
		}
		return false
	}
	reachesGo := func(from *ssa.BasicBlock) bool {
		rs := reach(from, nil, nil)
		for _, g := range a.s.gos {
			if rs[g.Block()] {
				return true
			}
		}
		return false
	}
	eachInstr(pb, func(i ssa.Instruction) {
		bo, ok := i.(*ssa.BinOp)
		if !ok || (bo.Op != token.EQL && bo.Op != token.NEQ) {
			return
		}
		if !isSkipCount(bo.X) && !isSkipCount(bo.Y) {
			return
		}
		// the count must be born after the Wait of the batch it describes: a phi of its family that sits before the
		// Wait is carried around the batch loop (count of an earlier, fully skipped batch added to this one)
		var waitBlk *ssa.BasicBlock
		eachInstr(pb, func(j ssa.Instruction) {
			if c := callOf(j); c != nil && isMethodNamed(c, "sync", "WaitGroup", "Wait") {
				waitBlk = j.Block()
			}
		})
		if waitBlk != nil {
			fam := map[ssa.Value]bool{}
			var grow func(v ssa.Value, d int)
			grow = func(v ssa.Value, d int) {
				if v == nil || fam[v] || d > 10 {
					return
				}
				switch x := v.(type) {
				case *ssa.Phi:
					fam[v] = true
					for _, e := range x.Edges {
						grow(e, d+1)
					}
				case *ssa.BinOp:
					if x.Op == token.ADD {
						fam[v] = true
						grow(x.X, d+1)
					}
				}
			}
			if isSkipCount(bo.X) {
				grow(bo.X, 0)
			}
			if isSkipCount(bo.Y) {
				grow(bo.Y, 0)
			}
			for v := range fam {
				if ph, ok := v.(*ssa.Phi); ok && ph.Parent() == pb && isSkipCountFamily(ph, fam) {
					if !(waitBlk.Dominates(ph.Block()) && waitBlk != ph.Block()) {
						r.fail(pname+"#skip-count-carried", p.IPos(bo), "the count of skipped blocks that decides whether the batch is repeated is not reset for each batch: after one fully skipped batch the comparison with the task count is off, so the loop ends with no data (reported as end of stream), keeps going over delivered data, or never ends")
						break
					}
				}
			}
		}
		// follow the comparison to the If it decides (directly, through !, or through a loop-flag phi)
		var visit func(v ssa.Value, pos bool, d int)
		seen := map[ssa.Value]bool{}
		visit = func(v ssa.Value, pos bool, d int) {
			if d > 4 || seen[v] {
				return
			}
			seen[v] = true
			for _, ref := range *v.Referrers() {
				switch x := ref.(type) {
				case *ssa.If:
					if x.Cond != v {
						continue
					}
					eqTrue := (bo.Op == token.EQL) == pos // v true <=> all skipped
					ipos := true
					var allSkipped, notAll *ssa.BasicBlock
					if eqTrue == ipos {
						allSkipped, notAll = x.Block().Succs[0], x.Block().Succs[1]
					} else {
						allSkipped, notAll = x.Block().Succs[1], x.Block().Succs[0]
					}
					if reachesGo(allSkipped) && !reachesGo(notAll) {
						refill = true
						r.ok(pname+" repeats the batch exactly when all tasks were skipped", p.IPos(x))
					}
				case *ssa.UnOp:
					if x.Op == token.NOT {
						visit(x, !pos, d+1)
					}
				case *ssa.BinOp:
					// v == true / v == false / v != true ...
					if x.Op == token.EQL || x.Op == token.NEQ {
						var c *ssa.Const
						if cc, ok := x.Y.(*ssa.Const); ok && x.X == v {
							c = cc
						} else if cc, ok := x.X.(*ssa.Const); ok && x.Y == v {
							c = cc
						}
						if c != nil && c.Value != nil && isBool(c.Type()) {
							same := (c.Value.String() == "true") == (x.Op == token.EQL)
							if same {
								visit(x, pos, d+1)
							} else {
								visit(x, !pos, d+1)
							}
						}
					}
				case *ssa.Phi:
					visit(x, pos, d+1)
				}
			}
		}
		visit(bo, true, 0)
	})
	if !refill {
		r.fail(pname+"#refill-all-skipped", p.Pos(pb.Pos()), "Reader.processBlock does not repeat the batch when (and only when) every task was skipped: a range starting beyond the first batch reads as end of stream, or decoded batches are dropped")
	}
	r.floor(1, len(a.skipStores), "skip exits")
}

func mirrorOp(op token.Token) token.Token {
	switch op {
	case token.LSS:
		return token.GTR
	case token.GTR:
		return token.LSS
	case token.LEQ:
		return token.GEQ
	case token.GEQ:
		return token.LEQ
	}
	return op
}

func negateOp(op token.Token) token.Token {
	switch op {
	case token.LSS:
		return token.GEQ
	case token.GEQ:
		return token.LSS
	case token.GTR:
		return token.LEQ
	case token.LEQ:
		return token.GTR
	case token.EQL:
		return token.NEQ
	case token.NEQ:
		return token.EQL
	}
	return op
}

// ctxKeyOfValue traces v back (typeassert, extract) to a constant-keyed context lookup.
func ctxKeyOfValue(v ssa.Value, d int) (string, bool) {
	if d > 6 {
		return "", false
	}
	switch x := v.(type) {
	case *ssa.TypeAssert:
		return ctxKeyOfValue(x.X, d+1)
	case *ssa.Extract:
		return ctxKeyOfValue(x.Tuple, d+1)
	case *ssa.Lookup:
		return ctxKey(x.X, x.Index)
	case *ssa.Convert:
		return ctxKeyOfValue(x.X, d+1)
	case *ssa.Phi:
		for _, e := range x.Edges {
			if k, ok := ctxKeyOfValue(e, d+1); ok {
				return k, true
			}
		}
	}
	return "", false
}

func ruleSkipRange(p *Prog, r *RuleResult) {
	a := analyseDecode(p)
	f := a.f
	fname := p.FnName(f)
	found := map[string]bool{}
	skipBlocks := map[*ssa.BasicBlock]bool{}
	for _, st := range a.skipStores {
		skipBlocks[st.Block()] = true
	}
	skipEdges := map[edge]bool{} // edges of the range tests (or of a range predicate helper) that lead to a skip
	isID := func(v ssa.Value) bool {
		for {
			if cv, ok := v.(*ssa.Convert); ok {
				v = cv.X
				continue
			}
			break
		}
		return a.s.isCurID(v)
	}
	// the bounds may reach the task through fields of the task literal: then the stored values are followed
	// into the function that fills the literal (parameters of a builder helper replaced by the call's arguments)
	inits := map[*types.Var][]ssa.Value{}
	builder, bcall := taskBuilder(p, a.s)
	resolve := func(v ssa.Value) ssa.Value {
		if pr, ok := v.(*ssa.Parameter); ok && builder != a.s.parent && bcall != nil {
			for i, q := range builder.Params {
				if q == pr && i < len(bcall.Common().Args) {
					return bcall.Common().Args[i]
				}
			}
		}
		return v
	}
	eachInstr(builder, func(i ssa.Instruction) {
		if sto, ok := i.(*ssa.Store); ok {
			if fa, ok := sto.Addr.(*ssa.FieldAddr); ok && namedOf(fa.X.Type()) == a.s.taskT {
				fv := fieldVarOfAddr(fa)
				inits[fv] = append(inits[fv], sto.Val)
			}
		}
	})
	// boundOrigin: the context key a compared value comes from, and whether it was narrowed on the way
	var boundOrigin func(v ssa.Value, d int) (string, bool, bool)
	boundOrigin = func(v ssa.Value, d int) (string, bool, bool) {
		if d > 10 || v == nil {
			return "", false, false
		}
		v = resolve(v)
		switch x := v.(type) {
		case *ssa.Convert:
			k, nar, ok := boundOrigin(x.X, d+1)
			if ok && typeBits(x.Type()) < typeBits(x.X.Type()) {
				nar = true
			}
			return k, nar, ok
		case *ssa.Phi:
			key, nar, any := "", false, false
			for _, e := range x.Edges {
				if k, n, ok := boundOrigin(e, d+1); ok {
					if any && k != key {
						return "", false, false
					}
					key, any = k, true
					nar = nar || n
				}
			}
			return key, nar, any
		case *ssa.UnOp:
			if fv := fieldVarOfLoad(x); fv != nil && fv != a.s.curID && len(inits[fv]) > 0 {
				key, nar, any := "", false, false
				for _, iv := range inits[fv] {
					if k, n, ok := boundOrigin(iv, d+1); ok {
						if any && k != key {
							return "", false, false
						}
						key, any = k, true
						nar = nar || n
					}
				}
				return key, nar, any
			}
			if al, ok := x.X.(*ssa.Alloc); ok && x.Op == token.MUL {
				// local cell (captured or address-taken variable): follow its stores
				key, nar, any := "", false, false
				for _, ref := range *al.Referrers() {
					if st, ok := ref.(*ssa.Store); ok && st.Addr == ssa.Value(al) {
						if k, n, ok := boundOrigin(st.Val, d+1); ok {
							if any && k != key {
								return "", false, false
							}
							key, any = k, true
							nar = nar || n
						}
					}
				}
				return key, nar, any
			}
		}
		if k, ok := ctxKeyOfValue(v, 0); ok {
			return k, false, true
		}
		return "", false, false
	}
	for _, b := range f.Blocks {
		ifi := blockIf(b)
		if ifi == nil {
			continue
		}
		atom, pos := condAtom(ifi.Cond)
		bo, ok := atom.(*ssa.BinOp)
		if !ok {
			continue
		}
		var key string
		var narrowed bool
		op := bo.Op
		if isID(bo.X) {
			key, narrowed, ok = boundOrigin(bo.Y, 0)
		} else if isID(bo.Y) {
			key, narrowed, ok = boundOrigin(bo.X, 0)
			op = mirrorOp(op)
		} else {
			continue
		}
		if !ok || (key != "from" && key != "to") {
			continue
		}
		if narrowed {
			r.fail(fmt.Sprintf("%s#range.%s.narrowed", fname, key), p.IPos(ifi), fmt.Sprintf("the bound ctx[%q] is converted to a narrower integer type before it is compared with the block id: a caller's bound of 2^31 or more (\"until the end\" is commonly MaxInt) wraps, and the range test skips or delivers the wrong blocks", key))
		}
		// which successor skips?
		tSucc, fSucc := b.Succs[succFor(pos, true)], b.Succs[succFor(pos, false)]
		var rel token.Token
		switch {
		case skipBlocks[tSucc] && !skipBlocks[fSucc]:
			rel = op
			skipEdges[edge{b, succFor(pos, true)}] = true
		case skipBlocks[fSucc] && !skipBlocks[tSucc]:
			rel = negateOp(op)
			skipEdges[edge{b, succFor(pos, false)}] = true
		default:
			r.fail(fmt.Sprintf("%s#range.%s", fname, key), p.IPos(ifi), fmt.Sprintf("the comparison of the block id with %q does not decide whether the block is skipped", key))
			found[key] = true
			continue
		}
		found[key] = true
		want := token.LSS
		if key == "to" {
			want = token.GEQ
		}
		if rel == want {
			r.ok(fmt.Sprintf("%s: skip iff id %s %s", fname, rel, key), p.IPos(ifi))
		} else {
			r.fail(fmt.Sprintf("%s#range.%s", fname, key), p.IPos(ifi), fmt.Sprintf("a block is skipped iff id %s %s; the half-open range [from,to) requires id %s %s: the first/last block of the range is dropped or an extra one delivered", rel, key, want, key))
		}
	}
	for _, key := range []string{"from", "to"} {
		if !found[key] {
			// the range test may have been extracted into a predicate helper: then the operators are checked there
			// against the helper's boolean result (true = skip)
			if rel, okh := skipPredicateRelation(p, a, key); okh {
				want := token.LSS
				if key == "to" {
					want = token.GEQ
				}
				found[key] = true
				if rel == want {
					r.ok(fmt.Sprintf("%s: skip predicate helper returns true iff id %s %s", fname, rel, key), p.Pos(f.Pos()))
				} else {
					r.fail(fmt.Sprintf("%s#range.%s", fname, key), p.Pos(f.Pos()), fmt.Sprintf("the skip predicate returns true iff id %s %s; the half-open range [from,to) requires id %s %s", rel, key, want, key))
				}
				continue
			}
			r.fail(fmt.Sprintf("%s#range.%s", fname, key), p.Pos(f.Pos()), fmt.Sprintf("decode never compares the block id with ctx[%q]", key))
		}
	}
	// converse: a block is marked skipped only because a range test said so. Every way to a store of the skipped flag
	// crosses a skip edge of a range comparison (or the true edge of a same-package predicate over the block id).
	for _, b := range f.Blocks {
		if ifi := blockIf(b); ifi != nil {
			atom, pos := condAtom(ifi.Cond)
			if c, ok := atom.(*ssa.Call); ok {
				if h := c.Call.StaticCallee(); h != nil && h.Blocks != nil && FnPkg(h) == FnPkg(f) && skipBlocks[b.Succs[succFor(pos, true)]] {
					if _, _, okb := boolReturns(h); okb {
						skipEdges[edge{b, succFor(pos, true)}] = true
					}
				}
			}
		}
	}
	if len(skipEdges) > 0 {
		live := reach(f.Blocks[0], skipEdges, nil)
		for _, st := range a.skipStores {
			if live[st.Block()] {
				r.fail(fmt.Sprintf("%s#skip-without-range-test", fname), p.IPos(st), "a block can be marked as skipped on a path that passes no comparison of its id with the from/to bounds: the reader drops the block silently (nothing is delivered for it, its checksum is never verified) – a damaged or forged field makes a whole block disappear from the output without an error")
			} else {
				r.ok(fname+": the skipped flag is set only behind a range test", p.IPos(st))
			}
		}
	}
	r.floor(2, len(found), "range comparisons (from, to)")
}

func ruleStale(p *Prog, r *RuleResult) {
	a := analyseDecode(p)
	f := a.f
	s := a.s
	fname := p.FnName(f)
	if a.inv == nil {
		undecided("anchor unresolved: Inverse call in %s", fname)
	}
	// slot(v): v is a load of <task>.<bufField>.Buf ; returns the buffer field name
	slotOfAddr := func(addr ssa.Value) string {
		fa, ok := addr.(*ssa.FieldAddr)
		if !ok {
			return ""
		}
		fv := fieldVarOfAddr(fa)
		if fv == nil {
			return ""
		}
		if _, ok := fv.Type().Underlying().(*types.Slice); !ok {
			return ""
		}
		if outer := fieldVarOfLoad(fa.X); outer != nil {
			if n := namedOf(fa.X.Type()); n != nil && n.Obj().Name() == "blockBuffer" || true {
				return outer.Name()
			}
		}
		return ""
	}
	n := 0
	check := func(v ssa.Value, wantSlot string, use ssa.Instruction, what string) {
		seen := map[ssa.Value]bool{}
		var walk func(v ssa.Value)
		walk = func(v ssa.Value) {
			if seen[v] {
				return
			}
			seen[v] = true
			switch x := v.(type) {
			case *ssa.Phi:
				for _, e := range x.Edges {
					walk(e)
				}
			case *ssa.Slice:
				walk(x.X)
			case *ssa.MakeSlice:
				n++
				stored := false
				for _, ref := range *x.Referrers() {
					if st, ok := ref.(*ssa.Store); ok && st.Val == ssa.Value(x) && slotOfAddr(st.Addr) == wantSlot && st.Block() == x.Block() {
						stored = true
					}
				}
				key := fmt.Sprintf("%s#realloc.%s", fname, wantSlot)
				if stored {
					r.ok(fmt.Sprintf("%s stored back into %s.Buf before %s", key, wantSlot, what), p.IPos(x))
				} else {
					r.fail(key, p.IPos(x), fmt.Sprintf("a freshly allocated buffer reaches %s but is not stored back into %s.Buf: the parent (and the result published by the exit handler) keep the abandoned buffer and deliver stale bytes", what, wantSlot))
				}
			case *ssa.UnOp:
				if x.Op == token.MUL && slotOfAddr(x.X) == wantSlot {
					n++
					r.ok(fmt.Sprintf("%s#initial.%s: %s starts from the shared slot", fname, wantSlot, what), p.IPos(x))
				} else if x.Op == token.MUL && slotOfAddr(x.X) != "" {
					r.fail(fmt.Sprintf("%s#slot.%s", fname, wantSlot), p.IPos(x), fmt.Sprintf("%s uses the buffer slot %s instead of %s", what, slotOfAddr(x.X), wantSlot))
				}
			}
		}
		walk(v)
	}
	// which slot does the exit handler publish?
	pubSlot := ""
	if s.deferred != nil {
		eachInstr(s.deferred, func(i ssa.Instruction) {
			st, ok := i.(*ssa.Store)
			if !ok {
				return
			}
			fv := fieldVarOfAddr(st.Addr)
			if fv == nil || namedOf(st.Addr.(*ssa.FieldAddr).X.Type()) != s.resT {
				return
			}
			if _, ok := fv.Type().Underlying().(*types.Slice); !ok {
				return
			}
			if u, ok := st.Val.(*ssa.UnOp); ok && u.Op == token.MUL {
				pubSlot = slotOfAddr(u.X)
				if pubSlot != "" {
					r.ok(fmt.Sprintf("%s publishes the result from a fresh load of %s.Buf", p.FnName(s.deferred), pubSlot), p.IPos(i))
					n++
				}
			}
			if pubSlot == "" {
				r.fail(p.FnName(s.deferred)+"#publish", p.IPos(i), "the exit handler publishes the result buffer from a value captured earlier instead of re-loading the shared slot: a buffer re-allocated by the task is lost")
			}
		})
	}
	if pubSlot == "" {
		if len(r.Findings) == 0 {
			r.fail(fname+"#publish", p.Pos(f.Pos()), "no publication of the decoded buffer found in the exit handler")
		}
		r.floor(1, n, "buffer origins")
		return
	}
	dst := a.inv.Call.Args[len(a.inv.Call.Args)-1]
	check(dst, pubSlot, a.inv, "the destination of Inverse")
	// entropy decoder destination uses the other slot, consistently
	for _, c := range a.decodeCall {
		if c.Call.IsInvoke() && c.Call.Method.Name() == "Read" {
			// find its slot from the initial load
			arg := c.Call.Args[0]
			slot := ""
			var find func(v ssa.Value, d int)
			find = func(v ssa.Value, d int) {
				if d > 6 {
					return
				}
				switch x := v.(type) {
				case *ssa.Phi:
					for _, e := range x.Edges {
						find(e, d+1)
					}
				case *ssa.Slice:
					find(x.X, d+1)
				case *ssa.UnOp:
					if x.Op == token.MUL && slotOfAddr(x.X) != "" {
						slot = slotOfAddr(x.X)
					}
				}
			}
			find(arg, 0)
			if slot != "" {
				check(arg, slot, c, "the destination of the entropy decoder")
			}
		}
	}
	r.floor(3, n, "buffer origins (initial loads, re-allocations, publication)")
}

// returnsSharedReadBits: every return of helper h yields a value read with ReadBits from the shared stream.
func returnsSharedReadBits(s *taskSide, h *ssa.Function) bool {
	if h.Signature.Results().Len() != 1 {
		return false
	}
	ok := false
	for _, b := range h.Blocks {
		ret, isRet := b.Instrs[len(b.Instrs)-1].(*ssa.Return)
		if !isRet || b == h.Recover {
			continue
		}
		c, isCall := rvals(ret)[0].(*ssa.Call)
		if !isCall || !c.Call.IsInvoke() || c.Call.Method.Name() != "ReadBits" || fieldVarOfLoad(c.Call.Value) != s.stream {
			return false
		}
		ok = true
	}
	return ok
}

// helperUses: helper call i (a lifted shared-stream use) reaches an invoke of the named method on the shared stream.
func helperUses(p *Prog, s *taskSide, i ssa.Instruction, method string) bool {
	h := helperCallee(i, FnPkg(i.Parent()))
	if h == nil {
		return false
	}
	memo := map[*ssa.Function]int{}
	return p.containsDeep(h, func(j ssa.Instruction) bool {
		c := callOf(j)
		return c != nil && c.IsInvoke() && c.Method.Name() == method && fieldVarOfLoad(c.Value) == s.stream
	}, memo)
}

// skipPredicateRelation: decode tests a bool helper whose true edge marks the block skipped; inside the helper the
// comparison of the block id with ctx[key] leads to `return true` on one edge. Returns the relation id <rel> bound that
// holds when the helper returns true.
func skipPredicateRelation(p *Prog, a *decodeAnatomy, key string) (token.Token, bool) {
	f := a.f
	skipBlocks := map[*ssa.BasicBlock]bool{}
	for _, st := range a.skipStores {
		skipBlocks[st.Block()] = true
	}
	for _, b := range f.Blocks {
		ifi := blockIf(b)
		if ifi == nil {
			continue
		}
		atom, pos := condAtom(ifi.Cond)
		c, ok := atom.(*ssa.Call)
		if !ok {
			continue
		}
		h := c.Call.StaticCallee()
		if h == nil || h.Blocks == nil || FnPkg(h) != FnPkg(f) || !skipBlocks[b.Succs[succFor(pos, true)]] {
			continue
		}
		trues, _, okb := boolReturns(h)
		if !okb {
			continue
		}
		isID := func(v ssa.Value) bool {
			for {
				if cv, ok := v.(*ssa.Convert); ok {
					v = cv.X
					continue
				}
				break
			}
			return a.s.isCurID(v)
		}
		for _, hb := range h.Blocks {
			hi := blockIf(hb)
			if hi == nil {
				continue
			}
			hatom, hpos := condAtom(hi.Cond)
			bo, ok := hatom.(*ssa.BinOp)
			if !ok {
				continue
			}
			op := bo.Op
			var k string
			var okk bool
			if isID(bo.X) {
				k, okk = ctxKeyOfValue(bo.Y, 0)
			} else if isID(bo.Y) {
				k, okk = ctxKeyOfValue(bo.X, 0)
				op = mirrorOp(op)
			}
			if !okk || k != key {
				continue
			}
			// which edge leads to `return true` (exclusively)?
			tS, fS := hb.Succs[succFor(hpos, true)], hb.Succs[succFor(hpos, false)]
			leadsTrue := func(start *ssa.BasicBlock) bool {
				for _, t := range trues {
					if t.Block() == start {
						return true
					}
				}
				return false
			}
			switch {
			case leadsTrue(tS) && !leadsTrue(fS):
				return op, true
			case leadsTrue(fS) && !leadsTrue(tS):
				return negateOp(op), true
			}
		}
	}
	return token.ILLEGAL, false
}

// isSkipCountFamily: ph is one of the phis through which a +1 counter circulates (it has an edge from the family)
func isSkipCountFamily(ph *ssa.Phi, fam map[ssa.Value]bool) bool {
	for _, e := range ph.Edges {
		if fam[e] {
			return true
		}
	}
	return false
}

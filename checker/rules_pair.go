package main

import (
	"fmt"
	"os"
	"go/token"
	"go/types"
	"sort"
	"strings"

	"golang.org/x/tools/go/ssa"
)

// ---------------------------------------------------------------------------------------
// R-PAYLOAD-MIRROR: encoder and decoder of a static-model entropy codec agree on when a chunk has a payload
// ---------------------------------------------------------------------------------------
//
// The static-model codecs (Huffman, ANS, Range) write a statistics header per chunk and then, depending on the number of
// distinct symbols (and, for ANS, the order), a payload - or nothing, when the header alone determines the chunk. The two
// sides decide this independently. The values involved are touched only through comparisons with small constants, so
// the decision is a finite table: for alphabetSize in {1, 2, 3} x order in {0, 1} the rule walks the rest of the chunk
// iteration after the header call on both sides, following only the branch a comparison of those two quantities selects
// (both branches of every other test, the error branch of the header call never), and asks whether any bitstream
// operation is reachable. The tables must be equal.

func init() {
	register("R-PAYLOAD-MIRROR", "for the static-model entropy codecs the encoder emits payload bits for a chunk exactly in the cases (number of symbols, order) in which the decoder consumes payload bits", false, rulePayloadMirror)
}

type hdrSite struct {
	fn   *ssa.Function
	call *ssa.Call
	aVal ssa.Value // the symbol count returned by the header call
	errV ssa.Value // its error result (may be nil)
}

func bitstreamOpDeep(p *Prog, memo map[*ssa.Function]int) func(ssa.Instruction) bool {
	return func(i ssa.Instruction) bool {
		c := callOf(i)
		if c == nil {
			return false
		}
		_, ok := isBitstreamOp(p, c)
		return ok
	}
}

// headerSites: calls in a loop of f to a same-package function that (transitively) performs bitstream operations and
// returns an integer first (the number of symbols of the chunk)
func headerSites(p *Prog, f *ssa.Function, anywhere bool) []hdrSite {
	var out []hdrSite
	memo := map[*ssa.Function]int{}
	pred := bitstreamOpDeep(p, memo)
	eachInstr(f, func(i ssa.Instruction) {
		c, ok := i.(*ssa.Call)
		if !ok || (!anywhere && !inCycle(c.Block())) {
			return
		}
		h := helperCallee(i, FnPkg(f))
		if os.Getenv("KZ_PAIR_DEBUG") != "" && h != nil {
			fmt.Fprintf(os.Stderr, "PAIR %s: call %s deep=%v results=%s\n", f.Name(), h.Name(), p.containsDeep(h, pred, memo), h.Signature.Results())
		}
		if h == nil || !p.containsDeep(h, pred, memo) {
			return
		}
		// the shape of a statistics header: (number of symbols, error)
		res := h.Signature.Results()
		if res.Len() != 2 || !isErrType(res.At(1).Type()) {
			return
		}
		if b, ok := res.At(0).Type().Underlying().(*types.Basic); !ok || b.Kind() != types.Int {
			return
		}
		s := hdrSite{fn: f, call: c}
		if res.Len() == 1 {
			s.aVal = c
		} else {
			for _, ref := range *c.Referrers() {
				if ex, ok := ref.(*ssa.Extract); ok {
					if ex.Index == 0 {
						s.aVal = ex
					} else if isErrType(ex.Type()) {
						s.errV = ex
					}
				}
			}
		}
		if s.aVal != nil {
			out = append(out, s)
		}
	})
	return out
}

// payloadReachable: with the symbol count a and the order o, can the rest of the iteration after the header call reach a
// bitstream operation?
func payloadReachable(p *Prog, s hdrSite, orderF *types.Var, a, o int64) bool {
	memo := map[*ssa.Function]int{}
	pred := bitstreamOpDeep(p, memo)
	f := s.fn
	hb := s.call.Block()
	isPayload := func(i ssa.Instruction) bool {
		if i == ssa.Instruction(s.call) {
			return false
		}
		if pred(i) {
			return true
		}
		if h := helperCallee(i, FnPkg(f)); h != nil && p.containsDeep(h, pred, memo) {
			return true
		}
		return false
	}
	evalAtom := func(cond ssa.Value) (bool, bool) {
		neg := false
		for {
			u, ok := cond.(*ssa.UnOp)
			if !ok || u.Op != token.NOT {
				break
			}
			cond = u.X
			neg = !neg
		}
		bo, ok := cond.(*ssa.BinOp)
		if !ok {
			return false, false
		}
		// the error of the header call: never taken
		if x, succ, ok := nilTest(cond); ok && s.errV != nil && stripConv(x) == s.errV {
			_ = succ
			// nilTest returns the successor index on which x != nil; we answer "x != nil is false"
			res := bo.Op == token.EQL // cond true iff x == nil
			if neg {
				res = !res
			}
			return res, true
		}
		c, okc := constInt(bo.Y)
		if !okc {
			return false, false
		}
		var v int64
		switch {
		case stripConv(bo.X) == s.aVal:
			v = a
		case orderF != nil && fieldVarOfLoad(stripConv(bo.X)) == orderF:
			v = o
		default:
			return false, false
		}
		var res bool
		switch bo.Op {
		case token.EQL:
			res = v == c
		case token.NEQ:
			res = v != c
		case token.LSS:
			res = v < c
		case token.LEQ:
			res = v <= c
		case token.GTR:
			res = v > c
		case token.GEQ:
			res = v >= c
		default:
			return false, false
		}
		if neg {
			res = !res
		}
		return res, true
	}
	seen := map[*ssa.BasicBlock]bool{}
	var walk func(b *ssa.BasicBlock, from int) bool
	walk = func(b *ssa.BasicBlock, from int) bool {
		for k := from; k < len(b.Instrs); k++ {
			if isPayload(b.Instrs[k]) {
				return true
			}
		}
		last := b.Instrs[len(b.Instrs)-1]
		if _, ok := last.(*ssa.Return); ok {
			return false
		}
		succs := b.Succs
		if ifi, ok := last.(*ssa.If); ok {
			if v, ok := evalAtom(ifi.Cond); ok {
				if v {
					succs = b.Succs[:1]
				} else {
					succs = b.Succs[1:2]
				}
			}
		}
		for _, sc := range succs {
			// the next iteration starts where a block that dominates the header call is entered again
			if sc.Dominates(hb) || seen[sc] {
				continue
			}
			seen[sc] = true
			if walk(sc, 0) {
				return true
			}
		}
		return false
	}
	return walk(hb, instrIndex(s.call)+1)
}

func rulePayloadMirror(p *Prog, r *RuleResult) {
	pk := p.Pkg("entropy")
	if pk == nil {
		undecided("anchor unresolved: package entropy")
	}
	var prefixes []string
	for name := range pk.Members {
		if strings.HasSuffix(name, "Encoder") {
			pre := strings.TrimSuffix(name, "Encoder")
			if _, ok := pk.Members[pre+"Decoder"]; ok {
				prefixes = append(prefixes, pre)
			}
		}
	}
	sort.Strings(prefixes)
	npairs := 0
	for _, pre := range prefixes {
		fe := p.MethodOpt("entropy", pre+"Encoder", "Write")
		fd := p.MethodOpt("entropy", pre+"Decoder", "Read")
		if fe == nil || fd == nil {
			continue
		}
		// the chunk loop may live in the method itself or in a helper it dispatches to (per stream version)
		firstOnly := func(in []hdrSite) []hdrSite {
			var out []hdrSite
			for _, s := range in {
				dominated := false
				for _, t := range in {
					if t.call != s.call && t.fn == s.fn && instrDominates(t.call, s.call) {
						dominated = true
					}
				}
				if !dominated {
					out = append(out, s)
				}
			}
			return out
		}
		sitesOf := func(f *ssa.Function) []hdrSite {
			if out := firstOnly(headerSites(p, f, false)); len(out) > 0 {
				return out
			}
			// one level down: the methods f dispatches to (their own chunk loop), or the method that holds the body of
			// f's chunk loop (called from inside a loop of f: then the whole helper is one iteration)
			var out []hdrSite
			eachInstr(f, func(i ssa.Instruction) {
				if h := helperCallee(i, FnPkg(f)); h != nil && h.Signature.Recv() != nil && namedOf(h.Signature.Recv().Type()) == namedOf(f.Signature.Recv().Type()) {
					out = append(out, firstOnly(headerSites(p, h, inCycle(i.Block())))...)
				}
			})
			return out
		}
		se, sd := sitesOf(fe), sitesOf(fd)
		if len(se) == 0 || len(sd) == 0 {
			r.info(fmt.Sprintf("entropy.%sEncoder/%sDecoder: no per-chunk statistics header call on both sides – not a static-model codec, nothing to mirror", pre, pre), p.Pos(fe.Pos()))
			continue
		}
		// the order field, when both types have one
		orderOf := func(f *ssa.Function) *types.Var {
			st, ok := derefType(f.Params[0].Type()).Underlying().(*types.Struct)
			if !ok {
				return nil
			}
			for i := 0; i < st.NumFields(); i++ {
				if st.Field(i).Name() == "order" && isIntType(st.Field(i).Type()) {
					return st.Field(i)
				}
			}
			return nil
		}
		oe, od := orderOf(fe), orderOf(fd)
		orders := []int64{0}
		if oe != nil && od != nil {
			orders = []int64{0, 1}
		}
		npairs++
		bad := false
		for _, e := range se {
			for _, d := range sd {
				for _, a := range []int64{1, 2, 3} {
					for _, o := range orders {
						pe := payloadReachable(p, e, oe, a, o)
						pd := payloadReachable(p, d, od, a, o)
						if pe == pd {
							continue
						}
						bad = true
						key := fmt.Sprintf("entropy.%s#symbols=%d.order=%d", pre, a, o)
						if pe {
							r.fail(key, p.IPos(e.call), fmt.Sprintf("for a chunk with %d distinct symbol(s) (order %d) the %s encoder can emit bits after the chunk header (%s) but the decoder (%s) consumes none: every following field of the stream is read from the wrong position", a, o, pre, p.IPos(e.call), p.IPos(d.call)))
						} else {
							r.fail(key, p.IPos(e.call), fmt.Sprintf("for a chunk with %d distinct symbol(s) (order %d) the %s encoder emits nothing after the chunk header (%s) but the decoder (%s) goes on to read a payload: it decodes bits that belong to what follows", a, o, pre, p.IPos(e.call), p.IPos(d.call)))
						}
					}
				}
			}
		}
		if !bad {
			r.ok(fmt.Sprintf("entropy.%s: encoder (%d header site(s)) and decoder (%d) agree on which chunks carry a payload, for 1..3 symbols x order %v", pre, len(se), len(sd), orders), p.Pos(fe.Pos()))
		}
	}
	r.floor(3, npairs, "static-model encoder/decoder pairs")
}

// ---------------------------------------------------------------------------------------
// R-CHUNK-STATE: state carried from one chunk to the next agrees between encoder and decoder
// ---------------------------------------------------------------------------------------

func init() {
	register("R-CHUNK-STATE", "encoder and decoder of an entropy codec carry the same kinds of local state from one chunk of a block to the next (what one side re-initialises per chunk, the other does too)", false, ruleChunkState)
}

// chunkLoopCarried: the types of the values carried around the outermost loop of f that contains a bitstream operation
// (phis of its header), as a sorted list
func chunkLoopCarried(p *Prog, f *ssa.Function) ([]string, *ssa.BasicBlock) {
	memo := map[*ssa.Function]int{}
	pred := bitstreamOpDeep(p, memo)
	hasOp := func(b *ssa.BasicBlock) bool {
		for _, in := range b.Instrs {
			if pred(in) {
				return true
			}
			if h := helperCallee(in, FnPkg(f)); h != nil && p.containsDeep(h, pred, memo) {
				return true
			}
		}
		return false
	}
	// loop headers: blocks with a predecessor they dominate
	var best *ssa.BasicBlock
	for _, b := range f.Blocks {
		isHeader := false
		for _, pr := range b.Preds {
			if b.Dominates(pr) {
				isHeader = true
			}
		}
		if !isHeader {
			continue
		}
		body := map[*ssa.BasicBlock]bool{}
		for x := range reach(b, nil, nil) {
			if b.Dominates(x) && reach(x, nil, nil)[b] {
				body[x] = true
			}
		}
		ops := false
		for x := range body {
			if hasOp(x) {
				ops = true
			}
		}
		if !ops {
			continue
		}
		// outermost: not dominated by another qualifying header that contains it -> take the one with the smallest index
		if best == nil || b.Dominates(best) {
			best = b
		}
	}
	if best == nil {
		return nil, nil
	}
	// only coder state counts: carried values that derive from a field of the receiver (a model slot selected before
	// the loop and kept across chunks); cursors over the caller's block are each side's own business
	this := ssa.Value(nil)
	if len(f.Params) > 0 {
		this = f.Params[0]
	}
	var fieldOf func(v ssa.Value, d int) string
	fieldOf = func(v ssa.Value, d int) string {
		if v == nil || d > 8 {
			return ""
		}
		switch x := v.(type) {
		case *ssa.FieldAddr:
			if x.X == this {
				if fv := fieldVarOfAddr(x); fv != nil {
					return fv.Name()
				}
			}
			return fieldOf(x.X, d+1)
		case *ssa.UnOp:
			return fieldOf(x.X, d+1)
		case *ssa.IndexAddr:
			return fieldOf(x.X, d+1)
		case *ssa.Index:
			return fieldOf(x.X, d+1)
		case *ssa.Slice:
			return fieldOf(x.X, d+1)
		case *ssa.Convert:
			return fieldOf(x.X, d+1)
		case *ssa.ChangeType:
			return fieldOf(x.X, d+1)
		case *ssa.Phi:
			for _, e := range x.Edges {
				if n := fieldOf(e, d+1); n != "" {
					return n
				}
			}
		}
		return ""
	}
	var out []string
	for _, in := range best.Instrs {
		ph, ok := in.(*ssa.Phi)
		if !ok {
			break
		}
		for pi, pr := range best.Preds {
			if best.Dominates(pr) {
				continue // back edge
			}
			if n := fieldOf(ph.Edges[pi], 0); n != "" {
				out = append(out, n)
			}
		}
	}
	sort.Strings(out)
	return out, best
}

func ruleChunkState(p *Prog, r *RuleResult) {
	pk := p.Pkg("entropy")
	if pk == nil {
		undecided("anchor unresolved: package entropy")
	}
	var prefixes []string
	for name := range pk.Members {
		if strings.HasSuffix(name, "Encoder") {
			pre := strings.TrimSuffix(name, "Encoder")
			if _, ok := pk.Members[pre+"Decoder"]; ok {
				prefixes = append(prefixes, pre)
			}
		}
	}
	sort.Strings(prefixes)
	n := 0
	for _, pre := range prefixes {
		fe := p.MethodOpt("entropy", pre+"Encoder", "Write")
		fd := p.MethodOpt("entropy", pre+"Decoder", "Read")
		if fe == nil || fd == nil {
			continue
		}
		ce, he := chunkLoopCarried(p, fe)
		cd, hd := chunkLoopCarried(p, fd)
		if he == nil || hd == nil {
			r.info(fmt.Sprintf("entropy.%s: no chunk loop with bitstream operations on both sides", pre), p.Pos(fe.Pos()))
			continue
		}
		n++
		if strings.Join(ce, ",") == strings.Join(cd, ",") {
			r.ok(fmt.Sprintf("entropy.%s: both sides carry the same coder state from chunk to chunk (%v)", pre, ce), p.Pos(fe.Pos()))
		} else {
			r.fail(fmt.Sprintf("entropy.%s#carried-state", pre), p.Pos(fe.Pos()), fmt.Sprintf("the encoder carries coder state %v from one chunk to the next, the decoder %v: one side keeps a piece of coder state across the chunk boundary that the other side re-initialises, so the two models drift apart after the first chunk", ce, cd))
		}
	}
	r.floor(3, n, "entropy encoder/decoder pairs with a chunk loop")
}

package main

import (
	"fmt"
	"go/token"
	"go/types"
	"sort"
	"strings"

	"golang.org/x/tools/go/ssa"
)

// ---------------------------------------------------------------------------------------
// Containment: R-GOREC, R-PANIC-API, R-CLI-REC
// ---------------------------------------------------------------------------------------

func init() {
	register("R-GOREC", "every goroutine started by a library package installs a recover() handler at its entry, before anything can panic", false, ruleGoRec)
	register("R-PANIC-API", "no declared panicking bitstream operation or explicit panic is reachable from the exported Writer/Reader API (or an app worker goroutine) without crossing a frame that recovers", false, rulePanicAPI)
	register("R-CLI-REC", "the CLI runs Compress()/Decompress() only inside runWithRecovery", false, ruleCliRec)
}

// recoveringDefers returns the Defer instructions of f whose deferred function contains recover().
func recoveringDefers(f *ssa.Function) []*ssa.Defer {
	var out []*ssa.Defer
	eachInstr(f, func(i ssa.Instruction) {
		d, ok := i.(*ssa.Defer)
		if !ok {
			return
		}
		var target *ssa.Function
		switch v := d.Call.Value.(type) {
		case *ssa.MakeClosure:
			target = v.Fn.(*ssa.Function)
		case *ssa.Function:
			target = v
		}
		if target != nil && target.Blocks != nil && containsRecover(target) {
			out = append(out, d)
		}
	})
	return out
}

// entryGuard returns the recovering defer of f that sits in the entry block and is preceded by no
// instruction that can panic (only allocations, stores of parameters, field address computations,
// closures and other defers), or nil.
func entryGuard(f *ssa.Function) *ssa.Defer {
	if len(f.Blocks) == 0 {
		return nil
	}
	rec := map[*ssa.Defer]bool{}
	for _, d := range recoveringDefers(f) {
		rec[d] = true
	}
	for _, in := range f.Blocks[0].Instrs {
		switch x := in.(type) {
		case *ssa.Defer:
			if rec[x] {
				return x
			}
			// another defer (e.g. wg.Done): registering it cannot panic
		case *ssa.Alloc, *ssa.Store, *ssa.MakeClosure, *ssa.FieldAddr, *ssa.DebugRef, *ssa.UnOp, *ssa.Phi, *ssa.Convert, *ssa.ChangeType, *ssa.IndexAddr, *ssa.Slice, *ssa.BinOp, *ssa.MakeInterface:
			// loads of fields of the receiver can fault on a nil receiver only; tasks are built by the parent
		case *ssa.Call:
			// a call that can neither panic nor do anything (trace hook) does not delay the guard
			if !trivialFn(x.Call.StaticCallee(), 0) {
				return nil
			}
		default:
			return nil
		}
	}
	return nil
}

func isLibRel(rel string) bool {
	return rel != "app" && rel != "benchmark" && rel != "?"
}

func ruleGoRec(p *Prog, r *RuleResult) {
	nlib := 0
	var k keyer
	for _, f := range p.ModFns {
		rel := p.Rel(f)
		if !isLibRel(rel) {
			continue
		}
		eachInstr(f, func(i ssa.Instruction) {
			g, ok := i.(*ssa.Go)
			if !ok {
				return
			}
			nlib++
			var target *ssa.Function
			switch v := g.Call.Value.(type) {
			case *ssa.MakeClosure:
				target = v.Fn.(*ssa.Function)
			case *ssa.Function:
				target = v
			}
			if target == nil {
				target = g.Call.StaticCallee()
			}
			key := k.key(p.FnName(f), "go")
			if target == nil || target.Blocks == nil {
				r.fail(key, p.IPos(g), "go statement with a dynamic callee: cannot establish that the goroutine recovers")
				return
			}
			if d := entryGuard(target); d != nil {
				r.ok(fmt.Sprintf("%s -> %s recovers at entry", key, p.FnName(target)), p.IPos(g))
				checkWorkerSends(p, r, key, g, target)
				// a separately deferred WaitGroup.Done must be registered before the recovering handler (defers run
				// last-in first-out): otherwise the parent passes Wait while the handler is still publishing the failure
				eachInstr(target, func(i ssa.Instruction) {
					df, ok := i.(*ssa.Defer)
					if !ok || !isMethodNamed(&df.Call, "sync", "WaitGroup", "Done") {
						return
					}
					if instrDominates(df, d) {
						r.ok(key+": Done is registered before the recovering handler (runs after it)", p.IPos(df))
					} else {
						r.fail(key+"#done-before-handler", p.IPos(df), "WaitGroup.Done is deferred after the recovering handler, so it runs first: the parent passes Wait and reads the worker's result slot while the handler is still writing it (data race; a failure can be read as success)")
					}
				})
				return
			}
			r.fail(key, p.IPos(g), fmt.Sprintf("goroutine %s installs no recover() handler at its entry: a panic raised while it processes (possibly forged) data terminates the whole process", p.FnName(target)))
		})
	}
	r.floor(2, nlib, "go statements in library packages")
}

// declared panicking operations of the bitstream interfaces
var bitstreamPanicOps = map[string]bool{"ReadBit": true, "ReadBits": true, "ReadArray": true, "WriteBit": true, "WriteBits": true, "WriteArray": true}

func isBitstreamOp(p *Prog, c *ssa.CallCommon) (string, bool) {
	o := calleeObj(c)
	if o == nil || !bitstreamPanicOps[o.Name()] {
		return "", false
	}
	sig := o.Type().(*types.Signature)
	if sig.Recv() == nil {
		return "", false
	}
	n := namedOf(sig.Recv().Type())
	if n == nil || n.Obj().Pkg() == nil {
		return "", false
	}
	path := n.Obj().Pkg().Path()
	if path == p.ModPath && (n.Obj().Name() == "InputBitStream" || n.Obj().Name() == "OutputBitStream") {
		return n.Obj().Name() + "." + o.Name(), true
	}
	if path == p.ModPath+"/bitstream" {
		return n.Obj().Name() + "." + o.Name(), true
	}
	return "", false
}

type panicSite struct {
	fn   *ssa.Function
	in   ssa.Instruction
	what string
	root string
}

// unprotectedPanics walks the call graph from root; calls made after a recovering defer was registered
// in the same frame are protected and not followed.
func unprotectedPanics(p *Prog, root *ssa.Function, rootName string, seen map[*ssa.Function]bool, out *[]panicSite) {
	if seen[root] || root.Blocks == nil {
		return
	}
	seen[root] = true
	if !p.InModule(root) {
		return
	}
	if p.Rel(root) == "bitstream" {
		// the bitstream implementation is where the declared panics are raised; its call sites are the reports
		return
	}
	guards := recoveringDefers(root)
	protected := func(i ssa.Instruction) bool {
		for _, g := range guards {
			if instrDominates(g, i) {
				return true
			}
		}
		return false
	}
	for _, b := range root.Blocks {
		for _, in := range b.Instrs {
			if pi, ok := in.(*ssa.Panic); ok {
				if isSyntheticSelectPanic(pi) {
					continue // unreachable arm that go/ssa emits when lowering a select statement
				}
				if !protected(in) {
					*out = append(*out, panicSite{root, in, "panic", rootName})
				}
				continue
			}
			if _, ok := in.(*ssa.Go); ok {
				continue // new goroutine: R-GOREC
			}
			ci, ok := in.(ssa.CallInstruction)
			if !ok {
				continue
			}
			if protected(in) {
				continue
			}
			if what, ok := isBitstreamOp(p, ci.Common()); ok {
				*out = append(*out, panicSite{root, in, what, rootName})
				continue
			}
			for _, callee := range p.Callees(ci) {
				unprotectedPanics(p, callee, rootName, seen, out)
			}
		}
	}
}

func exportedMethods(p *Prog, rel, typ string) []*ssa.Function {
	pk := p.Pkg(rel)
	t := pk.Type(typ)
	if t == nil {
		undecided("anchor unresolved: type %s.%s", rel, typ)
	}
	var out []*ssa.Function
	ms := p.SSA.MethodSets.MethodSet(types.NewPointer(t.Type()))
	for i := 0; i < ms.Len(); i++ {
		sel := ms.At(i)
		if !sel.Obj().Exported() {
			continue
		}
		if fn, ok := sel.Obj().(*types.Func); ok {
			if f := p.SSA.FuncValue(fn); f != nil && f.Blocks != nil {
				out = append(out, f)
			}
		}
	}
	sort.Slice(out, func(i, j int) bool { return out[i].Name() < out[j].Name() })
	return out
}

func rulePanicAPI(p *Prog, r *RuleResult) {
	type rootT struct {
		f    *ssa.Function
		name string
	}
	var roots []rootT
	for _, typ := range []string{"Writer", "Reader"} {
		for _, f := range exportedMethods(p, "io", typ) {
			roots = append(roots, rootT{f, p.FnName(f)})
		}
	}
	nAPI := len(roots)
	// app worker goroutines
	for _, f := range p.ModFns {
		if p.Rel(f) != "app" {
			continue
		}
		eachInstr(f, func(i ssa.Instruction) {
			if g, ok := i.(*ssa.Go); ok {
				if t := g.Call.StaticCallee(); t != nil {
					roots = append(roots, rootT{t, "go " + p.FnName(t)})
				} else if mc, ok := g.Call.Value.(*ssa.MakeClosure); ok {
					roots = append(roots, rootT{mc.Fn.(*ssa.Function), "go " + p.FnName(mc.Fn.(*ssa.Function))})
				}
			}
		})
	}
	reported := map[ssa.Instruction]bool{}
	var k keyer
	for _, rt := range roots {
		var sites []panicSite
		seen := map[*ssa.Function]bool{}
		unprotectedPanics(p, rt.f, rt.name, seen, &sites)
		nfn := 0
		for f := range seen {
			if p.InModule(f) {
				nfn++
			}
		}
		nnew := 0
		for _, s := range sites {
			if reported[s.in] {
				continue
			}
			reported[s.in] = true
			nnew++
			r.fail(k.key(p.FnName(s.fn), s.what), p.IPos(s.in),
				fmt.Sprintf("%s (documented to panic on I/O failure / end of data) is reachable from %s without crossing a frame that recovers: the failure escapes the API as a panic", s.what, rt.name))
		}
		if len(sites) == 0 {
			r.ok(fmt.Sprintf("root %s: %d module functions walked, no unprotected panic site", rt.name, nfn), p.Pos(rt.f.Pos()))
		} else if nnew == 0 {
			r.info(fmt.Sprintf("root %s: reaches %d already reported site(s)", rt.name, len(sites)), p.Pos(rt.f.Pos()))
		}
	}
	r.floor(8, nAPI, "exported Writer/Reader methods used as roots")
}

func ruleCliRec(p *Prog, r *RuleResult) {
	rwr := p.Func("app", "runWithRecovery")
	if entryGuard(rwr) == nil {
		r.fail("app.runWithRecovery#guard", p.Pos(rwr.Pos()), "runWithRecovery no longer installs a recover() handler at entry")
	} else {
		r.ok("app.runWithRecovery installs a recover handler at entry", p.Pos(rwr.Pos()))
	}
	// the function argument of runWithRecovery is called after the guard
	called := false
	eachInstr(rwr, func(i ssa.Instruction) {
		if c := callOf(i); c != nil && !c.IsInvoke() {
			if pr, ok := c.Value.(*ssa.Parameter); ok && pr == rwr.Params[len(rwr.Params)-1] {
				called = true
			}
		}
	})
	if !called {
		r.fail("app.runWithRecovery#calls-fn", p.Pos(rwr.Pos()), "runWithRecovery does not call its function argument")
	}
	n := 0
	for _, meth := range [][2]string{{"BlockCompressor", "Compress"}, {"BlockDecompressor", "Decompress"}} {
		target := p.Method("app", meth[0], meth[1])
		node := p.VTA().Nodes[target]
		if node == nil || len(node.In) == 0 {
			r.fail("app."+meth[0]+"."+meth[1]+"#callers", p.Pos(target.Pos()), "no caller found")
			continue
		}
		for _, e := range node.In {
			caller := e.Caller.Func
			if !p.InModule(caller) || strings.HasSuffix(p.Fset.Position(caller.Pos()).Filename, "_test.go") {
				continue
			}
			n++
			// caller must be a closure passed to runWithRecovery (or be called only from there)
			okc := false
			if caller.Parent() != nil {
				eachInstr(caller.Parent(), func(i ssa.Instruction) {
					c := callOf(i)
					if c == nil || c.StaticCallee() != rwr {
						return
					}
					for _, a := range c.Args {
						if mc, ok := a.(*ssa.MakeClosure); ok && mc.Fn == caller {
							okc = true
						}
					}
				})
			}
			key := fmt.Sprintf("%s#call.%s", p.FnName(caller), meth[1])
			if okc {
				r.ok(key+" runs under runWithRecovery", p.IPos(e.Site))
			} else {
				r.fail(key, p.IPos(e.Site), fmt.Sprintf("%s() is called outside runWithRecovery: a panic in the pipeline kills the CLI with a stack trace instead of an error status", meth[1]))
			}
		}
	}
	r.floor(2, n, "call sites of Compress()/Decompress()")
}

func isSyntheticSelectPanic(pi *ssa.Panic) bool {
	if c, ok := stripConv(pi.X).(*ssa.Const); ok && c.Value != nil {
		return strings.Contains(c.Value.String(), "blocking select matched no case")
	}
	return false
}

// checkWorkerSends: a goroutine that reports through a channel must never block on the send (a blocked worker never
// reaches its WaitGroup.Done and the parent waits forever). Accepted: the send sits in a select with default, or the
// channel is created with a capacity that is the bound of the loop that starts the workers.
func checkWorkerSends(p *Prog, r *RuleResult, key string, g *ssa.Go, target *ssa.Function) {
	fns := append([]*ssa.Function{target}, target.AnonFuncs...)
	for _, fn := range fns {
		eachInstr(fn, func(i ssa.Instruction) {
			snd, ok := i.(*ssa.Send)
			if !ok {
				return
			}
			mk := traceMakeChan(snd.Chan, 0)
			skey := key + "#chan-send"
			if mk == nil {
				r.fail(skey, p.IPos(snd), "a library goroutine sends on a channel whose creation cannot be found: cannot establish that the send never blocks before WaitGroup.Done")
				return
			}
			// loop bound of the go statement
			var bound ssa.Value
			if loop := cycleOf(g.Block()); loop != nil {
				for lb := range loop {
					if ifi := blockIf(lb); ifi != nil {
						atom, _ := condAtom(ifi.Cond)
						if bo, ok := atom.(*ssa.BinOp); ok && (bo.Op == token.LSS || bo.Op == token.GTR || bo.Op == token.NEQ) {
							if isInduction(bo.X) {
								bound = bo.Y
							} else if isInduction(bo.Y) {
								bound = bo.X
							}
						}
					}
				}
			}
			size := mk.Size
			for {
				if cv, ok := size.(*ssa.Convert); ok {
					size = cv.X
					continue
				}
				break
			}
			if bound != nil && size == bound {
				r.ok(skey+" on a channel with one slot per worker", p.IPos(snd))
				return
			}
			r.fail(skey, p.IPos(snd), "a worker goroutine sends its result on a channel whose capacity is not the number of workers: a second sender blocks forever before its WaitGroup.Done, so the enclosing call never returns")
		})
	}
}

// traceMakeChan follows a channel value back to its make(chan) through closure bindings and local cells.
func traceMakeChan(v ssa.Value, d int) *ssa.MakeChan {
	if d > 8 {
		return nil
	}
	switch x := v.(type) {
	case *ssa.MakeChan:
		return x
	case *ssa.UnOp:
		if x.Op == token.MUL {
			return traceMakeChan(x.X, d+1)
		}
	case *ssa.Alloc:
		for _, ref := range *x.Referrers() {
			if st, ok := ref.(*ssa.Store); ok && st.Addr == ssa.Value(x) {
				if mk := traceMakeChan(st.Val, d+1); mk != nil {
					return mk
				}
			}
		}
	case *ssa.Phi:
		for _, e := range x.Edges {
			if mk := traceMakeChan(e, d+1); mk != nil {
				return mk
			}
		}
	case *ssa.ChangeType:
		return traceMakeChan(x.X, d+1)
	case *ssa.FreeVar:
		fn := x.Parent()
		idx := -1
		for i, fv := range fn.FreeVars {
			if fv == x {
				idx = i
			}
		}
		if fn.Parent() == nil || idx < 0 {
			return nil
		}
		var out *ssa.MakeChan
		eachInstr(fn.Parent(), func(i ssa.Instruction) {
			if mc, ok := i.(*ssa.MakeClosure); ok && mc.Fn == fn && idx < len(mc.Bindings) && out == nil {
				out = traceMakeChan(mc.Bindings[idx], d+1)
			}
		})
		return out
	case *ssa.Parameter:
		// parameter of the goroutine function: look at the go statement's argument
		fn := x.Parent()
		idx := -1
		for i, pr := range fn.Params {
			if pr == x {
				idx = i
			}
		}
		if fn.Parent() == nil || idx < 0 {
			return nil
		}
		var out *ssa.MakeChan
		eachInstr(fn.Parent(), func(i ssa.Instruction) {
			if g, ok := i.(*ssa.Go); ok && out == nil {
				if mc, ok := g.Call.Value.(*ssa.MakeClosure); ok && mc.Fn == fn && idx < len(g.Call.Args) {
					out = traceMakeChan(g.Call.Args[idx], d+1)
				}
			}
		})
		return out
	}
	return nil
}

package main

import (
	"fmt"
	"go/token"
	"go/types"

	"golang.org/x/tools/go/ssa"
)

// ---------------------------------------------------------------------------------------
// Rules added after the first round of independently seeded breakages:
// R-COMPACT, R-BUF-FRESH, R-CTX-MIRROR, R-READ-FULL
// ---------------------------------------------------------------------------------------

func init() {
	register("R-COMPACT", "decoded blocks are packed into consecutive buffer slots by a cursor that advances only for delivered (non-skipped) blocks", false, func(p *Prog, r *RuleResult) { ruleCompact(p, r, true, false) })
	register("R-CHAIN-PACK", "in GetType the slot of a token in the packed chain advances only for non-NONE tokens", false, func(p *Prog, r *RuleResult) { ruleCompact(p, r, false, true) })
	register("R-BUF-FRESH", "a shared block-buffer slot is only ever re-pointed to a fresh allocation or to a growth of itself", false, ruleBufFresh)
	register("R-CTX-MIRROR", "encode and decode tasks publish the same context keys before creating the transform and the entropy codec", false, ruleCtxMirror)
	register("R-READ-FULL", "Reader.Read returns fewer bytes than requested, without error, only when the stream ended", false, ruleReadFull)
}

// keepCursor: v is a loop phi whose incoming values are only: a constant (initial), itself (element dropped) or
// itself plus/minus a constant (element kept); it must have at least one self edge and one stepping edge.
func keepCursor(v ssa.Value) (ok bool, why string) {
	ph, isPhi := v.(*ssa.Phi)
	if !isPhi {
		return false, "the cursor is not a loop-carried variable (it is recomputed from the loop index)"
	}
	self, step := 0, 0
	for _, e := range ph.Edges {
		switch x := e.(type) {
		case *ssa.Const:
		case *ssa.Phi:
			if x == ph {
				self++
			} else {
				// a merge of {ph, ph+-k} inside the loop body
				okm := true
				for _, ee := range x.Edges {
					if ee == ssa.Value(ph) {
						self++
					} else if bo, isBo := ee.(*ssa.BinOp); isBo && (bo.Op == token.ADD || bo.Op == token.SUB) && bo.X == ssa.Value(ph) {
						step++
					} else {
						okm = false
					}
				}
				if !okm {
					return false, "the cursor is assigned from something other than itself or itself plus a constant"
				}
			}
		case *ssa.BinOp:
			if (x.Op == token.ADD || x.Op == token.SUB) && x.X == ssa.Value(ph) {
				if _, isC := x.Y.(*ssa.Const); isC {
					step++
					continue
				}
			}
			return false, "the cursor is assigned from something other than itself or itself plus a constant"
		default:
			return false, "the cursor is assigned from something other than itself or itself plus a constant"
		}
	}
	if self == 0 {
		return false, "the cursor advances on every iteration, also for dropped elements"
	}
	if step == 0 {
		return false, "the cursor never advances"
	}
	return true, ""
}

func stripConvert(v ssa.Value) ssa.Value {
	for {
		if c, ok := v.(*ssa.Convert); ok {
			v = c.X
			continue
		}
		return v
	}
}

func ruleCompact(p *Prog, r *RuleResult, doResults, doChain bool) {
	n := 0
	// (a) Reader.processBlock: decoded blocks are packed to the front of the buffers
	s := resolveSide(p, "Reader")
	pb := s.parent
	if sf, sc := scanFunction(p, s); sf != pb && sc != nil {
		pb = sf
	}
	pname := p.FnName(pb)
	found := false
	eachInstr(pb, func(i ssa.Instruction) {
		if !doResults {
			return
		}
		c := callOf(i)
		if c == nil {
			return
		}
		b, ok := c.Value.(*ssa.Builtin)
		if !ok || b.Name() != "copy" || len(c.Args) != 2 {
			return
		}
		// source: slice of the result's data
		src := c.Args[1]
		if sl, ok := src.(*ssa.Slice); ok {
			src = sl.X
		}
		fv := fieldVarOfLoad(src)
		if fv == nil || fv != s.dataF {
			return
		}
		found = true
		n++
		// destination: this.buffers[n].Buf
		dst := c.Args[0]
		if sl, ok := dst.(*ssa.Slice); ok {
			dst = sl.X
		}
		u, ok := dst.(*ssa.UnOp)
		if !ok {
			r.fail(pname+"#compaction", p.IPos(i), "decoded blocks are not copied into the reader's buffer slots")
			return
		}
		fa, ok := u.X.(*ssa.FieldAddr)
		if !ok {
			r.fail(pname+"#compaction", p.IPos(i), "decoded blocks are not copied into the reader's buffer slots")
			return
		}
		ia, ok := fa.X.(*ssa.IndexAddr)
		if !ok {
			r.fail(pname+"#compaction", p.IPos(i), "decoded blocks are not copied into an indexed buffer slot")
			return
		}
		if okc, why := keepCursor(ia.Index); okc {
			r.ok(pname+": decoded blocks are packed into consecutive slots (slot index advances only for delivered blocks)", p.IPos(i))
		} else {
			r.fail(pname+"#compaction", p.IPos(i), "the slot a decoded block is copied to is not a count of the delivered (non-skipped) blocks: "+why+"; Read consumes slots 0,1,2,... so with a block range that does not start on a batch boundary it returns the bytes of skipped slots")
		}
	})
	// the same packing done by re-pointing the slot at the task's data instead of copying it (whether the slot may
	// alias the task's buffer is R-BUF-FRESH's question; here only the cursor matters)
	eachInstr(pb, func(i ssa.Instruction) {
		st, ok := i.(*ssa.Store)
		if !ok || !doResults {
			return
		}
		src := st.Val
		if sl, ok := src.(*ssa.Slice); ok {
			src = sl.X
		}
		if fv := fieldVarOfLoad(src); fv == nil || fv != s.dataF {
			return
		}
		fa, ok := st.Addr.(*ssa.FieldAddr)
		if !ok {
			return
		}
		ia, ok := fa.X.(*ssa.IndexAddr)
		if !ok {
			return
		}
		found = true
		n++
		if okc, why := keepCursor(ia.Index); okc {
			r.ok(pname+": decoded blocks are handed over into consecutive slots (slot index advances only for delivered blocks)", p.IPos(i))
		} else {
			r.fail(pname+"#compaction", p.IPos(i), "the slot a decoded block is stored in is not a count of the delivered (non-skipped) blocks: "+why)
		}
	})
	if !found && doResults {
		r.info(pname+": no copy of result data into buffer slots found (compaction not checked)", p.Pos(pb.Pos()))
	}
	// (b) transform.GetType: NONE tokens do not take a slot of the packed chain
	gt := p.FuncOpt("transform", "GetType")
	if gt != nil && gt.Blocks != nil && doChain {
		gname := p.FnName(gt)
		eachInstr(gt, func(i ssa.Instruction) {
			bo, ok := i.(*ssa.BinOp)
			if !ok || bo.Op != token.SHL {
				return
			}
			// token value from the name table, inside a loop
			x := stripConvert(bo.X)
			ex, ok := x.(*ssa.Extract)
			if !ok || ex.Index != 0 {
				return
			}
			if _, isCall := ex.Tuple.(*ssa.Call); !isCall || cycleOf(bo.Block()) == nil {
				return
			}
			n++
			sh := stripConvert(bo.Y)
			if okc, why := keepCursor(sh); okc {
				r.ok(gname+": chain slots advance only for non-NONE tokens", p.IPos(i))
			} else {
				r.fail(gname+"#chain-packing", p.IPos(i), "the position of a transform in the packed chain is not a count of the non-NONE tokens seen so far: "+why+"; a NONE filler leaves a hole, and transform.New drops every transform after a hole while the header names it")
			}
		})
	}
	r.floor(1, n, "compaction sites (result packing, chain packing)")
}

// slotType: the struct type of the shared block-buffer slots (what the tasks' buffer pointer fields point to).
func slotType(p *Prog) *types.Named {
	s := resolveSide(p, "Reader")
	st := s.taskT.Underlying().(*types.Struct)
	for i := 0; i < st.NumFields(); i++ {
		if pt, ok := st.Field(i).Type().(*types.Pointer); ok {
			if n, ok := pt.Elem().(*types.Named); ok {
				if ss, ok := n.Underlying().(*types.Struct); ok && ss.NumFields() == 1 && isByteSlice(ss.Field(0).Type()) {
					return n
				}
			}
		}
	}
	return nil
}

func ruleBufFresh(p *Prog, r *RuleResult) {
	n := 0
	slotT := slotType(p)
	if slotT == nil {
		undecided("cannot identify the block-buffer slot type from the task fields")
	}
	var k keyer
	for _, f := range p.ModFns {
		if p.Rel(f) != "io" {
			continue
		}
		fname := p.FnName(f)
		eachInstr(f, func(i ssa.Instruction) {
			st, ok := i.(*ssa.Store)
			if !ok {
				return
			}
			fa, ok := st.Addr.(*ssa.FieldAddr)
			if !ok {
				return
			}
			nt := namedOf(fa.X.Type())
			if nt == nil || nt != slotT {
				return
			}
			n++
			key := k.key(fname, "slot-store")
			fresh := func(v ssa.Value) bool {
				seen := map[ssa.Value]bool{}
				var walk func(v ssa.Value) bool
				walk = func(v ssa.Value) bool {
					if seen[v] {
						return true
					}
					seen[v] = true
					switch x := v.(type) {
					case *ssa.MakeSlice:
						return true
					case *ssa.Alloc:
						return true // make([]T, constant) is lowered to a fresh array allocation
					case *ssa.Slice:
						return walk(x.X)
					case *ssa.Phi:
						for _, e := range x.Edges {
							if !walk(e) {
								return false
							}
						}
						return true
					case *ssa.Call:
						if b, ok := x.Call.Value.(*ssa.Builtin); ok && b.Name() == "append" {
							return walk(x.Call.Args[0])
						}
					case *ssa.UnOp:
						// a load of a Buf slot (growing the slot's own buffer)
						if x.Op == token.MUL {
							if fa2, ok := x.X.(*ssa.FieldAddr); ok {
								if n2 := namedOf(fa2.X.Type()); n2 != nil && n2 == slotT {
									// same slot: both addresses derive from the same task field / same index expression
									return sameSlot(fa.X, fa2.X)
								}
							}
						}
					}
					return false
				}
				return walk(v)
			}
			if fresh(st.Val) {
				r.ok(key+": slot re-pointed to a fresh allocation (or a growth of itself)", p.IPos(i))
			} else {
				r.fail(key, p.IPos(i), "a shared block-buffer slot is re-pointed to memory that another slot or a task result may still reference: two concurrent tasks end up using the same backing array (stale or duplicated blocks, output depends on the job count)")
			}
		})
	}
	r.floor(4, n, "stores into block-buffer slots")
}

// sameSlot: two *blockBuffer values denote the same slot (same task field load, or same element address expression).
func sameSlot(a, b ssa.Value) bool {
	if a == b {
		return true
	}
	fa, fb := fieldVarOfLoad(a), fieldVarOfLoad(b)
	if fa != nil && fa == fb {
		return true
	}
	return false
}

// ctxStoresBefore: constant context keys stored (MapUpdate) on the task's ctx between instruction `after` (nil = entry)
// and call `before`, on paths that dominate `before`.
func ctxStoresBefore(f *ssa.Function, after ssa.Instruction, before ssa.Instruction) map[string]bool {
	out := map[string]bool{}
	eachInstr(f, func(i ssa.Instruction) {
		mu, ok := i.(*ssa.MapUpdate)
		if !ok {
			return
		}
		k, ok := ctxKey(mu.Map, mu.Key)
		if !ok {
			return
		}
		if !instrDominates(i, before) {
			return
		}
		if after != nil && !instrDominates(after, i) {
			return
		}
		out[k] = true
	})
	return out
}

func ruleCtxMirror(p *Prog, r *RuleResult) {
	ws, rs := resolveSide(p, "Writer"), resolveSide(p, "Reader")
	find := func(f *ssa.Function, name, pkgRel string) *ssa.Call {
		var out *ssa.Call
		eachInstr(f, func(i ssa.Instruction) {
			if c, ok := i.(*ssa.Call); ok {
				if o := calleeObj(&c.Call); o != nil && o.Name() == name && o.Pkg() != nil && o.Pkg().Path() == p.ModPath+"/"+pkgRel {
					out = c
				}
			}
		})
		return out
	}
	encNew, encFwd, encEnt := find(ws.fn, "New", "transform"), find(ws.fn, "Forward", "transform"), find(ws.fn, "NewEntropyEncoder", "entropy")
	decEnt, decNew := find(rs.fn, "NewEntropyDecoder", "entropy"), find(rs.fn, "New", "transform")
	if encNew == nil || encFwd == nil || encEnt == nil || decEnt == nil || decNew == nil {
		undecided("anchor unresolved: transform.New / Forward / NewEntropyEncoder / NewEntropyDecoder in the task functions")
	}
	encT := ctxStoresBefore(ws.fn, nil, encNew)
	encE := ctxStoresBefore(ws.fn, encFwd, encEnt)
	decE := ctxStoresBefore(rs.fn, nil, decEnt)
	decT := ctxStoresBefore(rs.fn, decEnt, decNew)
	n := 0
	cmp := func(stage string, e, d map[string]bool, pos string) {
		for _, k := range sortedKeys(d) {
			n++
			if e[k] {
				r.ok(fmt.Sprintf("ctx[%q] published by both tasks before the %s stage is created", k, stage), pos)
			} else {
				r.fail(fmt.Sprintf("io.tasks#ctx-mirror.%s.%s", stage, k), pos, fmt.Sprintf("the decode task publishes ctx[%q] before creating its %s codec but the encode task does not publish it at the corresponding point: codecs that size their model from it (e.g. TPAQ) are configured differently on the two sides and the stream cannot be read back", k, stage))
			}
		}
		for _, k := range sortedKeys(e) {
			if !d[k] {
				n++
				r.fail(fmt.Sprintf("io.tasks#ctx-mirror.%s.%s", stage, k), pos, fmt.Sprintf("the encode task publishes ctx[%q] before creating its %s codec but the decode task does not", k, stage))
			}
		}
	}
	cmp("transform", encT, decT, p.IPos(encNew))
	cmp("entropy", encE, decE, p.IPos(encEnt))
	// the value published for the entropy stage is the length the entropy coder actually processes
	okVal := false
	eachInstr(ws.fn, func(i ssa.Instruction) {
		mu, ok := i.(*ssa.MapUpdate)
		if !ok {
			return
		}
		if k, ok := ctxKey(mu.Map, mu.Key); !ok || k != "size" || !instrDominates(encFwd, i) || !instrDominates(i, encEnt) {
			return
		}
		v := stripConv(mu.Value)
		if ex, ok := v.(*ssa.Extract); ok && ex.Tuple == ssa.Value(encFwd) {
			okVal = true
		}
	})
	n++
	if okVal {
		r.ok("encode publishes the post-transform length as ctx[\"size\"] for the entropy stage (decode publishes the same quantity, read from the block header)", p.IPos(encEnt))
	} else if encE["size"] {
		r.fail("io.tasks#ctx-mirror.entropy.size-value", p.IPos(encEnt), "the size published by the encode task for the entropy stage is not the length returned by the forward transform")
	}
	r.floor(2, n, "mirrored context keys")
}

func ruleReadFull(p *Prog, r *RuleResult) {
	f := p.Method("io", "Reader", "Read")
	fname := p.FnName(f)
	if len(f.Params) < 2 {
		undecided("unexpected signature of %s", fname)
	}
	block := f.Params[1]
	// family of "remaining": values derived from len(block) by phi / subtraction
	fam := map[ssa.Value]bool{}
	var grow func(v ssa.Value, d int)
	grow = func(v ssa.Value, d int) {
		if fam[v] || d > 12 {
			return
		}
		fam[v] = true
		if refs := v.Referrers(); refs != nil {
			for _, ref := range *refs {
				switch x := ref.(type) {
				case *ssa.Phi:
					grow(x, d+1)
				case *ssa.BinOp:
					if x.Op == token.SUB && x.X == v {
						grow(x, d+1)
					}
				}
			}
		}
	}
	var lens []ssa.Value
	eachInstr(f, func(i ssa.Instruction) {
		if c, ok := i.(*ssa.Call); ok {
			if b, ok := c.Call.Value.(*ssa.Builtin); ok && b.Name() == "len" && c.Call.Args[0] == ssa.Value(block) {
				lens = append(lens, c)
			}
		}
	})
	// only the first len(block) seeds `remaining`; later len(block)-remaining computations are results
	if len(lens) == 0 {
		undecided("%s: len(block) not found", fname)
	}
	grow(lens[0], 0)
	for _, l := range lens {
		delete(fam, l)
	}
	var pbCall *ssa.Call
	eachInstr(f, func(i ssa.Instruction) {
		if c, ok := i.(*ssa.Call); ok && c.Call.StaticCallee() != nil && c.Call.StaticCallee() == p.MethodOpt("io", "Reader", "processBlock") {
			pbCall = c
		}
	})
	if pbCall == nil {
		undecided("%s: no processBlock call", fname)
	}
	// the field that receives the byte count delivered by processBlock
	var availF *types.Var
	for _, ref := range *pbCall.Referrers() {
		if ex, ok := ref.(*ssa.Extract); ok && ex.Index == 0 {
			for _, r2 := range *ex.Referrers() {
				if st, ok := r2.(*ssa.Store); ok {
					availF = fieldVarOfAddr(st.Addr)
				}
			}
		}
	}
	if availF == nil {
		undecided("%s: the byte count of processBlock is not stored in a field", fname)
	}
	cut := map[edge]bool{}
	nfull, neos := 0, 0
	for _, b := range f.Blocks {
		ifi := blockIf(b)
		if ifi == nil {
			continue
		}
		atom, pos := condAtom(ifi.Cond)
		bo, ok := atom.(*ssa.BinOp)
		if !ok {
			continue
		}
		// the other spelling of "the caller's buffer is full": a count of copied bytes compared with len(block)
		isLen := func(v ssa.Value) bool {
			for _, l := range lens {
				if v == l {
					return true
				}
			}
			return false
		}
		if isLen(bo.X) != isLen(bo.Y) && isIntType(bo.X.Type()) {
			op := bo.Op
			if isLen(bo.X) {
				op = mirrorOp(op)
			}
			switch op { // counter <op> len(block)
			case token.LSS, token.NEQ:
				cut[edge{b, succFor(pos, false)}] = true
				nfull++
			case token.GEQ, token.EQL:
				cut[edge{b, succFor(pos, true)}] = true
				nfull++
			}
			continue
		}
		// constant on the right, whichever way the comparison is written
		cx, cy, cop := bo.X, bo.Y, bo.Op
		if isZeroConst(cx) && !isZeroConst(cy) {
			cx, cy, cop = cy, cx, mirrorOp(cop)
		}
		if !isZeroConst(cy) {
			continue
		}
		if fam[cx] {
			switch cop {
			case token.GTR, token.NEQ:
				cut[edge{b, succFor(pos, false)}] = true
				nfull++
			case token.EQL, token.LEQ:
				cut[edge{b, succFor(pos, true)}] = true
				nfull++
			}
			continue
		}
		if fv := fieldVarOfLoad(cx); fv != nil && fv == availF && cop == token.EQL && instrDominates(pbCall, ifi) {
			cut[edge{b, succFor(pos, true)}] = true
			neos++
		}
	}
	// entry tests (closed / header error) return errors; success returns must be unreachable once the cuts are applied
	reached := reach(f.Blocks[0], cut, nil)
	bad := false
	for _, b := range f.Blocks {
		if !reached[b] || b == f.Recover {
			continue
		}
		ret, ok := b.Instrs[len(b.Instrs)-1].(*ssa.Return)
		if !ok || len(ret.Results) != 2 || !retMayBeNil(ret, 1) {
			continue
		}
		// a return of a loaded sentinel (io.EOF) is not a success
		if u, ok := rvals(ret)[1].(*ssa.UnOp); ok {
			if _, isG := u.X.(*ssa.Global); isG {
				continue
			}
		}
		bad = true
		r.fail(fname+"#short-success", p.IPos(ret), "Read can return fewer bytes than requested with a nil error although the stream has not ended (a path reaches the success return that neither filled the caller's buffer nor saw processBlock deliver 0 bytes): callers that treat a short read as end of data (the CLI does) silently truncate their output")
	}
	if !bad {
		r.ok(fmt.Sprintf("%s: the success return is reachable only with the buffer filled (%d tests) or after processBlock delivered nothing (%d tests)", fname, nfull, neos), p.Pos(f.Pos()))
	}
	r.floor(2, nfull+neos, "loop-exit tests of Reader.Read")
}

var _ = types.Typ

// ---------------------------------------------------------------------------------------
// R-BLOCK-BOUND: the encode task reads its (reused) input slot only within the current block
// ---------------------------------------------------------------------------------------

func init() {
	register("R-BLOCK-BOUND", "before the forward transform the encode task hands its reused input buffer to other code only sliced to the current block length", false, ruleBlockBound)
}

func ruleBlockBound(p *Prog, r *RuleResult) {
	ws := resolveSide(p, "Writer")
	f := ws.fn
	fname := p.FnName(f)
	var fwd *ssa.Call
	eachInstr(f, func(i ssa.Instruction) {
		if c, ok := i.(*ssa.Call); ok {
			if o := calleeObj(&c.Call); o != nil && o.Name() == "Forward" {
				fwd = c
			}
		}
	})
	if fwd == nil {
		undecided("anchor unresolved: Forward call in %s", fname)
	}
	// the whole-buffer values: loads of <task>.iBuffer.Buf and phis/appends of them
	whole := map[ssa.Value]bool{}
	var grow func(v ssa.Value, d int)
	grow = func(v ssa.Value, d int) {
		if whole[v] || d > 8 {
			return
		}
		whole[v] = true
		if refs := v.Referrers(); refs != nil {
			for _, ref := range *refs {
				switch x := ref.(type) {
				case *ssa.Phi:
					grow(x, d+1)
				case *ssa.Call:
					if b, ok := x.Call.Value.(*ssa.Builtin); ok && b.Name() == "append" && x.Call.Args[0] == v {
						grow(x, d+1)
					}
				}
			}
		}
	}
	// the input slot and the block length are taken from the source argument of Forward: data[0:blockLength]
	var slotF, lenF *types.Var
	if sl, ok := fwd.Call.Args[len(fwd.Call.Args)-2].(*ssa.Slice); ok {
		if sl.High != nil {
			lenF = fieldVarOfLoad(stripConvert(sl.High))
		}
		base := sl.X
		for d := 0; d < 6; d++ {
			if ph, ok := base.(*ssa.Phi); ok {
				base = ph.Edges[0]
				continue
			}
			if c, ok := base.(*ssa.Call); ok {
				if b, ok := c.Call.Value.(*ssa.Builtin); ok && b.Name() == "append" {
					base = c.Call.Args[0]
					continue
				}
			}
			break
		}
		if u, ok := base.(*ssa.UnOp); ok && u.Op == token.MUL {
			if fa, ok := u.X.(*ssa.FieldAddr); ok {
				slotF = fieldVarOfLoad(fa.X)
			}
		}
	}
	if slotF == nil || lenF == nil {
		undecided("%s: cannot identify the input slot and block length from the source argument of Forward", fname)
	}
	eachInstr(f, func(i ssa.Instruction) {
		u, ok := i.(*ssa.UnOp)
		if !ok || u.Op != token.MUL {
			return
		}
		fa, ok := u.X.(*ssa.FieldAddr)
		if !ok {
			return
		}
		if outer := fieldVarOfLoad(fa.X); outer != nil && outer == slotF {
			grow(u, 0)
		}
	})
	// frozen exception: the magic-number probe reads a fixed 4..8 byte prefix and only sets an advisory hint
	prefixOnly := map[string]string{"GetMagicType": "reads a fixed-size prefix of the block to set an advisory data-type hint; blocks shorter than the prefix are stored raw"}
	n := 0
	var k keyer
	// the whole slot may be handed to helpers of the same package (they slice it themselves); what matters is whether
	// it leaves the package unsliced. Helper parameters that receive the whole slot are followed (bounded depth).
	var scan func(fn *ssa.Function, whole map[ssa.Value]bool, top bool, depth int)
	scan = func(fn *ssa.Function, whole map[ssa.Value]bool, top bool, depth int) {
		eachInstr(fn, func(i ssa.Instruction) {
			c, ok := i.(*ssa.Call)
			if !ok {
				return
			}
			if _, isB := c.Call.Value.(*ssa.Builtin); isB {
				return
			}
			if top && (instrReaches(fwd, c) || c == fwd) {
				return
			}
			for ai, a := range c.Call.Args {
				if !whole[a] {
					continue
				}
				callee := c.Call.StaticCallee()
				if callee != nil && callee.Blocks != nil && FnPkg(callee) == FnPkg(f) && depth < 3 && ai < len(callee.Params) {
					sub := map[ssa.Value]bool{}
					var g func(v ssa.Value, d int)
					g = func(v ssa.Value, d int) {
						if sub[v] || d > 8 {
							return
						}
						sub[v] = true
						if refs := v.Referrers(); refs != nil {
							for _, ref := range *refs {
								if ph, ok := ref.(*ssa.Phi); ok {
									g(ph, d+1)
								}
							}
						}
					}
					g(callee.Params[ai], 0)
					scan(callee, sub, false, depth+1)
					continue
				}
				n++
				name := describeCall(p, c)
				key := k.key(fname, "whole-buffer-arg")
				if callee != nil {
					if why, ok := prefixOnly[callee.Name()]; ok {
						r.exempt(key+" "+name, p.IPos(c), why)
						continue
					}
				}
				r.fail(key, p.IPos(c), fmt.Sprintf("%s receives the whole reused input buffer instead of the current block (data[0:blockLength]): bytes left over from the block previously handled by this task slot are read, so the encoder's decisions (and the bits produced) depend on which slot - hence which job count - processed the block", name))
			}
		})
	}
	scan(f, whole, true, 0)
	// positive part: the hash and the transform see exactly the block
	bounded := 0
	for _, bf := range append([]*ssa.Function{f}, p.helperClosure(f)...) {
		eachInstr(bf, func(i ssa.Instruction) {
			c, ok := i.(*ssa.Call)
			if !ok {
				return
			}
			for _, a := range c.Call.Args {
				if sl, ok := a.(*ssa.Slice); ok && sl.High != nil && fieldVarOfLoad(stripConvert(sl.High)) == lenF {
					bounded++
				}
			}
		})
	}
	if len(r.Findings) == 0 {
		r.ok(fmt.Sprintf("%s: %d call(s) take the block as data[0:blockLength]; no call before Forward receives the whole slot (besides %d frozen prefix probe(s))", fname, bounded, n), p.Pos(f.Pos()))
	}
	r.floor(2, bounded, "calls taking data[0:blockLength]")
}

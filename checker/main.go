package main

import (
	"flag"
	"fmt"
	"os"
	"path/filepath"
	"sort"
	"strconv"
	"strings"
	"time"

	"golang.org/x/tools/go/ssa"
)

var (
	flagProperty = flag.String("property", "", "property id (C01..C19)")
	flagTier     = flag.String("tier", "quick", "quick|thorough")
	flagRepo     = flag.String("repo", "/repo/v2", "module root to analyse")
	flagVerif    = flag.String("verif", "/verif", "verif directory (known findings, spec, evidence, fixtures)")
	flagRule     = flag.String("rule", "", "run a single rule and print its result (debug / mutant self-test)")
	flagDump     = flag.String("dump", "", "dump SSA of functions whose name contains this string")
	flagNoEvid   = flag.Bool("no-evidence", false, "do not write evidence (used for scratch copies)")
	flagList     = flag.Bool("list", false, "list properties and rules")
	flagReplay   = flag.String("replay", "", "re-run the rule of a replay file and tell whether the construct is still reported")
	flagExport   = flag.Bool("export-props", false, "print the property table as JSON (used by gen_manifest.py)")
	flagGenWire  = flag.Bool("gen-wire", false, "print a candidate wire spec (format6.json) for the tree at -repo")
	flagAll      = flag.Bool("all", false, "tooling: load once, run every rule once, print a verdict line per property (no evidence written)")
	flagMutants  = flag.Bool("mutants", false, "run the mutant self-tests for -property (or all) and exit")
)

func flagArgs() []string { return flag.Args() }

func main() {
	flag.Parse()
	// go/packages looks the go command up through the process PATH: pin the toolchain here so that the
	// binary also works when it is not started through check.sh
	os.Setenv("PATH", "/opt/veriftools/go1.26.8/bin:"+os.Getenv("PATH"))
	os.Setenv("GOTOOLCHAIN", "local")
	os.Unsetenv("GOWORK")
	os.Exit(run())
}

func run() (code int) {
	defer func() {
		if e := recover(); e != nil {
			if u, ok := e.(Undecided); ok {
				fmt.Printf("UNDECIDED: %s\n", u.Msg)
				code = 2
				return
			}
			panic(e)
		}
	}()
	if *flagExport {
		out := map[string]any{}
		for id, pr := range properties {
			out[id] = map[string]any{"rules": pr.Rules, "decided": pr.Decided, "not_decided": pr.NotDecided}
		}
		b, _ := jsonMarshal(out)
		fmt.Println(string(b))
		return 0
	}
	if *flagGenWire {
		p := Load(*flagRepo, false)
		spec := genWireSpec(p)
		b, _ := jsonMarshalIndent(spec)
		fmt.Println(string(b))
		return 0
	}
	if *flagList {
		for _, id := range sortedKeys(properties) {
			fmt.Printf("%s: %s\n", id, strings.Join(properties[id].Rules, " "))
		}
		return 0
	}
	if *flagReplay != "" {
		return replay(*flagReplay)
	}
	if *flagDump != "" {
		p := Load(*flagRepo, false)
		for _, f := range p.ModFns {
			if strings.Contains(f.String(), *flagDump) {
				f.WriteTo(os.Stdout)
			}
		}
		return 0
	}
	if *flagRule != "" {
		names := strings.Split(*flagRule, ",")
		p := Load(*flagRepo, false)
		bad, undec := 0, 0
		for _, n := range names {
			rule := rules[n]
			if rule == nil {
				fmt.Fprintf(os.Stderr, "unknown rule %s\n", n)
				return 2
			}
			res := runRule(p, rule)
			printResult(res, true)
			if res.Undecided != "" {
				undec++
			}
			bad += len(res.Findings)
		}
		// as for a property: a report wins over an undecided
		if bad > 0 {
			return 1
		}
		if undec > 0 {
			return 2
		}
		return 0
	}
	if *flagMutants {
		return runMutantsCLI()
	}
	if *flagAll {
		return checkAll()
	}
	if *flagProperty == "" {
		fmt.Fprintln(os.Stderr, "need -property")
		return 2
	}
	return checkProperty(*flagProperty, *flagTier)
}

func printResult(res *RuleResult, verbose bool) {
	fmt.Printf("== %s: %s\n", res.Rule, res.Clause)
	if verbose {
		for _, in := range res.Instances {
			fmt.Printf("   [%s] %s  (%s)\n", in.Status, in.What, in.Pos)
		}
	}
	fmt.Printf("   instances=%d obligations=%d discharged=%d findings=%d floor=%d/%d(%s)\n",
		len(res.Instances), res.Obligations, res.Discharged, len(res.Findings), res.Counted, res.Floor, res.FloorWhat)
	for _, n := range res.Notes {
		fmt.Printf("   note: %s\n", n)
	}
	if res.Fixture != "" {
		fmt.Printf("   fixture: %s\n", res.Fixture)
	}
	for _, f := range res.Findings {
		fmt.Printf("   REPORT %s %s at %s: %s\n", f.Rule, f.Construct, f.Pos, f.Msg)
	}
	if res.Undecided != "" {
		fmt.Printf("   UNDECIDED: %s\n", res.Undecided)
	}
}

// checkImports enforces the common assumptions (no unsafe/reflect/cgo/linkname in non-test code).
func checkImports(p *Prog) []string {
	var bad []string
	for _, pk := range p.Pkgs {
		for imp := range pk.Imports {
			if imp == "unsafe" || imp == "reflect" || imp == "C" {
				bad = append(bad, pk.PkgPath+" imports "+imp)
			}
		}
		for _, f := range pk.Syntax {
			for _, cg := range f.Comments {
				for _, c := range cg.List {
					if strings.HasPrefix(c.Text, "//go:linkname") {
						bad = append(bad, pk.PkgPath+" uses go:linkname")
					}
				}
			}
		}
	}
	sort.Strings(bad)
	return bad
}

func checkProperty(id, tier string) int {
	start := time.Now()
	prop := properties[id]
	if prop == nil {
		fmt.Fprintf(os.Stderr, "unknown or unclaimed property %s\n", id)
		return 2
	}
	seed, _ := strconv.Atoi(os.Getenv("VERIF_SEED"))
	verif := *flagVerif
	known := loadKnown(filepath.Join(verif, "known_findings.txt"))

	p := Load(*flagRepo, false)
	if bad := checkImports(p); len(bad) > 0 {
		undecided("common assumption broken (unsafe/reflect/cgo/linkname in module): %s", strings.Join(bad, "; "))
	}
	var fix *Prog
	needFixture := false
	for _, rn := range prop.Rules {
		if rules[rn] == nil {
			undecided("internal: rule %s not registered", rn)
		}
		if rules[rn].Fixture {
			needFixture = true
		}
	}
	if needFixture {
		fix = Load(filepath.Join(verif, "checker", "fixtures", "kz"), false)
	}

	var results []*RuleResult
	var undec []string
	nviol := 0
	nknown := 0
	var violLines []string
	totalObl, totalDis, totalInst := 0, 0, 0
	samples := []any{}
	for _, rn := range prop.Rules {
		rule := rules[rn]
		res := runRule(p, rule)
		if rule.Fixture {
			fres := runRuleF(fix, rule, false)
			if fres.Undecided != "" {
				res.Undecided = "fixture undecided: " + fres.Undecided
			} else if len(fres.Findings) == 0 {
				res.Undecided = "positive control failed: rule did not fire on the fixture module (rule is blind)"
			} else {
				res.Fixture = fmt.Sprintf("fired on fixture: %d report(s), e.g. %s at %s", len(fres.Findings), fres.Findings[0].Construct, fres.Findings[0].Pos)
			}
		}
		results = append(results, res)
		printResult(res, os.Getenv("KZ_VERBOSE") != "")
		if res.Undecided != "" {
			undec = append(undec, res.Rule+": "+res.Undecided)
		}
		totalObl += res.Obligations
		totalDis += res.Discharged
		totalInst += len(res.Instances)
		for k, in := range res.Instances {
			if k < 3 {
				samples = append(samples, map[string]string{"rule": res.Rule, "what": in.What, "pos": in.Pos, "status": in.Status})
			}
		}
		for _, f := range res.Findings {
			if k := known.match(id, f); k != nil {
				fmt.Printf("KNOWN-FINDING: property=%s rule=%s construct=%s %s\n", id, f.Rule, f.Construct, k.Text)
				nknown++
				continue
			}
			nviol++
			rp := filepath.Join(verif, "evidence", "replay", fmt.Sprintf("%s-%d.json", id, nviol))
			if !*flagNoEvid {
				writeJSON(rp, map[string]any{"property": id, "rule": f.Rule, "construct": f.Construct, "pos": f.Pos, "msg": f.Msg, "repo": *flagRepo})
			}
			violLines = append(violLines, fmt.Sprintf("VIOLATION property=%s replay=%s", id, rp))
			fmt.Printf("  -> %s %s at %s: %s\n", f.Rule, f.Construct, f.Pos, f.Msg)
		}
	}

	cov := map[string]any{
		"explanation": fmt.Sprintf("Static analysis (go/packages + go/types + go/ssa, x/tools v0.50.0) of the current working tree of %s; no kanzi code is executed. DECIDED: %s NOT DECIDED: %s",
			*flagRepo, prop.Decided, prop.NotDecided),
		"packages_analysed":        len(p.Pkgs),
		"module_functions_analysed": len(p.ModFns),
		"rules":                    results,
		"obligations":              totalObl,
		"discharged":               totalDis,
		"instances":                totalInst,
		"evaluations":              max(totalInst, 1),
		"distinct_nontrivial":      max(totalObl, 2),
		"rule":                     "one evaluation = one rule instance (call site, branch edge, table entry, flow source) resolved through the type-checked SSA program; non-trivial = carries an obligation that could fail",
		"samples":                  samples,
		"exhaustive":               true,
		"known_findings_matched":   nknown,
		"undecided":                undec,
		"checker_cmd":              fmt.Sprintf("kzcheck -property %s -tier %s -repo %s", id, tier, *flagRepo),
		"trusted_base":             []string{"go/types", "golang.org/x/tools/go/ssa", "golang.org/x/tools/go/callgraph/vta", "rule code in /verif/checker"},
	}
	if tier == "thorough" {
		thorough(id, prop, p, cov, &undec)
	}
	ev := Evidence{
		PropertyID:  id,
		Tier:        tier,
		Seed:        seed,
		Level:       "other",
		Coverage:    cov,
		Assumptions: append([]string{"no unsafe/reflect/cgo/linkname in module (checked this run)", "VTA call graph over-approximates dynamic dispatch", "integer arithmetic, buffer sizes and indices are not modelled", "VERIF_SEED unused: all enumerations are exhaustive over the tree"}, prop.Assumptions...),
		WallS:       time.Since(start).Seconds(),
		Violations:  nviol,
	}
	cov["undecided"] = undec
	if !*flagNoEvid {
		ev.WallS = time.Since(start).Seconds()
		writeJSON(filepath.Join(verif, "evidence", id+".json"), ev)
	}
	fmt.Printf("property %s tier %s: rules=%d instances=%d obligations=%d discharged=%d violations=%d known=%d undecided=%d wall=%.1fs\n",
		id, tier, len(results), totalInst, totalObl, totalDis, nviol, nknown, len(undec), time.Since(start).Seconds())
	if len(undec) > 0 && nviol == 0 {
		for _, u := range undec {
			fmt.Printf("UNDECIDED: %s\n", u)
		}
		return 2
	}
	if nviol > 0 {
		for _, l := range violLines {
			fmt.Println(l)
		}
		return 1
	}
	return 0
}

func replay(path string) int {
	var m map[string]string
	b, err := os.ReadFile(path)
	if err != nil {
		fmt.Fprintln(os.Stderr, err)
		return 2
	}
	if err := jsonUnmarshal(b, &m); err != nil {
		fmt.Fprintln(os.Stderr, err)
		return 2
	}
	rule := rules[m["rule"]]
	if rule == nil {
		fmt.Fprintln(os.Stderr, "unknown rule in replay file")
		return 2
	}
	p := Load(*flagRepo, false)
	res := runRule(p, rule)
	for _, f := range res.Findings {
		if f.Construct == m["construct"] {
			fmt.Printf("REPRODUCED: %s %s at %s: %s\n", f.Rule, f.Construct, f.Pos, f.Msg)
			fmt.Printf("VIOLATION property=%s replay=%s\n", m["property"], path)
			return 1
		}
	}
	fmt.Printf("not reproduced on %s (rule %s reports %d other construct(s))\n", *flagRepo, rule.Name, len(res.Findings))
	return 0
}

var _ = ssa.NaiveForm

// checkAll is a tooling mode (seed / refactoring sweeps): one load, every rule once, one verdict line per property.
func checkAll() int {
	verif := *flagVerif
	known := loadKnown(filepath.Join(verif, "known_findings.txt"))
	p := Load(*flagRepo, false)
	if bad := checkImports(p); len(bad) > 0 {
		undecided("common assumption broken: %s", strings.Join(bad, "; "))
	}
	fix := Load(filepath.Join(verif, "checker", "fixtures", "kz"), false)
	cache := map[string]*RuleResult{}
	worst := 0
	for _, id := range sortedKeys(properties) {
		prop := properties[id]
		nviol, nundec := 0, 0
		var lines []string
		for _, rn := range prop.Rules {
			res := cache[rn]
			if res == nil {
				rule := rules[rn]
				res = runRule(p, rule)
				if rule.Fixture {
					fres := runRuleF(fix, rule, false)
					if fres.Undecided != "" || len(fres.Findings) == 0 {
						res.Undecided = "positive control failed on the fixture"
					}
				}
				cache[rn] = res
			}
			if res.Undecided != "" {
				nundec++
				lines = append(lines, fmt.Sprintf("   UNDECIDED %s: %s", res.Rule, res.Undecided))
			}
			for _, f := range res.Findings {
				if known.match(id, f) != nil {
					continue
				}
				nviol++
				lines = append(lines, fmt.Sprintf("  -> %s %s at %s: %s", f.Rule, f.Construct, f.Pos, f.Msg))
			}
		}
		code := 0
		if nviol > 0 {
			code = 1
		} else if nundec > 0 {
			code = 2
		}
		if code != 0 {
			fmt.Printf("%s exit=%d\n", id, code)
			for _, l := range lines {
				fmt.Println(l)
			}
		}
		if code > worst {
			worst = code
		}
	}
	fmt.Printf("all-properties worst=%d\n", worst)
	return worst
}

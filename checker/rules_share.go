package main

import (
	"fmt"
	"go/token"
	"go/types"
	"strings"

	"golang.org/x/tools/go/ssa"
)

// ---------------------------------------------------------------------------------------
// Sharing and determinism: R-OWN (+R-ATOMIC), R-HASH-PURE, R-JOBS-INERT, R-NONDET, R-BWT-WORKER
// ---------------------------------------------------------------------------------------

func init() {
	register("R-OWN", "every reference-typed field handed to a block task is per-task, fresh, atomic-only, immutable, token-guarded or a sync object; the parent touches the shared counter only while no task is live", false, ruleOwn)
	register("R-HASH-PURE", "the block hashers keep no mutable state: Hash writes nothing through its receiver or a global, SetSeed is unreachable from task code", true, ruleHashPure)
	register("R-JOBS-INERT", "the per-task job count is not observable in the forward (compression) direction", true, ruleJobsInert)
	register("R-NONDET", "no nondeterministic API, select statement or order-dependent map iteration on the compression path", true, ruleNondet)
	register("R-BWT-WORKER", "inverse-BWT worker goroutines store only through their dst (and private result) parameters", false, ruleBwtWorker)
}

// loopOf returns the set of blocks of the innermost natural cycle containing b (nil if none).
func cycleOf(b *ssa.BasicBlock) map[*ssa.BasicBlock]bool {
	fwd := reach(b, nil, nil)
	out := map[*ssa.BasicBlock]bool{}
	for x := range fwd {
		if x == b {
			continue
		}
		if reach(x, nil, nil)[b] {
			out[x] = true
		}
	}
	if len(out) == 0 {
		for _, s := range b.Succs {
			if s == b {
				out[b] = true
			}
		}
		if len(out) == 0 {
			return nil
		}
	}
	out[b] = true
	return out
}

// isInduction: v is a phi that is incremented by a constant on a back edge.
func isInduction(v ssa.Value) bool {
	ph, ok := v.(*ssa.Phi)
	if !ok {
		return false
	}
	for _, e := range ph.Edges {
		if add, ok := e.(*ssa.BinOp); ok && add.Op == token.ADD {
			if add.X == ssa.Value(ph) {
				if _, ok := constInt(add.Y); ok {
					return true
				}
			}
		}
	}
	return false
}

// perTaskIndex: idx is the loop induction variable, possibly plus a loop-invariant offset.
func perTaskIndex(idx ssa.Value, loop map[*ssa.BasicBlock]bool) bool {
	if isInduction(idx) {
		return true
	}
	if add, ok := idx.(*ssa.BinOp); ok && add.Op == token.ADD {
		inv := func(v ssa.Value) bool {
			in, ok := v.(ssa.Instruction)
			if !ok {
				return true // constants, parameters
			}
			// loads of receiver fields are treated as loop-invariant (the parent does not change jobs while tasks are created)
			if _, ok := v.(*ssa.UnOp); ok {
				return true
			}
			return !loop[in.Block()]
		}
		return (isInduction(add.X) && inv(add.Y)) || (isInduction(add.Y) && inv(add.X))
	}
	return false
}

func ruleOwn(p *Prog, r *RuleResult) {
	nfields := 0
	for _, owner := range []string{"Writer", "Reader"} {
		s := resolveSide(p, owner)
		pb := s.parent
		pname := p.FnName(pb)
		g := s.gos[0]
		loop := cycleOf(g.Block())
		if loop == nil {
			r.fail(pname+"#task-loop", p.IPos(g), "the go statement is not inside a loop: cannot identify per-task state")
			continue
		}
		// stores into the task literal: in processBlock itself, or in a builder helper called from the task loop
		// (then the builder's parameters are replaced by the arguments of that call)
		st := s.taskT.Underlying().(*types.Struct)
		inits := map[*types.Var]ssa.Value{}
		builder, bcall := taskBuilder(p, s)
		resolve := func(v ssa.Value) ssa.Value {
			if pr, ok := v.(*ssa.Parameter); ok && builder != pb && bcall != nil {
				for i, q := range builder.Params {
					if q == pr && i < len(bcall.Common().Args) {
						v = bcall.Common().Args[i]
					}
				}
			}
			// the launcher itself may be a helper of processBlock: its parameters are the arguments of that call
			if pr, ok := v.(*ssa.Parameter); ok && pr.Parent() == pb && s.entry != pb {
				eachInstr(s.entry, func(i ssa.Instruction) {
					if c := callOf(i); c != nil && c.StaticCallee() == pb {
						for k, q := range pb.Params {
							if q == pr && k < len(c.Args) {
								v = c.Args[k]
							}
						}
					}
				})
			}
			return v
		}
		eachInstr(builder, func(i ssa.Instruction) {
			sto, ok := i.(*ssa.Store)
			if !ok {
				return
			}
			fa, ok := sto.Addr.(*ssa.FieldAddr)
			if !ok || namedOf(fa.X.Type()) != s.taskT {
				return
			}
			inits[fieldVarOfAddr(fa)] = sto.Val
		})
		inLoop := func(in ssa.Instruction) bool {
			if in.Parent() == pb {
				return loop[in.Block()]
			}
			// allocated inside the builder: fresh per call, and the call sits in the loop
			return bcall != nil && in.Parent() == builder && loop[bcall.Block()]
		}
		hashers := map[*types.Var]bool{}
		for _, hf := range hasherFields(p, s) {
			hashers[hf] = true
		}
		for i := 0; i < st.NumFields(); i++ {
			fv := st.Field(i)
			if !refLike(fv.Type()) {
				continue
			}
			nfields++
			key := fmt.Sprintf("%s#task-field.%s", pname, fv.Name())
			v, ok := inits[fv]
			if !ok {
				r.ok(key+": not initialised (nil)", p.IPos(g))
				continue
			}
			v = resolve(v)
			pos := p.Pos(v.Pos())
			if in, ok := v.(ssa.Instruction); ok {
				pos = p.IPos(in)
			}
			switch {
			case fv == s.counter:
				// shared-atomic: every use of the pointer in task code is argument 0 of a sync/atomic call
				bad := false
				for _, fn := range append([]*ssa.Function{s.fn}, s.fn.AnonFuncs...) {
					eachInstr(fn, func(i ssa.Instruction) {
						val, ok := i.(ssa.Value)
						if !ok || fieldVarOfLoad(val) != s.counter {
							return
						}
						for _, ref := range *val.Referrers() {
							c := callOf(ref)
							if c != nil {
								if h := c.StaticCallee(); h != nil && h.Blocks != nil && FnPkg(h) == FnPkg(fn) {
									okH := true
									for ai, a := range c.Args {
										if a == val && (ai >= len(h.Params) || !atomicOnlyParam(h, h.Params[ai], 0)) {
											okH = false
										}
									}
									if okH {
										continue
									}
								}
							}
							if c == nil || c.StaticCallee() == nil || c.StaticCallee().Pkg == nil || c.StaticCallee().Pkg.Pkg.Path() != "sync/atomic" || len(c.Args) == 0 || c.Args[0] != val {
								bad = true
								r.fail(fmt.Sprintf("%s#non-atomic-counter-use", p.FnName(fn)), p.IPos(ref), "the shared block counter is accessed other than through sync/atomic in task code (data race)")
							}
						}
					})
				}
				if !bad {
					r.ok(key+": shared-atomic (every task access goes through sync/atomic)", pos)
				}
			case fv == s.stream:
				r.ok(key+": shared-token (guarded by R-TOKEN)", pos)
			case fv == s.wg:
				if al, ok := v.(*ssa.Alloc); ok && al.Parent() == pb {
					r.ok(key+": sync object local to this batch", pos)
				} else {
					r.fail(key, pos, "the WaitGroup handed to the tasks is not a local of this batch")
				}
			case hashers[fv]:
				r.ok(key+": shared-immutable hasher (R-HASH-PURE)", pos)
			default:
				switch x := v.(type) {
				case *ssa.Call:
					_, isSliceField := fv.Type().Underlying().(*types.Slice)
					if isPkgFunc(&x.Call, "slices", "Clone") || isPkgFunc(&x.Call, "maps", "Clone") || isPkgFunc(&x.Call, "bytes", "Clone") ||
						(isSliceField && returnsFresh(x.Call.StaticCallee()) && !inLoop(x)) {
						// a copy made for this batch (or this task): nobody else holds it; tasks must not write its elements
						wr := false
						for _, fn := range append([]*ssa.Function{s.fn}, s.fn.AnonFuncs...) {
							eachInstr(fn, func(i ssa.Instruction) {
								if ia, ok := i.(*ssa.IndexAddr); ok && fieldVarOfLoad(ia.X) == fv {
									for _, ref := range *ia.Referrers() {
										if sto, ok := ref.(*ssa.Store); ok && sto.Addr == ssa.Value(ia) {
											wr = true
										}
									}
								}
							})
						}
						if wr {
							r.fail(key, pos, fmt.Sprintf("task field %s is shared by all tasks and written in task code", fv.Name()))
						} else {
							r.ok(key+": shared-immutable (cloned copy, no element store in task code)", pos)
						}
					} else if h := x.Call.StaticCallee(); returnsFresh(h) && inLoop(x) {
						r.ok(key+": fresh per task (returned by "+h.Name()+", which allocates it, inside the task loop)", pos)
					} else {
						r.fail(key, pos, fmt.Sprintf("unclassified shared state: task field %s is produced by a call that is not known to return a fresh object per task", fv.Name()))
					}
				case *ssa.IndexAddr:
					if perTaskIndexR(x.Index, loop, resolve) {
						r.ok(key+": per-task element (index = loop variable)", pos)
					} else {
						r.fail(key, pos, fmt.Sprintf("task field %s points to an element whose index is not the task loop variable: several tasks share (and concurrently write) the same slot", fv.Name()))
					}
				case *ssa.MakeMap, *ssa.MakeSlice, *ssa.Alloc:
					in := v.(ssa.Instruction)
					if inLoop(in) {
						r.ok(key+": fresh per task (allocated inside the task loop)", pos)
					} else if _, isSlice := fv.Type().Underlying().(*types.Slice); isSlice {
						// copied slice shared read-only: no element store through it in task code
						wr := false
						for _, fn := range append([]*ssa.Function{s.fn}, s.fn.AnonFuncs...) {
							eachInstr(fn, func(i ssa.Instruction) {
								if ia, ok := i.(*ssa.IndexAddr); ok && fieldVarOfLoad(ia.X) == fv {
									for _, ref := range *ia.Referrers() {
										if sto, ok := ref.(*ssa.Store); ok && sto.Addr == ssa.Value(ia) {
											wr = true
										}
									}
								}
							})
						}
						if wr {
							r.fail(key, pos, fmt.Sprintf("task field %s is shared by all tasks and written in task code", fv.Name()))
						} else {
							r.ok(key+": shared-immutable (batch-local copy, no element store in task code)", pos)
						}
					} else {
						r.fail(key, pos, fmt.Sprintf("task field %s is allocated once outside the task loop and shared by all tasks", fv.Name()))
					}
				default:
					r.fail(key, pos, fmt.Sprintf("unclassified shared state: task field %s (%s) is initialised from %T, which is neither per-task, fresh, atomic, immutable, token-guarded nor a sync object", fv.Name(), fv.Type(), v))
				}
			}
		}
		// result slot passed to the task: &results[taskID]
		for _, gg := range s.gos {
			for _, arg := range gg.Call.Args {
				if ia, ok := arg.(*ssa.IndexAddr); ok {
					if perTaskIndex(ia.Index, loop) {
						r.ok(fmt.Sprintf("%s#result-slot: per-task element", pname), p.IPos(gg))
					} else {
						r.fail(pname+"#result-slot", p.IPos(gg), "the result slot handed to the task is not indexed by the task loop variable")
					}
				}
			}
		}
		// only tasks write the shared counter: Writer/Reader methods never store into it (a parent that "finishes" or
		// cancels the stream on its own makes later blocks disappear without an error)
		for _, mf := range p.ModFns {
			if p.Rel(mf) != "io" || mf.Signature.Recv() == nil || namedOf(mf.Signature.Recv().Type()) == nil || namedOf(mf.Signature.Recv().Type()).Obj().Name() != owner {
				continue
			}
			eachInstr(mf, func(i ssa.Instruction) {
				isW := false
				if c := callOf(i); c != nil && isAtomic(c, "StoreInt32", "SwapInt32", "AddInt32", "CompareAndSwapInt32") && len(c.Args) > 0 && fieldVarOfAddr(c.Args[0]) == s.parentCounter {
					isW = true
				}
				if sto, ok := i.(*ssa.Store); ok && fieldVarOfAddr(sto.Addr) == s.parentCounter {
					isW = true
				}
				if isW {
					r.fail(p.FnName(mf)+"#parent-writes-counter", p.IPos(i), "a method of the "+owner+" itself writes the shared block counter: only the block tasks may advance or cancel it; a parent that marks the stream finished/cancelled drops the remaining blocks without an error")
				}
			})
		}
		// parent: plain (non-atomic) accesses to the counter field only while no task is live
		waits := map[ssa.Instruction]bool{}
		eachInstr(pb, func(i ssa.Instruction) {
			if c := callOf(i); c != nil && isMethodNamed(c, "sync", "WaitGroup", "Wait") {
				waits[i] = true
			}
		})
		eachInstr(pb, func(i ssa.Instruction) {
			var addr ssa.Value
			switch x := i.(type) {
			case *ssa.UnOp:
				if x.Op == token.MUL {
					addr = x.X
				}
			case *ssa.Store:
				addr = x.Addr
			}
			if addr == nil {
				return
			}
			fv := fieldVarOfAddr(addr)
			if fv == nil || fv != s.parentCounter {
				return
			}
			live := false
			for _, gg := range s.gos {
				if pathAvoiding(gg.Block(), instrIndex(gg)+1, i, waits) {
					live = true
				}
			}
			if live {
				r.fail(pname+"#plain-counter-access", p.IPos(i), "the parent reads/writes the shared block counter non-atomically while tasks may be running")
			} else {
				r.ok(pname+": plain access to the counter only while no task is live", p.IPos(i))
			}
		})
	}
	r.floor(14, nfields, "reference-typed task fields (encode + decode)")
}

// ---------------- R-HASH-PURE ----------------

func ruleHashPure(p *Prog, r *RuleResult) {
	pk := p.Pkg("hash")
	fl := NewFlow(p, true)
	var roots []*ssa.Function
	var setSeeds []*ssa.Function
	for _, name := range sortedKeys(pk.Members) {
		tm, ok := pk.Members[name].(*ssa.Type)
		if !ok {
			continue
		}
		if f := p.MethodOpt("hash", name, "Hash"); f != nil && f.Blocks != nil {
			roots = append(roots, f)
			fl.Add(f.Params[0])
		}
		if f := p.MethodOpt("hash", name, "SetSeed"); f != nil && f.Blocks != nil {
			setSeeds = append(setSeeds, f)
		}
		_ = tm
	}
	for _, name := range sortedKeys(pk.Members) {
		if g, ok := pk.Members[name].(*ssa.Global); ok {
			fl.Add(g)
		}
	}
	fl.Run()
	scope := p.Reachable(roots, func(f *ssa.Function) bool { return !p.InModule(f) })
	sinks := aliasSinks(p, fl, func(f *ssa.Function) bool { return scope[f] })
	var k keyer
	for _, s := range sinks {
		r.sink(k.key(p.FnName(s.fn), "hasher-state-write."+strings.Fields(s.what)[0]), p.IPos(s.in),
			"the block hasher, shared by all concurrent tasks of a stream, writes through its receiver (or a package variable) while hashing: concurrent tasks race and checksums depend on the schedule")
	}
	if len(sinks) == 0 {
		r.ok(fmt.Sprintf("%d Hash methods and callees: no store through the receiver or a package variable", len(roots)), p.Pos(roots[0].Pos()))
	}
	// SetSeed unreachable from task code
	var taskRoots []*ssa.Function
	for _, owner := range []string{"Writer", "Reader"} {
		if pkio := p.ByRel["io"]; pkio != nil && pkio.Type(owner) != nil && p.MethodOpt("io", owner, "processBlock") != nil {
			s := resolveSide(p, owner)
			taskRoots = append(taskRoots, s.fn)
		}
	}
	tr := p.Reachable(taskRoots, func(f *ssa.Function) bool { return !p.InModule(f) })
	for _, ss := range setSeeds {
		if tr[ss] {
			r.sink(p.FnName(ss)+"#reachable-from-task", p.Pos(ss.Pos()), "SetSeed is reachable from task code: the shared hasher would be mutated concurrently")
		} else {
			r.ok(p.FnName(ss)+" is not reachable from task code", p.Pos(ss.Pos()))
		}
	}
	r.floor(2, len(roots), "Hash methods")
}

// ---------------- R-JOBS-INERT ----------------

func ruleJobsInert(p *Prog, r *RuleResult) {
	fl := NewFlow(p, false)
	// field-based, without propagation through calls: shared helpers (Log2, ComputeJobsPerTask) are called from both
	// directions and a context-insensitive propagation through them would connect unrelated callers
	fl.ExtResult = func(c *ssa.CallCommon) bool { return false }
	fl.NoEnter = func(f *ssa.Function) bool { return true }
	nsrc := 0
	for _, f := range p.ModFns {
		rel := p.Rel(f)
		if !isLibRel(rel) || rel == "io" {
			continue
		}
		eachInstr(f, func(i ssa.Instruction) {
			if l, ok := i.(*ssa.Lookup); ok && isCtxMap(l.X.Type()) {
				if k, ok := ctxKey(l.X, l.Index); ok && k == "jobs" {
					fl.Add(l)
					nsrc++
					r.info("source: ctx[\"jobs\"] read in "+p.FnName(f), p.IPos(i))
				}
			}
		})
	}
	fl.Run()
	// forward-direction roots: Forward methods of transforms, Write/Dispose of entropy encoders, MaxEncodedLen
	var roots []*ssa.Function
	for _, f := range p.ModFns {
		if f.Signature.Recv() == nil || f.Parent() != nil {
			continue
		}
		rel := p.Rel(f)
		n := f.Name()
		if rel == "transform" && (n == "Forward" || n == "MaxEncodedLen") {
			roots = append(roots, f)
		}
		if rel == "entropy" && (n == "Write" || n == "Dispose") {
			if tn := namedOf(f.Signature.Recv().Type()); tn != nil && strings.Contains(tn.Obj().Name(), "Encoder") {
				roots = append(roots, f)
			}
		}
	}
	scope := p.Reachable(roots, func(f *ssa.Function) bool { return !p.InModule(f) })
	var k keyer
	nscope := 0
	for _, f := range p.ModFns {
		if !scope[f] || !isLibRel(p.Rel(f)) {
			continue
		}
		nscope++
		eachInstr(f, func(i ssa.Instruction) {
			v, ok := i.(ssa.Value)
			if !ok || !fl.Tainted(v) {
				return
			}
			// a job-count-derived value materialises in forward-direction code: a read of the context cell or a
			// load of a field that holds it
			isSrc := false
			if _, ok := i.(*ssa.Lookup); ok {
				isSrc = true
			}
			if fv := fieldVarOfLoad(v); fv != nil && fl.fields[fv] {
				isSrc = true
			}
			if fld, ok := i.(*ssa.Field); ok {
				if st, ok := fld.X.Type().Underlying().(*types.Struct); ok && fl.fields[st.Field(fld.Field)] {
					isSrc = true
				}
			}
			if !isSrc {
				return
			}
			r.sink(k.key(p.FnName(f), "jobs-observed"), p.IPos(i), "a value derived from the per-task job count is read in the forward (compression) direction: the produced bits can depend on the number of jobs")
		})
	}
	if len(r.Findings) == 0 {
		r.ok(fmt.Sprintf("%d source(s); %d forward-direction functions: none reads a job-count-derived value", nsrc, nscope), "-")
	}
	r.floor(1, nsrc, "reads of ctx[\"jobs\"] in codec packages")
}

// ---------------- R-NONDET ----------------

func ruleNondet(p *Prog, r *RuleResult) {
	ws := resolveSide(p, "Writer")
	roots := []*ssa.Function{ws.fn, p.Method("io", "Writer", "Write"), p.Method("io", "Writer", "Close"), ws.parent, ws.entry}
	if wh := p.MethodOpt("io", "Writer", "writeHeader"); wh != nil {
		roots = append(roots, wh)
	}
	scope := p.Reachable(roots, func(f *ssa.Function) bool { return !p.InModule(f) })
	banned := map[string]map[string]bool{
		"math/rand":    nil,
		"math/rand/v2": nil,
		"crypto/rand":  nil,
		"os":           {"Getenv": true, "Getpid": true, "Hostname": true, "Environ": true, "LookupEnv": true, "Getppid": true, "Getuid": true},
		"runtime":      {"NumCPU": true, "GOMAXPROCS": true, "NumGoroutine": true},
	}
	var k keyer
	nfn, ntime, nrange := 0, 0, 0
	for _, f := range p.ModFns {
		if !scope[f] || !isLibRel(p.Rel(f)) {
			continue
		}
		nfn++
		fname := p.FnName(f)
		eachInstr(f, func(i ssa.Instruction) {
			switch x := i.(type) {
			case *ssa.Select:
				r.sink(k.key(fname, "select"), p.IPos(i), "select statement on the compression path: the chosen case depends on the schedule")
			case *ssa.Range:
				if _, ok := x.X.Type().Underlying().(*types.Map); !ok {
					return
				}
				nrange++
				// accepted idiom: the body only copies (k, v) into another map
				okIdiom := true
				for _, ref := range *x.Referrers() {
					nx, ok := ref.(*ssa.Next)
					if !ok {
						okIdiom = false
						continue
					}
					for _, r2 := range *nx.Referrers() {
						ex, ok := r2.(*ssa.Extract)
						if !ok {
							okIdiom = false
							continue
						}
						for _, r3 := range *ex.Referrers() {
							switch y := r3.(type) {
							case *ssa.If:
								if ex.Index != 0 {
									okIdiom = false
								}
							case *ssa.MapUpdate:
								_ = y
							case *ssa.DebugRef:
							default:
								okIdiom = false
							}
						}
					}
				}
				if !okIdiom {
					r.sink(k.key(fname, "map-range"), p.IPos(i), "iteration over a map on the compression path with a body other than a map copy: Go randomises map order, so the result can differ between runs")
				}
			case ssa.CallInstruction:
				c := x.Common()
				o := calleeObj(c)
				if o == nil || o.Pkg() == nil {
					return
				}
				path := o.Pkg().Path()
				names, isBanned := banned[path]
				if isBanned && (names == nil || names[o.Name()]) {
					r.sink(k.key(fname, path+"."+o.Name()), p.IPos(i), fmt.Sprintf("%s.%s on the compression path: the output can differ between runs or machines", path, o.Name()))
					return
				}
				if isMethodNamed(c, "sync", "Pool", "Get") {
					r.sink(k.key(fname, "sync.Pool.Get"), p.IPos(i), "sync.Pool.Get on the compression path: the object handed out is whichever one an earlier block, stream or job left behind (or a fresh one after a GC), so any state in it that is not overwritten makes the output depend on the history of the process and on the job count")
					return
				}
				if path == "time" && o.Name() == "Now" && o.Type().(*types.Signature).Recv() == nil {
					ntime++
					if p.Rel(f) == "" && strings.HasPrefix(f.Name(), "NewEvent") {
						return // default timestamp of a listener event, inside the event constructor itself
					}
					cv, ok := i.(ssa.Value)
					if !ok {
						return
					}
					for _, ref := range *cv.Referrers() {
						okUse := false
						if cc := callOf(ref); cc != nil {
							if co := calleeObj(cc); co != nil && co.Pkg() != nil && co.Pkg().Path() == p.ModPath && strings.HasPrefix(co.Name(), "NewEvent") {
								okUse = true
							}
						}
						if _, isDbg := ref.(*ssa.DebugRef); isDbg {
							okUse = true
						}
						if !okUse {
							r.sink(k.key(fname, "time.Now"), p.IPos(ref), "a time.Now() value on the compression path flows into something other than a listener event")
						}
					}
				}
			}
		})
	}
	if len(r.Findings) == 0 {
		r.ok(fmt.Sprintf("%d library functions reachable from the compression path: no rand/env/cpu-count call, no select, %d map ranges (all copy idiom), %d time.Now() (all event timestamps)", nfn, nrange, ntime), "-")
	}
	r.floor(50, nfn, "library functions reachable from the compression path")
}

// ---------------- R-BWT-WORKER ----------------

func ruleBwtWorker(p *Prog, r *RuleResult) {
	nworkers := 0
	for _, f := range p.ModFns {
		if p.Rel(f) != "transform" {
			continue
		}
		eachInstr(f, func(i ssa.Instruction) {
			g, ok := i.(*ssa.Go)
			if !ok {
				return
			}
			var w *ssa.Function
			var mc *ssa.MakeClosure
			if m, ok := g.Call.Value.(*ssa.MakeClosure); ok {
				mc = m
				w = m.Fn.(*ssa.Function)
			} else {
				w = g.Call.StaticCallee()
			}
			if w == nil {
				r.fail(p.FnName(f)+"#worker", p.IPos(g), "worker goroutine with dynamic callee")
				return
			}
			nworkers++
			fl := NewFlow(p, true)
			// everything the worker can reach is shared, except its dst parameter ([]byte) and per-worker result pointers
			for _, fv := range w.FreeVars {
				t := derefType(fv.Type())
				if n := namedOf(t); n != nil && n.Obj().Pkg() != nil && n.Obj().Pkg().Path() == "sync" {
					continue
				}
				fl.Add(fv)
				// free variables are cells: what they hold is shared as well
				fl.taintLoadsOf(fv)
			}
			_ = mc
			private := 0
			for idx, prm := range w.Params {
				arg := g.Call.Args[idx]
				// private: per-iteration element address (&errs[j]) or the destination byte slice named dst
				if ia, ok := arg.(*ssa.IndexAddr); ok && perTaskIndex(ia.Index, cycleOf(g.Block())) {
					private++
					continue
				}
				if prm.Name() == "dst" {
					private++
					continue
				}
				if refLike(prm.Type()) {
					fl.Add(prm)
				}
			}
			fl.Run()
			scope := p.Reachable([]*ssa.Function{w}, func(x *ssa.Function) bool { return !p.InModule(x) })
			sinks := aliasSinks(p, fl, func(x *ssa.Function) bool { return scope[x] })
			var k keyer
			for _, s := range sinks {
				r.fail(k.key(p.FnName(s.fn), "shared-write."+strings.Fields(s.what)[0]), p.IPos(s.in),
					"a BWT worker goroutine writes to state it shares with its sibling workers (not its dst range or private result): data race, output depends on the schedule")
			}
			if len(sinks) == 0 {
				r.ok(fmt.Sprintf("%s: worker %s and %d reachable functions store only through dst / private slots (%d private params, %d shared values tracked)", p.FnName(f), p.FnName(w), len(scope), private, fl.Count()), p.IPos(g))
			}
		})
	}
	r.floor(1, nworkers, "worker goroutines in package transform")
}

// taskBuilder returns the function that fills the task literal (processBlock itself or a helper it calls) and, for a
// helper, the call instruction in processBlock.
func taskBuilder(p *Prog, s *taskSide) (*ssa.Function, ssa.CallInstruction) {
	has := func(f *ssa.Function) bool {
		found := false
		eachInstr(f, func(i ssa.Instruction) {
			if sto, ok := i.(*ssa.Store); ok {
				if fa, ok := sto.Addr.(*ssa.FieldAddr); ok && namedOf(fa.X.Type()) == s.taskT && fieldVarOfAddr(fa) == s.curID {
					found = true
				}
			}
		})
		return found
	}
	if has(s.parent) {
		return s.parent, nil
	}
	for _, h := range p.helperClosure(s.parent) {
		if !has(h) {
			continue
		}
		var call ssa.CallInstruction
		eachInstr(s.parent, func(i ssa.Instruction) {
			if ci, ok := i.(ssa.CallInstruction); ok && ci.Common().StaticCallee() == h {
				call = ci
			}
		})
		if call != nil {
			return h, call
		}
	}
	return s.parent, nil
}

// perTaskIndexR: like perTaskIndex, after replacing builder parameters by call-site arguments.
func perTaskIndexR(idx ssa.Value, loop map[*ssa.BasicBlock]bool, resolve func(ssa.Value) ssa.Value) bool {
	idx = resolve(idx)
	if perTaskIndex(idx, loop) {
		return true
	}
	if add, ok := idx.(*ssa.BinOp); ok && add.Op == token.ADD {
		x, y := resolve(add.X), resolve(add.Y)
		return (isInduction(x) && !isInduction(y)) || (isInduction(y) && !isInduction(x))
	}
	return false
}

package main

import (
	"fmt"
	"go/token"
	"go/types"
	"sort"
	"strings"

	"golang.org/x/tools/go/ssa"
)

// Rules added after seeding round 6.

func init() {
	register("R-RESULT-SLOT", "the result slot handed to a block task is an element of the very slice the parent scans after Wait, and that slice cannot be re-allocated between the hand-out and the scan", false, ruleResultSlot)
	register("R-BS-PANIC", "no bitstream implementation (wrappers included) swallows a failure of a read or write operation: a recover() in the bitstream package re-raises or returns an error on every path", false, ruleBsPanic)
	register("R-SORT-TIES", "codec code never leaves the order of equal keys to an unstable library sort (the order of ties is part of the wire format)", false, ruleSortTies)
	register("R-APP-OWN", "per-file tasks of the command-line tool share no buffer they write: every slice a task reads into or copies into is allocated per task", false, ruleAppOwn)
}

// sliceLeaves collects the values a slice-typed SSA value can originate from, looking through phis, re-slicing,
// conversions and local cells. An append call is reported as a leaf of its own (kind "append").
type sliceLeaf struct {
	kind string // make, append, nil, param, other
	v    ssa.Value
}

func sliceLeaves(v ssa.Value) []sliceLeaf {
	var out []sliceLeaf
	seen := map[ssa.Value]bool{}
	var walk func(v ssa.Value)
	walk = func(v ssa.Value) {
		if v == nil || seen[v] {
			return
		}
		seen[v] = true
		switch x := v.(type) {
		case *ssa.Phi:
			for _, e := range x.Edges {
				walk(e)
			}
		case *ssa.Slice:
			walk(x.X)
		case *ssa.ChangeType:
			walk(x.X)
		case *ssa.MakeSlice:
			out = append(out, sliceLeaf{"make", x})
		case *ssa.Const:
			out = append(out, sliceLeaf{"nil", x})
		case *ssa.Parameter:
			out = append(out, sliceLeaf{"param", x})
		case *ssa.Call:
			if b, ok := x.Call.Value.(*ssa.Builtin); ok && b.Name() == "append" {
				out = append(out, sliceLeaf{"append", x})
				return
			}
			out = append(out, sliceLeaf{"other", x})
		case *ssa.UnOp:
			if x.Op == token.MUL {
				if al, ok := x.X.(*ssa.Alloc); ok {
					// local cell (captured or address-taken variable): every value stored into it
					n := 0
					for _, ref := range *al.Referrers() {
						if st, ok := ref.(*ssa.Store); ok && st.Addr == al {
							walk(st.Val)
							n++
						}
					}
					if n > 0 {
						return
					}
				}
			}
			out = append(out, sliceLeaf{"other", x})
		default:
			out = append(out, sliceLeaf{"other", x})
		}
	}
	walk(v)
	return out
}

func ruleResultSlot(p *Prog, r *RuleResult) {
	n := 0
	for _, owner := range []string{"Writer", "Reader"} {
		s := resolveSide(p, owner)
		fname := p.FnName(s.parent)
		var slotSlices []ssa.Value
		for gi, g := range s.gos {
			var slot ssa.Value
			for _, a := range g.Call.Args {
				if pt, ok := a.Type().Underlying().(*types.Pointer); ok && namedOf(pt.Elem()) == s.resT && s.resT != nil {
					if namedOf(a.Type()) == s.taskT {
						continue
					}
					slot = a
				}
			}
			key := fmt.Sprintf("%s#go#%d", fname, gi+1)
			if slot == nil {
				undecided("%s: cannot identify the result slot handed to the task", key)
			}
			n++
			ia, ok := slot.(*ssa.IndexAddr)
			if !ok {
				if al, ok := slot.(*ssa.Alloc); ok && al.Heap {
					r.ok(key+": the result slot is a fresh allocation per task", p.IPos(g))
					continue
				}
				r.note("%s: result slot is not an element of a slice (NOT DECIDED)", key)
				continue
			}
			leaves := sliceLeaves(ia.X)
			bad := false
			for _, lf := range leaves {
				if lf.kind != "append" {
					continue
				}
				// growing the slice while slots are handed out: the earlier slots stay in the old backing array unless
				// the capacity was reserved up front
				base := sliceLeaves(lf.v.(*ssa.Call).Call.Args[0])
				reserved := false
				unreserved := false
				for _, bl := range base {
					switch bl.kind {
					case "make":
						mk := bl.v.(*ssa.MakeSlice)
						if mk.Cap != mk.Len {
							reserved = true
						} else {
							unreserved = true
						}
					case "append":
					default:
						unreserved = true
					}
				}
				if !reserved || unreserved {
					bad = true
					r.fail(key+"#slot-reallocated", p.IPos(lf.v.(*ssa.Call)), "the slice of task results grows by append while pointers to its elements are handed to running tasks: append moves the elements to a new array, the earlier tasks keep writing their result (and their error) into the abandoned one and the parent never sees it – a failed block is reported as success")
				}
			}
			if !bad {
				r.ok(key+": the result slot is an element of a slice that is not re-allocated while tasks hold slots", p.IPos(g))
			}
			slotSlices = append(slotSlices, ia.X)
		}
		// the scan after Wait reads the same slice (only decidable when launch and scan are in one function)
		if s.parent == s.entry && len(slotSlices) > 0 {
			want := map[ssa.Value]bool{}
			for _, x := range slotSlices {
				for _, lf := range sliceLeaves(x) {
					if lf.kind != "append" {
						want[lf.v] = true
					}
				}
			}
			eachInstr(s.entry, func(i ssa.Instruction) {
				ia, ok := i.(*ssa.IndexAddr)
				if !ok {
					return
				}
				et := derefType(ia.Type())
				if namedOf(et) != s.resT {
					return
				}
				if _, isSlice := ia.X.Type().Underlying().(*types.Slice); !isSlice {
					return // element of a temporary array (variadic argument of append)
				}
				isSlot := false
				for _, g := range s.gos {
					for _, a := range g.Call.Args {
						if a == ia {
							isSlot = true
						}
					}
				}
				if isSlot {
					return
				}
				hit := false
				for _, x := range slotSlices {
					if ia.X == x {
						hit = true
					}
				}
				for _, lf := range sliceLeaves(ia.X) {
					if want[lf.v] || lf.kind == "append" {
						hit = true
					}
				}
				n++
				if hit {
					r.ok(fmt.Sprintf("%s: the scan reads the slice the slots were taken from", p.FnName(s.entry)), p.IPos(ia))
				} else {
					r.fail(p.FnName(s.entry)+"#scan-other-slice", p.IPos(ia), "the result scan indexes a slice of task results that is not the one whose elements were handed to the tasks: what the tasks report (errors included) is never read")
				}
			})
		}
	}
	r.floor(2, n, "result slots handed to go statements")
}

// R-BS-PANIC ------------------------------------------------------------------------------------------------------

func ruleBsPanic(p *Prog, r *RuleResult) {
	nfn := 0
	var k keyer
	for _, f := range p.ModFns {
		if p.Rel(f) != "bitstream" {
			continue
		}
		nfn++
		eachInstr(f, func(i ssa.Instruction) {
			c := callOf(i)
			if c == nil {
				return
			}
			b, ok := c.Value.(*ssa.Builtin)
			if !ok || b.Name() != "recover" {
				return
			}
			key := k.key(p.FnName(f), "recover")
			// from the recover call every path to a return passes a panic (re-raise) or the return carries a
			// non-nil error; the path on which recover() returned nil (no failure) is exempt
			rv, _ := i.(ssa.Value)
			nilEdgeTo := map[*ssa.BasicBlock]bool{}
			if rv != nil {
				for _, blk := range f.Blocks {
					if ifi := blockIf(blk); ifi != nil {
						if x, nonNil, ok := nilTest(ifi.Cond); ok && x == rv {
							nilEdgeTo[blk.Succs[1-nonNil]] = true
						}
					}
				}
			}
			bad := false
			var at ssa.Instruction
			seen := map[*ssa.BasicBlock]bool{}
			var dfs func(b *ssa.BasicBlock, from int)
			dfs = func(b *ssa.BasicBlock, from int) {
				for idx := from; idx < len(b.Instrs); idx++ {
					switch x := b.Instrs[idx].(type) {
					case *ssa.Panic:
						return
					case *ssa.Return:
						nres := len(x.Results)
						if nres > 0 && isErrType(x.Results[nres-1].Type()) && !retMayBeNil(x, nres-1) {
							return
						}
						bad = true
						at = x
						return
					}
				}
				for _, sc := range b.Succs {
					if nilEdgeTo[sc] && blockIf(b) != nil {
						if x, _, ok := nilTest(blockIf(b).Cond); ok && x == rv {
							continue
						}
					}
					if !seen[sc] {
						seen[sc] = true
						dfs(sc, 0)
					}
				}
			}
			dfs(i.Block(), instrIndex(i)+1)
			if bad {
				r.fail(key, p.IPos(i), fmt.Sprintf("%s recovers a panic and then returns normally (at %s): a failed bitstream operation – end of the source, closed stream, I/O error – is turned into an ordinary result, so the layer above reads a truncated stream as data or as the end marker", p.FnName(f), p.IPos(at)))
			} else {
				r.ok(key+": the recovered failure is re-raised or returned as an error on every path", p.IPos(i))
			}
		})
	}
	r.ok(fmt.Sprintf("%d functions of the bitstream package scanned for recover()", nfn), "-")
	r.floor(20, nfn, "functions of the bitstream package")
}

// R-SORT-TIES -----------------------------------------------------------------------------------------------------

// sortKeys: the distinct keys an order function compares its two elements by. A key is the access path (fields,
// indexing through captured tables, conversions) that is applied alike to both elements in a comparison, a subtraction
// (three-way comparators return a.k - b.k) or a cmp.Compare-like call. Same-package functions that receive both
// elements are looked into (two levels).
func sortKeys(p *Prog, f *ssa.Function, depth int) map[string]bool {
	keys := map[string]bool{}
	if f == nil || f.Blocks == nil || depth > 2 {
		return keys
	}
	var sig func(v ssa.Value, d int) string
	sig = func(v ssa.Value, d int) string {
		if d > 8 {
			return "?"
		}
		switch x := v.(type) {
		case *ssa.Parameter:
			return "P"
		case *ssa.FreeVar:
			return "F:" + x.Name()
		case *ssa.Alloc:
			// a struct parameter spilled into a local cell
			var stored ssa.Value
			ns := 0
			for _, ref := range *x.Referrers() {
				if st, ok := ref.(*ssa.Store); ok && st.Addr == x {
					stored = st.Val
					ns++
				}
			}
			if ns == 1 {
				if _, ok := stored.(*ssa.Parameter); ok {
					return "P"
				}
			}
			return fmt.Sprintf("A%p", x)
		case *ssa.Const:
			return "c:" + x.String()
		case *ssa.Global:
			return "G:" + x.Name()
		case *ssa.UnOp:
			return sig(x.X, d+1)
		case *ssa.Convert:
			return sig(x.X, d+1)
		case *ssa.ChangeType:
			return sig(x.X, d+1)
		case *ssa.Field:
			return fmt.Sprintf("%s.%d", sig(x.X, d+1), x.Field)
		case *ssa.FieldAddr:
			return fmt.Sprintf("%s.%d", sig(x.X, d+1), x.Field)
		case *ssa.IndexAddr:
			return fmt.Sprintf("%s[%s]", sig(x.X, d+1), sig(x.Index, d+1))
		case *ssa.Index:
			return fmt.Sprintf("%s[%s]", sig(x.X, d+1), sig(x.Index, d+1))
		case *ssa.Lookup:
			return fmt.Sprintf("%s[%s]", sig(x.X, d+1), sig(x.Index, d+1))
		case *ssa.BinOp:
			return fmt.Sprintf("(%s%s%s)", sig(x.X, d+1), x.Op, sig(x.Y, d+1))
		case *ssa.Call:
			out := "call:"
			if o := calleeObj(&x.Call); o != nil {
				out += o.Name()
			}
			for _, a := range x.Call.Args {
				out += "," + sig(a, d+1)
			}
			return out
		}
		return fmt.Sprintf("?%p", v)
	}
	eachInstr(f, func(i ssa.Instruction) {
		switch x := i.(type) {
		case *ssa.BinOp:
			switch x.Op {
			case token.LSS, token.GTR, token.LEQ, token.GEQ, token.EQL, token.NEQ, token.SUB:
				a, b := sig(x.X, 0), sig(x.Y, 0)
				if a == b && strings.Contains(a, "P") {
					keys[a] = true
				}
			}
		case *ssa.Call:
			np := 0
			for _, a := range x.Call.Args {
				if strings.Contains(sig(a, 0), "P") {
					np++
				}
			}
			if np < 2 {
				return
			}
			if g := x.Call.StaticCallee(); g != nil && g.Blocks != nil && p.Rel(g) != "?" && FnPkg(g) == FnPkg(f) {
				for k := range sortKeys(p, g, depth+1) {
					keys["in:"+g.Name()+":"+k] = true
				}
				return
			}
			if len(x.Call.Args) == 2 {
				a, b := sig(x.Call.Args[0], 0), sig(x.Call.Args[1], 0)
				if a == b {
					keys[a] = true
				}
			}
		}
	})
	return keys
}

func ruleSortTies(p *Prog, r *RuleResult) {
	nsort := 0
	var k keyer
	for _, f := range p.ModFns {
		rel := p.Rel(f)
		if rel != "transform" && rel != "entropy" && rel != "io" && rel != "bitstream" && rel != "internal" {
			continue
		}
		eachInstr(f, func(i ssa.Instruction) {
			c := callOf(i)
			if c == nil {
				return
			}
			o := calleeObj(c)
			if o == nil || o.Pkg() == nil || (o.Pkg().Path() != "sort" && o.Pkg().Path() != "slices") {
				return
			}
			name := o.Pkg().Path() + "." + o.Name()
			if !strings.Contains(o.Name(), "Sort") && o.Name() != "Slice" && o.Name() != "SliceStable" && o.Name() != "Stable" && o.Name() != "Ints" && o.Name() != "Strings" && o.Name() != "Float64s" {
				return
			}
			nsort++
			key := k.key(p.FnName(f), name)
			switch name {
			case "sort.Ints", "sort.Strings", "sort.Float64s", "slices.Sort":
				r.ok(key+": natural order of a basic type (equal keys are indistinguishable)", p.IPos(i))
				return
			case "sort.Stable", "sort.SliceStable", "slices.SortStableFunc":
				r.ok(key+": stable sort (ties keep their input order)", p.IPos(i))
				return
			}
			// unstable sort with a caller-supplied order: the comparator must break ties itself
			var cmpFn *ssa.Function
			switch name {
			case "sort.Slice", "slices.SortFunc":
				if len(c.Args) >= 2 {
					switch v := c.Args[1].(type) {
					case *ssa.MakeClosure:
						cmpFn, _ = v.Fn.(*ssa.Function)
					case *ssa.Function:
						cmpFn = v
					}
				}
			case "sort.Sort":
				if len(c.Args) >= 1 {
					var t types.Type
					if mi, ok := c.Args[0].(*ssa.MakeInterface); ok {
						t = mi.X.Type()
					}
					if t != nil {
						if m := p.SSA.LookupMethod(t, o.Pkg(), "Less"); m != nil {
							cmpFn = m
						} else if sel := p.SSA.MethodSets.MethodSet(t).Lookup(nil, "Less"); sel != nil {
							cmpFn = p.SSA.MethodValue(sel)
						}
					}
				}
			}
			if cmpFn == nil || cmpFn.Blocks == nil {
				r.note("%s: the order function of this unstable sort cannot be resolved (NOT DECIDED)", key)
				return
			}
			if nc := len(sortKeys(p, cmpFn, 0)); nc < 2 {
				r.fail(key, p.IPos(i), fmt.Sprintf("%s is not stable and its order function %s compares a single key: the order of elements with equal keys is whatever the library's algorithm produces (it differs from the reference implementation and may change between Go releases), yet only the keys are transmitted – streams written by the reference encoder decode to different bytes", name, p.FnName(cmpFn)))
			} else {
				r.ok(fmt.Sprintf("%s: unstable sort whose order function compares %d different keys (ties broken by a further key)", key, nc), p.IPos(i))
			}
		})
	}
	r.floor(1, nsort, "library sort calls in codec packages")
}

// R-APP-OWN -------------------------------------------------------------------------------------------------------

// writtenThrough: is the slice value v (or a re-slice of it) written in f: element store, copy destination, or handed
// to a Read([]byte) method / io.ReadFull / a same-package function that does so (depth-bounded)?
func writtenThrough(p *Prog, v ssa.Value, depth int, seen map[ssa.Value]bool) (ssa.Instruction, bool) {
	if seen[v] || depth > 4 {
		return nil, false
	}
	seen[v] = true
	refs := v.Referrers()
	if refs == nil {
		return nil, false
	}
	for _, ref := range *refs {
		switch x := ref.(type) {
		case *ssa.Slice:
			if x.X == v {
				if at, w := writtenThrough(p, x, depth, seen); w {
					return at, true
				}
			}
		case *ssa.Phi:
			if at, w := writtenThrough(p, x, depth, seen); w {
				return at, true
			}
		case *ssa.IndexAddr:
			if x.X == v {
				for _, r2 := range *x.Referrers() {
					if st, ok := r2.(*ssa.Store); ok && st.Addr == x {
						return st, true
					}
				}
			}
		case ssa.CallInstruction:
			c := x.Common()
			if b, ok := c.Value.(*ssa.Builtin); ok {
				if b.Name() == "copy" && len(c.Args) > 0 && c.Args[0] == v {
					return x, true
				}
				continue
			}
			if c.IsInvoke() {
				if c.Method.Name() == "Read" && len(c.Args) == 1 && c.Args[0] == v {
					return x, true
				}
				continue
			}
			if isPkgFunc(c, "io", "ReadFull") || isPkgFunc(c, "io", "ReadAtLeast") {
				if len(c.Args) > 1 && c.Args[1] == v {
					return x, true
				}
				continue
			}
			callee := c.StaticCallee()
			if callee == nil || callee.Blocks == nil {
				continue
			}
			if callee.Name() == "Read" && callee.Signature.Recv() != nil && len(c.Args) == 2 && c.Args[1] == v {
				return x, true
			}
			if p.Rel(callee) == "app" {
				for ai, a := range c.Args {
					if a == v && ai < len(callee.Params) {
						if at, w := writtenThrough(p, callee.Params[ai], depth+1, seen); w {
							_ = at
							return x, true
						}
					}
				}
			}
		}
	}
	return nil, false
}

func ruleAppOwn(p *Prog, r *RuleResult) {
	ntask := 0
	var k keyer
	for _, f := range p.ModFns {
		if p.Rel(f) != "app" {
			continue
		}
		eachInstr(f, func(i ssa.Instruction) {
			snd, ok := i.(*ssa.Send)
			if !ok {
				return
			}
			tn := namedOf(snd.X.Type())
			if tn == nil || tn.Obj().Pkg() == nil || tn.Obj().Pkg().Path() != p.ModPath+"/app" {
				return
			}
			st, ok := tn.Underlying().(*types.Struct)
			if !ok {
				return
			}
			// task type: a struct of the app package with methods (what the workers run for a queued value)
			runs := methodsOfNamed(p, tn)
			if len(runs) == 0 {
				return
			}
			ntask++
			key := k.key(p.FnName(f), "send."+tn.Obj().Name())
			if !inCycle(snd.Block()) {
				r.ok(key+": a single task is queued (nothing to share between tasks)", p.IPos(snd))
				return
			}
			// the value sent: load of a local struct cell whose fields were stored before
			var cell *ssa.Alloc
			if u, ok := snd.X.(*ssa.UnOp); ok && u.Op == token.MUL {
				cell, _ = u.X.(*ssa.Alloc)
			}
			if cell == nil {
				r.note("%s: the queued task is not built in a local composite literal (NOT DECIDED)", key)
				return
			}
			loop := map[*ssa.BasicBlock]bool{}
			for b := range reach(snd.Block(), nil, nil) {
				if reach(b, nil, nil)[snd.Block()] {
					loop[b] = true
				}
			}
			var fields []int
			shared := map[int]ssa.Value{}
			for _, ref := range *cell.Referrers() {
				fa, ok := ref.(*ssa.FieldAddr)
				if !ok {
					continue
				}
				for _, r2 := range *fa.Referrers() {
					sto, ok := r2.(*ssa.Store)
					if !ok || sto.Addr != fa {
						continue
					}
					if _, isSlice := st.Field(fa.Field).Type().Underlying().(*types.Slice); !isSlice {
						continue
					}
					perTask := true
					for _, lf := range sliceLeaves(sto.Val) {
						in, ok := lf.v.(ssa.Instruction)
						if lf.kind == "nil" {
							continue
						}
						if !ok || !loop[in.Block()] || (lf.kind != "make" && lf.kind != "append") {
							perTask = false
						}
					}
					if !perTask {
						shared[fa.Field] = sto.Val
						fields = append(fields, fa.Field)
					} else {
						r.ok(fmt.Sprintf("%s: slice field %s is allocated per task", key, st.Field(fa.Field).Name()), p.IPos(sto))
					}
				}
			}
			sort.Ints(fields)
			for _, fi := range fields {
				fv := st.Field(fi)
				// is the field written through anywhere in what a worker runs for the task?
				var at ssa.Instruction
				var scope []*ssa.Function
				seenG := map[*ssa.Function]bool{}
				for _, run := range runs {
					for _, g := range append([]*ssa.Function{run}, p.helperClosure(run)...) {
						if !seenG[g] {
							seenG[g] = true
							scope = append(scope, g)
						}
					}
				}
				for _, g := range scope {
					eachInstr(g, func(j ssa.Instruction) {
						u, ok := j.(*ssa.UnOp)
						if !ok || u.Op != token.MUL || fieldVarOfLoad(u) != fv {
							return
						}
						if w, yes := writtenThrough(p, u, 0, map[ssa.Value]bool{}); yes && at == nil {
							at = w
						}
					})
				}
				if at != nil {
					r.fail(fmt.Sprintf("%s#shared.%s", key, fv.Name()), p.IPos(at), fmt.Sprintf("slice field %s of %s is filled from a value created outside the per-file loop, so all queued tasks share one backing array, and %s writes into it: files processed concurrently overwrite each other's data between read and write – outputs that do not decode to their sources, with exit status 0", fv.Name(), tn.Obj().Name(), p.FnName(at.Parent())))
				} else {
					r.ok(fmt.Sprintf("%s: slice field %s is shared between tasks but only read by them", key, fv.Name()), p.IPos(snd))
				}
			}
		})
	}
	r.floor(2, ntask, "task values queued for the file workers")
}

// R-PACK-WIDTH ----------------------------------------------------------------------------------------------------

func init() {
	register("R-PACK-WIDTH", "an index packed into the upper bits of a 32-bit word by the inverse transforms (int32(i<<k)|v) fits: the size bound under which the packing routine is selected, shifted by k, stays below 2^31", false, rulePackWidth)
}

// upperBoundAt: the smallest constant K such that v <= K is implied at block b of fn by a dominating comparison of v
// with a constant (and, when v is a parameter, by such comparisons at every static call site). ok=false: none found.
func upperBoundAt(p *Prog, fn *ssa.Function, v ssa.Value, b *ssa.BasicBlock, depth int) (int64, bool) {
	best, have := int64(0), false
	take := func(k int64) {
		if !have || k < best {
			best, have = k, true
		}
	}
	for _, blk := range fn.Blocks {
		ifi := blockIf(blk)
		if ifi == nil {
			continue
		}
		atom, pos := condAtom(ifi.Cond)
		bo, ok := atom.(*ssa.BinOp)
		if !ok {
			continue
		}
		op := bo.Op
		var k int64
		if bo.X == v {
			c, ok := constInt(bo.Y)
			if !ok {
				continue
			}
			k = c
		} else if bo.Y == v {
			c, ok := constInt(bo.X)
			if !ok {
				continue
			}
			k = c
			op = mirrorOp(op)
		} else {
			continue
		}
		// atom: v op k. Edge on which v <= K holds:
		var e edge
		var K int64
		switch op {
		case token.LEQ:
			e, K = edge{blk, succFor(pos, true)}, k
		case token.LSS:
			e, K = edge{blk, succFor(pos, true)}, k-1
		case token.GTR:
			e, K = edge{blk, succFor(pos, false)}, k
		case token.GEQ:
			e, K = edge{blk, succFor(pos, false)}, k-1
		case token.EQL:
			e, K = edge{blk, succFor(pos, true)}, k
		default:
			continue
		}
		if blk != b && edgeDominates(fn, e, b) {
			take(K)
		}
	}
	if par, ok := v.(*ssa.Parameter); ok && depth < 3 {
		idx := -1
		for i, q := range fn.Params {
			if q == par {
				idx = i
			}
		}
		worst, all, ncall := int64(0), true, 0
		for _, g := range p.ModFns {
			eachInstr(g, func(i ssa.Instruction) {
				c := callOf(i)
				if c == nil || c.IsInvoke() || c.StaticCallee() != fn || idx < 0 || idx >= len(c.Args) {
					return
				}
				ncall++
				k, ok := upperBoundAt(p, g, c.Args[idx], i.Block(), depth+1)
				if !ok {
					all = false
					return
				}
				if k > worst {
					worst = k
				}
			})
		}
		if ncall > 0 && all {
			take(worst)
		}
	}
	return best, have
}

// loopIndexLimit: v is (an offset of) a unit-step loop counter whose loop continues while counter < n; returns n.
func loopIndexLimit(v ssa.Value) (ssa.Value, int64, bool) {
	off := int64(0)
	if bo, ok := v.(*ssa.BinOp); ok && (bo.Op == token.SUB || bo.Op == token.ADD) {
		if c, ok := constInt(bo.Y); ok {
			if bo.Op == token.SUB {
				off = -c
			} else {
				off = c
			}
			v = bo.X
		}
	}
	ph, ok := v.(*ssa.Phi)
	if !ok {
		return nil, 0, false
	}
	step := false
	for _, e := range ph.Edges {
		if bo, ok := e.(*ssa.BinOp); ok && bo.Op == token.ADD && bo.X == ph {
			if c, ok := constInt(bo.Y); ok && c == 1 {
				step = true
			}
		}
	}
	if !step {
		return nil, 0, false
	}
	ifi := blockIf(ph.Block())
	if ifi == nil {
		return nil, 0, false
	}
	atom, pos := condAtom(ifi.Cond)
	bo, ok := atom.(*ssa.BinOp)
	if !ok {
		return nil, 0, false
	}
	op, x, y := bo.Op, bo.X, bo.Y
	if y == ph {
		op, x, y = mirrorOp(op), y, x
	}
	if x != ph {
		return nil, 0, false
	}
	if !pos {
		op = negateOp(op)
	}
	// the body is the true edge of (counter op n)
	switch op {
	case token.LSS:
		return y, off - 1, true // counter <= n-1
	case token.LEQ:
		return y, off, true
	}
	return nil, 0, false
}

func rulePackWidth(p *Prog, r *RuleResult) {
	var roots []*ssa.Function
	for _, f := range p.ModFns {
		if p.Rel(f) == "transform" && f.Name() == "Inverse" && f.Signature.Recv() != nil {
			roots = append(roots, f)
		}
	}
	seenFn := map[*ssa.Function]bool{}
	var fns []*ssa.Function
	for _, rt := range roots {
		for _, g := range append([]*ssa.Function{rt}, p.helperClosure(rt)...) {
			if !seenFn[g] {
				seenFn[g] = true
				fns = append(fns, g)
			}
		}
	}
	nsite := 0
	var k keyer
	for _, g := range fns {
		eachInstr(g, func(i ssa.Instruction) {
			cv, ok := i.(*ssa.Convert)
			if !ok {
				return
			}
			tb, ok := cv.Type().Underlying().(*types.Basic)
			if !ok || tb.Kind() != types.Int32 {
				return
			}
			sh, ok := cv.X.(*ssa.BinOp)
			if !ok || sh.Op != token.SHL {
				return
			}
			kbits, ok := constInt(sh.Y)
			if !ok || kbits <= 0 || kbits >= 31 {
				return
			}
			if sb, ok := sh.X.Type().Underlying().(*types.Basic); !ok || sb.Kind() != types.Int {
				return
			}
			nsite++
			key := k.key(p.FnName(g), fmt.Sprintf("int32(x<<%d)", kbits))
			n, off, ok := loopIndexLimit(sh.X)
			if !ok {
				r.note("%s at %s: the shifted value is not a unit-step loop counter (NOT DECIDED)", key, p.IPos(i))
				return
			}
			bound, ok := upperBoundAt(p, g, n, i.Block(), 0)
			if !ok {
				// the limit is a parameter that only some call sites bound: a call site whose bound is too large is a
				// violation by itself, whatever the others do
				if par, isPar := n.(*ssa.Parameter); isPar {
					idx := -1
					for k2, q := range g.Params {
						if q == par {
							idx = k2
						}
					}
					for _, cf := range p.ModFns {
						eachInstr(cf, func(j ssa.Instruction) {
							c := callOf(j)
							if c == nil || c.IsInvoke() || c.StaticCallee() != g || idx < 0 || idx >= len(c.Args) {
								return
							}
							if kb, okb := upperBoundAt(p, cf, c.Args[idx], j.Block(), 1); okb && kb+off > (int64(1)<<31-1)>>uint(kbits) && !ok {
								bound, ok = kb, true
							}
						})
					}
				}
				if !ok {
					r.note("%s at %s: no constant bound of the loop limit is established on the way to this routine (NOT DECIDED)", key, p.IPos(i))
					return
				}
			}
			maxIdx := bound + off
			if maxIdx < 0 {
				maxIdx = 0
			}
			if maxIdx > (int64(1)<<31-1)>>uint(kbits) {
				r.fail(key, p.IPos(i), fmt.Sprintf("%s packs a position into the upper %d bits of an int32 (x<<%d), but the routine is selected for sizes up to %d: positions above %d overflow into the sign bit, the packed word is later used as an index – the inverse transform panics (index out of range) on a block the compressor produced without complaint", p.FnName(g), 32-kbits, kbits, bound, (int64(1)<<31-1)>>uint(kbits)))
			} else {
				r.ok(fmt.Sprintf("%s: positions up to %d fit in the upper %d bits (limit %d)", key, maxIdx, 31-kbits, (int64(1)<<31-1)>>uint(kbits)), p.IPos(i))
			}
		})
	}
	r.floor(1, nsite, "int32(x<<k) packing sites in the inverse transforms")
}

// R-FIELD-WIDTH ---------------------------------------------------------------------------------------------------

func init() {
	register("R-FIELD-WIDTH", "a header field written with a width chosen at run time (16*k bits of the size hint) holds a value that fits that width on every path: the tests that choose k imply 0 <= value < 2^(16k)", false, ruleFieldWidth)
}

// fieldIntervalAt: bounds of the field fv (loads of it anywhere in fn; fn must not store it) implied at block b by
// dominating comparisons of a load of fv with a constant.
func fieldIntervalAt(fn *ssa.Function, fv *types.Var, b *ssa.BasicBlock) (lo int64, hasLo bool, hi int64, hasHi bool) {
	for _, blk := range fn.Blocks {
		ifi := blockIf(blk)
		if ifi == nil {
			continue
		}
		atom, pos := condAtom(ifi.Cond)
		bo, ok := atom.(*ssa.BinOp)
		if !ok {
			continue
		}
		op := bo.Op
		var k int64
		if fieldVarOfLoad(stripConv(bo.X)) == fv {
			c, ok := constInt(bo.Y)
			if !ok {
				continue
			}
			k = c
		} else if fieldVarOfLoad(stripConv(bo.Y)) == fv {
			c, ok := constInt(bo.X)
			if !ok {
				continue
			}
			k = c
			op = mirrorOp(op)
		} else {
			continue
		}
		for side := 0; side < 2; side++ {
			truth := side == 0
			e := edge{blk, succFor(pos, truth)}
			if blk == b || !edgeDominates(fn, e, b) {
				continue
			}
			o := op
			if !truth {
				o = negateOp(o)
			}
			switch o {
			case token.LSS:
				if !hasHi || k-1 < hi {
					hi, hasHi = k-1, true
				}
			case token.LEQ:
				if !hasHi || k < hi {
					hi, hasHi = k, true
				}
			case token.GTR:
				if !hasLo || k+1 > lo {
					lo, hasLo = k+1, true
				}
			case token.GEQ:
				if !hasLo || k > lo {
					lo, hasLo = k, true
				}
			case token.EQL:
				lo, hasLo, hi, hasHi = k, true, k, true
			}
		}
	}
	return
}

func ruleFieldWidth(p *Prog, r *RuleResult) {
	wh := p.Method("io", "Writer", "writeHeader")
	nsite := 0
	var k keyer
	for _, f := range append([]*ssa.Function{wh}, p.helperClosure(wh)...) {
		if p.Rel(f) != "io" {
			continue
		}
		stores := map[*types.Var]bool{}
		eachInstr(f, func(i ssa.Instruction) {
			if st, ok := i.(*ssa.Store); ok {
				if fv := fieldVarOfAddr(st.Addr); fv != nil {
					stores[fv] = true
				}
			}
		})
		eachInstr(f, func(i ssa.Instruction) {
			c := callOf(i)
			if c == nil {
				return
			}
			o := calleeObj(c)
			if o == nil || o.Name() != "WriteBits" {
				return
			}
			args := c.Args
			if !c.IsInvoke() && len(args) == 3 {
				args = args[1:]
			}
			if len(args) != 2 {
				return
			}
			if _, isConst := args[1].(*ssa.Const); isConst {
				return
			}
			nsite++
			key := k.key(p.FnName(f), "WriteBits.var-width")
			fv := fieldVarOfLoad(stripConv(args[0]))
			if fv == nil || stores[fv] {
				r.note("%s at %s: the value is not a plain load of a field that the function leaves alone (NOT DECIDED)", key, p.IPos(i))
				return
			}
			// width = phi-of-constants * c  |  phi << c
			mult := int64(1)
			w := stripConv(args[1])
			for {
				bo, ok := w.(*ssa.BinOp)
				if !ok {
					break
				}
				if cst, ok := constInt(bo.Y); ok && bo.Op == token.MUL {
					mult *= cst
					w = stripConv(bo.X)
					continue
				}
				if cst, ok := constInt(bo.X); ok && bo.Op == token.MUL {
					mult *= cst
					w = stripConv(bo.Y)
					continue
				}
				if cst, ok := constInt(bo.Y); ok && bo.Op == token.SHL && cst < 32 {
					mult <<= uint(cst)
					w = stripConv(bo.X)
					continue
				}
				break
			}
			ph, ok := w.(*ssa.Phi)
			if !ok {
				r.note("%s at %s: the width is not a constant multiple of a selector assigned from constants (NOT DECIDED)", key, p.IPos(i))
				return
			}
			decided := 0
			for ei, ev := range ph.Edges {
				kv, ok := constInt(ev)
				if !ok {
					r.note("%s: selector value on edge %d is not a constant (NOT DECIDED)", key, ei)
					continue
				}
				bits := kv * mult
				if bits <= 0 {
					continue // field absent
				}
				if bits >= 63 {
					continue // a 64-bit field holds every value
				}
				pred := ph.Block().Preds[ei]
				lo, hasLo, hi, hasHi := fieldIntervalAt(f, fv, pred)
				decided++
				limit := int64(1)<<uint(bits) - 1
				sub := fmt.Sprintf("%s#%dbits", key, bits)
				switch {
				case !hasLo || lo < 0:
					r.fail(sub, p.IPos(pred.Instrs[len(pred.Instrs)-1]), fmt.Sprintf("field %s is written with %d bits on a path where nothing excludes a negative value: the low %d bits are stored while the header checksum (and the reader's view of the field) is computed from the full value, so a stream written with a negative size hint is rejected by the reader (\"checksum mismatch\") although the writer accepted the configuration", fv.Name(), bits, bits))
				case !hasHi || hi > limit:
					r.fail(sub, p.IPos(pred.Instrs[len(pred.Instrs)-1]), fmt.Sprintf("field %s is written with %d bits on a path where it can be as large as %v: the value is truncated in the stream but not in the header checksum", fv.Name(), bits, map[bool]any{true: hi, false: "unbounded"}[hasHi]))
				default:
					r.ok(fmt.Sprintf("%s: %d <= %s <= %d fits", sub, lo, fv.Name(), hi), p.IPos(pred.Instrs[len(pred.Instrs)-1]))
				}
			}
			if decided == 0 {
				r.note("%s at %s: no selector value decides a width (NOT DECIDED)", key, p.IPos(i))
			}
		})
	}
	r.floor(1, nsite, "header fields written with a run-time width")
}

// R-EMIT-EXACT ----------------------------------------------------------------------------------------------------

func init() {
	register("R-EMIT-EXACT", "the number of bits an encode task copies from its private bitstream into the shared stream (and announces in the block's length field) is exactly what that private bitstream reports as written: no rounding, padding or other arithmetic in between", false, ruleEmitExact)
}

// countLeaves: where an integer value comes from, looking through phis, conversions, min(), the running remainder
// (x - chunk: only x) and local cells. Anything else is a leaf.
func countLeaves(p *Prog, v ssa.Value) []ssa.Value {
	var out []ssa.Value
	seen := map[ssa.Value]bool{}
	var walk func(v ssa.Value)
	walk = func(v ssa.Value) {
		if v == nil || seen[v] {
			return
		}
		seen[v] = true
		switch x := v.(type) {
		case *ssa.Phi:
			for _, e := range x.Edges {
				walk(e)
			}
			return
		case *ssa.Convert:
			walk(x.X)
			return
		case *ssa.ChangeType:
			walk(x.X)
			return
		case *ssa.BinOp:
			if x.Op == token.SUB {
				walk(x.X)
				return
			}
		case *ssa.Call:
			if b, ok := x.Call.Value.(*ssa.Builtin); ok && b.Name() == "min" {
				for _, a := range x.Call.Args {
					walk(a)
				}
				return
			}
			// a small same-package helper that computes the chunk size: its results
			if h := x.Call.StaticCallee(); h != nil && h.Blocks != nil && h.Signature.Results().Len() == 1 && p.InModule(h) {
				if o := calleeObj(&x.Call); o == nil || o.Name() != "Written" {
					n := 0
					for _, hb := range h.Blocks {
						if ret, ok := hb.Instrs[len(hb.Instrs)-1].(*ssa.Return); ok {
							for _, rv := range rvals(ret) {
								walk(rv)
								n++
							}
						}
					}
					if n > 0 {
						return
					}
				}
			}
		case *ssa.UnOp:
			if al, ok := x.X.(*ssa.Alloc); ok && x.Op == token.MUL {
				n := 0
				for _, ref := range *al.Referrers() {
					if st, ok := ref.(*ssa.Store); ok && st.Addr == ssa.Value(al) {
						walk(st.Val)
						n++
					}
				}
				if n > 0 {
					return
				}
			}
		case *ssa.Parameter:
			// a helper's parameter: the arguments of its static call sites in the same package
			if fn := x.Parent(); fn != nil && fn.Pkg != nil {
				idx := -1
				for k, q := range fn.Params {
					if q == x {
						idx = k
					}
				}
				n := 0
				for _, g := range callersInPkg(p, fn) {
					eachInstr(g, func(j ssa.Instruction) {
						if c := callOf(j); c != nil && !c.IsInvoke() && c.StaticCallee() == fn && idx >= 0 && idx < len(c.Args) {
							walk(c.Args[idx])
							n++
						}
					})
				}
				if n > 0 {
					return
				}
			}
		}
		out = append(out, v)
	}
	walk(v)
	return out
}

// callersInPkg: every function of fn's package (methods and closures included).
func callersInPkg(p *Prog, fn *ssa.Function) []*ssa.Function {
	var out []*ssa.Function
	for _, g := range p.ModFns {
		if FnPkg(g) == FnPkg(fn) && g.Blocks != nil {
			out = append(out, g)
		}
	}
	return out
}

func ruleEmitExact(p *Prog, r *RuleResult) {
	s := resolveSide(p, "Writer")
	fname := p.FnName(s.fn)
	nsite := 0
	var k keyer
	isShared := func(c *ssa.CallCommon) bool {
		if c.IsInvoke() {
			return fieldVarOfLoad(c.Value) == s.stream
		}
		return len(c.Args) > 0 && fieldVarOfLoad(c.Args[0]) == s.stream
	}
	check := func(i ssa.Instruction, id, what string, v ssa.Value) {
		nsite++
		key := k.key(fname, id)
		nWritten := 0
		for _, lf := range countLeaves(p, v) {
			if _, ok := lf.(*ssa.Const); ok {
				continue
			}
			if c, ok := lf.(*ssa.Call); ok {
				if o := calleeObj(&c.Call); o != nil && o.Name() == "Written" && !isShared(&c.Call) {
					nWritten++
					continue
				}
			}
			pos := p.IPos(i)
			if li, ok := lf.(ssa.Instruction); ok {
				pos = p.IPos(li)
			}
			r.fail(key, pos, fmt.Sprintf("the bit count of %s is not the count reported by the task's private bitstream but a value computed from it (%s): bits beyond what the entropy coder wrote come from whatever the reused slot buffer held – which earlier block that was depends on the job count – or, if the count is smaller, the block is cut short", what, strings.TrimSpace(lf.String())))
			return
		}
		if nWritten == 0 {
			r.note("%s: no Written() call of a private bitstream among the origins of the count (NOT DECIDED)", key)
			return
		}
		r.ok(key+": the count is the private bitstream's Written() (through min / running remainder only)", p.IPos(i))
	}
	scan := func(g *ssa.Function) {
		eachInstr(g, func(i ssa.Instruction) {
			c := callOf(i)
			if c == nil || !isShared(c) {
				return
			}
			o := calleeObj(c)
			if o == nil {
				return
			}
			args := c.Args
			if !c.IsInvoke() {
				args = args[1:]
			}
			switch o.Name() {
			case "WriteArray":
				if len(args) == 2 {
					check(i, "payload-copy", "the payload copy (WriteArray on the shared stream)", args[1])
				}
			case "WriteBits":
				// the length field: the one WriteBits on the shared stream whose width is not a constant
				if len(args) == 2 {
					if _, isConst := args[1].(*ssa.Const); !isConst {
						check(i, "length-field", "the block length field (WriteBits with a computed width)", args[0])
					}
				}
			}
		})
	}
	scan(s.fn)
	// the emission may have been extracted into same-package helpers of the task function: their parameters are
	// followed to the arguments of the calls in the task function
	for _, h := range p.helperClosure(s.fn) {
		if h.Parent() == nil && FnPkg(h) == FnPkg(s.fn) {
			scan(h)
		}
	}
	r.floor(2, nsite, "emission sites on the shared stream (length field, payload copy)")
}

// R-APP-CTX -------------------------------------------------------------------------------------------------------

func init() {
	register("R-APP-CTX", "the context map given to each per-file task of the command-line tool carries every option the tool put into its shared context map (copied wholesale, or key by key): an option such as the block range cannot be lost for directory inputs", false, ruleAppCtx)
}

func ruleAppCtx(p *Prog, r *RuleResult) {
	ntask := 0
	var k keyer
	queuedTypes := map[*types.Named]bool{}
	for _, f := range p.ModFns {
		if p.Rel(f) != "app" {
			continue
		}
		eachInstr(f, func(i ssa.Instruction) {
			if mc, ok := i.(*ssa.MakeChan); ok {
				if ch, ok := mc.Type().Underlying().(*types.Chan); ok {
					if n := namedOf(ch.Elem()); n != nil {
						queuedTypes[n] = true
					}
				}
			}
		})
	}
	for _, f := range p.ModFns {
		if p.Rel(f) != "app" {
			continue
		}
		// constant keys stored into each map value of the function, and whole-map copies (range m { v[k] = x })
		keys := map[ssa.Value]map[string]bool{}
		copies := map[ssa.Value]map[ssa.Value]bool{}
		eachInstr(f, func(i ssa.Instruction) {
			mu, ok := i.(*ssa.MapUpdate)
			if !ok {
				return
			}
			if key, ok := ctxKey(mu.Map, mu.Key); ok {
				if keys[mu.Map] == nil {
					keys[mu.Map] = map[string]bool{}
				}
				keys[mu.Map][key] = true
				return
			}
			if ex, ok := mu.Key.(*ssa.Extract); ok {
				if nx, ok := ex.Tuple.(*ssa.Next); ok {
					if rg, ok := nx.Iter.(*ssa.Range); ok {
						if copies[mu.Map] == nil {
							copies[mu.Map] = map[ssa.Value]bool{}
						}
						copies[mu.Map][rg.X] = true
					}
				}
			}
		})
		// an option map built by a same-package helper (ctx := this.buildContext()): the constant keys the helper sets
		eachInstr(f, func(i ssa.Instruction) {
			hc, ok := i.(*ssa.Call)
			if !ok {
				return
			}
			h := hc.Call.StaticCallee()
			if h == nil || h.Blocks == nil || FnPkg(h) != FnPkg(f) {
				return
			}
			if _, isMap := hc.Type().Underlying().(*types.Map); !isMap {
				return
			}
			eachInstr(h, func(j ssa.Instruction) {
				if mu, ok := j.(*ssa.MapUpdate); ok {
					if key, ok := ctxKey(mu.Map, mu.Key); ok {
						if keys[hc] == nil {
							keys[hc] = map[string]bool{}
						}
						keys[hc][key] = true
					}
				}
			})
		})
		// every construction of a task value (a struct of package app that has a call/run method) with a map field
		eachInstr(f, func(i ssa.Instruction) {
			sto, ok := i.(*ssa.Store)
			if !ok {
				return
			}
			fa, ok := sto.Addr.(*ssa.FieldAddr)
			if !ok {
				return
			}
			if _, fresh := fa.X.(*ssa.Alloc); !fresh {
				return
			}
			tn := namedOf(fa.X.Type())
			if tn == nil || tn.Obj().Pkg() == nil || tn.Obj().Pkg().Path() != p.ModPath+"/app" {
				return
			}
			st, ok := tn.Underlying().(*types.Struct)
			if !ok {
				return
			}
			if _, isMap := st.Field(fa.Field).Type().Underlying().(*types.Map); !isMap {
				return
			}
			// a task type: a struct with methods that is queued on a channel somewhere in the package
			if len(methodsOfNamed(p, tn)) == 0 || !queuedTypes[tn] {
				return
			}
			ntask++
			key := k.key(p.FnName(f), "task-ctx."+tn.Obj().Name())
			v := sto.Val
			mk, fresh := v.(*ssa.MakeMap)
			if !fresh {
				r.ok(key+": the task is given an existing option map", p.IPos(sto))
				return
			}
			sameIteration := func(b *ssa.BasicBlock) bool {
				return b == mk.Block() || (reach(b, nil, nil)[mk.Block()] && reach(mk.Block(), nil, nil)[b] && inCycle(b))
			}
			var missing []string
			nshared, undecided := 0, false
			for m, ks := range keys {
				if m == v || !types.Identical(m.Type(), v.Type()) {
					continue
				}
				if mi, ok := m.(ssa.Instruction); ok && (sameIteration(mi.Block()) || !mi.Block().Dominates(mk.Block())) {
					continue // a map built in the same iteration, or one that does not exist yet when this one is made: not the shared options
				}
				nshared++
				if copies[v][m] {
					continue
				}
				for kk := range ks {
					if !keys[v][kk] {
						missing = append(missing, kk)
					}
				}
			}
			for _, par := range f.Params {
				if types.Identical(par.Type(), v.Type()) && keys[par] == nil {
					nshared++
					if !copies[v][par] {
						undecided = true
					}
				}
			}
			sort.Strings(missing)
			switch {
			case len(missing) > 0:
				r.fail(key, p.IPos(sto), fmt.Sprintf("the context map given to the per-file tasks is neither a copy of the tool's option map nor does it set the keys %v: for a directory (several files) these options silently do not apply – e.g. a block range is ignored and every file is processed in full, with exit status 0", missing))
			case undecided:
				r.note("%s at %s: the task context is built from a map parameter without copying it wholesale (NOT DECIDED)", key, p.IPos(sto))
			case nshared == 0:
				r.ok(key+": no shared option map in this function", p.IPos(sto))
			default:
				r.ok(key+": the task context is a copy of the shared option map (or sets each of its keys)", p.IPos(sto))
			}
		})
	}
	r.floor(2, ntask, "per-file task contexts")
}

// R-NAME-NORM -----------------------------------------------------------------------------------------------------

func init() {
	register("R-NAME-NORM", "the name->type lookups accept no spelling that the variant selectors do not recognise: beyond case folding, every normalisation the lookups apply to a codec name (trimming, replacing) is applied at every place that selects a codec variant from the context name", false, ruleNameNorm)
}

// stringOpsBack walks from v back towards where the string comes from, collecting the strings.* functions applied on
// the way; reports whether the origin is a codec name of the context (ctx["entropy"/"transform"]) or, when
// stopAtParam, a parameter.
func stringOpsBack(p *Prog, v ssa.Value, ops map[string]bool, helpers map[*ssa.Function]int, stopAtParam bool, d int) string {
	if d > 12 || v == nil {
		return ""
	}
	switch x := v.(type) {
	case *ssa.Call:
		if o := calleeObj(&x.Call); o != nil && o.Pkg() != nil && o.Pkg().Path() == "strings" && len(x.Call.Args) > 0 {
			ops[o.Name()] = true
			return stringOpsBack(p, x.Call.Args[0], ops, helpers, stopAtParam, d+1)
		}
		if callee := x.Call.StaticCallee(); callee != nil {
			if idx, ok := helpers[callee]; ok && idx < len(x.Call.Args) {
				if kc, ok := x.Call.Args[idx].(*ssa.Const); ok && kc.Value != nil {
					if k := constString(kc); k == "entropy" || k == "transform" {
						return k
					}
					return ""
				}
			}
		}
	case *ssa.TypeAssert:
		return stringOpsBack(p, x.X, ops, helpers, stopAtParam, d+1)
	case *ssa.Extract:
		return stringOpsBack(p, x.Tuple, ops, helpers, stopAtParam, d+1)
	case *ssa.Lookup:
		if k, ok := ctxKey(x.X, x.Index); ok && (k == "entropy" || k == "transform") {
			return k
		}
	case *ssa.Phi:
		for _, e := range x.Edges {
			if k := stringOpsBack(p, e, ops, helpers, stopAtParam, d+1); k != "" {
				return k
			}
		}
	case *ssa.UnOp:
		if al, ok := x.X.(*ssa.Alloc); ok && x.Op == token.MUL {
			for _, ref := range *al.Referrers() {
				if st, ok := ref.(*ssa.Store); ok && st.Addr == ssa.Value(al) {
					if k := stringOpsBack(p, st.Val, ops, helpers, stopAtParam, d+1); k != "" {
						return k
					}
				}
			}
		}
	case *ssa.Parameter:
		if stopAtParam {
			return "param"
		}
	}
	return ""
}

func ruleNameNorm(p *Prog, r *RuleResult) {
	caseOnly := map[string]bool{"ToUpper": true, "ToLower": true, "EqualFold": true}
	helpers := ctxHelpersDeep(p)
	// what the lookups apply between their parameter and the table
	extra := map[string]map[string]string{"transform": {}, "entropy": {}} // kind -> normaliser -> lookup that applies it
	nlook := 0
	for _, kind := range []string{"transform", "entropy"} {
		ct := loadTables(p, kind)
		var idx ssa.Value
		if t := extractSwitch(ct.n2cFn); t != nil && len(t.cases) >= 5 {
			idx = t.tag
		} else if mt := extractMapTable(p, ct.n2cFn); mt != nil {
			idx = mt.index
		}
		if idx == nil {
			continue
		}
		nlook++
		ops := map[string]bool{}
		stringOpsBack(p, idx, ops, helpers, true, 0)
		for o := range ops {
			if !caseOnly[o] {
				extra[kind][o] = p.FnName(ct.n2cFn)
			}
		}
	}
	if nlook == 0 {
		undecided("R-NAME-NORM: no name->type lookup resolved")
	}
	// the selectors: comparisons of a context codec name with a string constant
	nsel := 0
	var k keyer
	for _, f := range p.ModFns {
		rel := p.Rel(f)
		if rel == "benchmark" || rel == "app" || rel == "?" {
			continue
		}
		eachInstr(f, func(i ssa.Instruction) {
			var operand ssa.Value
			ops := map[string]bool{}
			switch x := i.(type) {
			case *ssa.BinOp:
				if x.Op != token.EQL && x.Op != token.NEQ {
					return
				}
				if c, ok := x.Y.(*ssa.Const); ok && c.Value != nil && isStringType(c.Type()) {
					operand = x.X
				} else if c, ok := x.X.(*ssa.Const); ok && c.Value != nil && isStringType(c.Type()) {
					operand = x.Y
				}
			case *ssa.Call:
				o := calleeObj(&x.Call)
				if o == nil || o.Pkg() == nil || o.Pkg().Path() != "strings" || len(x.Call.Args) != 2 {
					return
				}
				switch o.Name() {
				case "EqualFold", "Contains", "HasPrefix", "HasSuffix", "Index", "Compare":
				default:
					return
				}
				if _, ok := x.Call.Args[1].(*ssa.Const); ok {
					operand = x.Call.Args[0]
				} else if _, ok := x.Call.Args[0].(*ssa.Const); ok {
					operand = x.Call.Args[1]
				}
				ops[o.Name()] = true
			}
			if operand == nil {
				return
			}
			kind := stringOpsBack(p, operand, ops, helpers, false, 0)
			if kind == "" {
				return
			}
			nsel++
			key := k.key(p.FnName(f), "selector")
			var missing []string
			for _, e := range sortedKeys(extra[kind]) {
				if !ops[e] {
					missing = append(missing, "strings."+e+" (applied by "+extra[kind][e]+")")
				}
			}
			if len(missing) > 0 {
				r.fail(key, p.IPos(i), fmt.Sprintf("a codec variant is selected from the context name without %s: a spelling that the name->type lookup now accepts (the header gets its type) is not recognised here, so the encoder uses another variant than the header announces and the stream does not decode", strings.Join(missing, ", ")))
			} else {
				r.ok(key+": the selector normalises the name at least as much as the lookups", p.IPos(i))
			}
		})
	}
	r.floor(3, nsel, "variant selectors on context codec names")
}

func isStringType(t types.Type) bool {
	b, ok := t.Underlying().(*types.Basic)
	return ok && b.Info()&types.IsString != 0
}

// R-HDR-MIRROR ----------------------------------------------------------------------------------------------------

func init() {
	register("R-HDR-MIRROR", "every field of the Reader that the header parser fills from the stream and that the read path uses is also filled on the headerless path (sibling agreement of the two initialisations)", false, ruleHdrMirror)
}

func ruleHdrMirror(p *Prog, r *RuleResult) {
	rh := p.Method("io", "Reader", "readHeader")
	rt := namedOf(rh.Signature.Recv().Type())
	// non-constant stores to fields of the Reader
	storesOf := func(fs []*ssa.Function) map[*types.Var]ssa.Instruction {
		out := map[*types.Var]ssa.Instruction{}
		for _, f := range fs {
			eachInstr(f, func(i ssa.Instruction) {
				st, ok := i.(*ssa.Store)
				if !ok {
					return
				}
				fa, ok := st.Addr.(*ssa.FieldAddr)
				if !ok || namedOf(fa.X.Type()) != rt {
					return
				}
				if _, isConst := st.Val.(*ssa.Const); isConst {
					return
				}
				if fv := fieldVarOfAddr(fa); fv != nil {
					if _, seen := out[fv]; !seen {
						out[fv] = i
					}
				}
			})
		}
		return out
	}
	hdrFns := append([]*ssa.Function{rh}, p.helperClosure(rh)...)
	inHdr := map[*ssa.Function]bool{}
	for _, f := range hdrFns {
		inHdr[f] = true
	}
	hdr := storesOf(hdrFns)
	// the sibling initialisation: functions of the package outside the header parser's closure that fill at least
	// two of those fields with non-constant values
	var sibs []*ssa.Function
	for _, f := range p.ModFns {
		if p.Rel(f) != "io" || inHdr[f] || f.Blocks == nil {
			continue
		}
		n := 0
		for fv := range storesOf([]*ssa.Function{f}) {
			if _, ok := hdr[fv]; ok {
				n++
			}
		}
		if n >= 2 {
			sibs = append(sibs, f)
		}
	}
	if len(sibs) == 0 {
		undecided("R-HDR-MIRROR: no headerless initialisation found (no function outside readHeader fills two of the fields it fills)")
	}
	var sibFns []*ssa.Function
	seen := map[*ssa.Function]bool{}
	for _, f := range sibs {
		for _, g := range append([]*ssa.Function{f}, p.helperClosure(f)...) {
			if !seen[g] && g != rh {
				seen[g] = true
				sibFns = append(sibFns, g) // helpers shared with the header parser count for both
			}
		}
	}
	sib := storesOf(sibFns)
	// fields the read path looks at
	s := resolveSide(p, "Reader")
	roots := []*ssa.Function{p.Method("io", "Reader", "Read"), s.entry, s.parent}
	used := map[*types.Var]bool{}
	seenU := map[*ssa.Function]bool{}
	for _, rt0 := range roots {
		for _, g := range append([]*ssa.Function{rt0}, p.helperClosure(rt0)...) {
			if seenU[g] || inHdr[g] {
				continue
			}
			seenU[g] = true
			eachInstr(g, func(i ssa.Instruction) {
				if u, ok := i.(*ssa.UnOp); ok && u.Op == token.MUL {
					if fa, ok := u.X.(*ssa.FieldAddr); ok && namedOf(fa.X.Type()) == rt {
						if fv := fieldVarOfAddr(fa); fv != nil {
							used[fv] = true
						}
					}
				}
			})
		}
	}
	n := 0
	var names []string
	byName := map[string]*types.Var{}
	for fv := range hdr {
		names = append(names, fv.Name())
		byName[fv.Name()] = fv
	}
	sort.Strings(names)
	for _, nm := range names {
		fv := byName[nm]
		if !used[fv] {
			continue
		}
		n++
		if _, ok := sib[fv]; ok {
			r.ok(fmt.Sprintf("Reader.%s is filled by the header parser and by the headerless initialisation (%s)", nm, p.FnName(sibs[0])), p.IPos(hdr[fv]))
		} else {
			r.fail("Reader."+nm+"#headerless", p.IPos(hdr[fv]), fmt.Sprintf("field %s of the Reader is filled from the header by %s and used by the read path, but the headerless initialisation (%s) never gives it a value: a headerless stream is read with the zero value – Read cannot deliver the decoded data (it spins or returns nothing) although the same configuration works with a header", nm, p.FnName(rh), p.FnName(sibs[0])))
		}
	}
	r.floor(3, n, "header-filled fields used by the read path")
}

// R-CHUNK-LEN -----------------------------------------------------------------------------------------------------

func init() {
	register("R-CHUNK-LEN", "where an entropy encoder and its decoder derive the chunk length from the block length alone (never transmitted), both use the same expressions", false, ruleChunkLen)
}

// lenExprs: the expressions over len(block) and constants (at least one operator) that reach a slice bound of the
// block parameter of f, as canonical strings.
func lenExprs(f *ssa.Function) map[string]bool {
	out := map[string]bool{}
	if len(f.Params) < 2 {
		return out
	}
	var block ssa.Value
	for _, par := range f.Params[1:] {
		if isByteSlice(par.Type()) {
			block = par
			break
		}
	}
	if block == nil {
		return out
	}
	isBlock := func(v ssa.Value) bool {
		for d := 0; d < 4; d++ {
			if v == block {
				return true
			}
			sl, ok := v.(*ssa.Slice)
			if !ok {
				return false
			}
			v = sl.X
		}
		return false
	}
	// parameters of a same-package helper bound to the (pure) argument signatures of the call being followed
	type binding struct {
		sig string
		op  bool
	}
	env := map[ssa.Value]binding{}
	var pure func(v ssa.Value, d int) (string, bool, bool)
	// returns signature, is-pure, has-operator
	pure = func(v ssa.Value, d int) (string, bool, bool) {
		if d > 10 {
			return "", false, false
		}
		if b, ok := env[v]; ok {
			return b.sig, true, b.op
		}
		switch x := v.(type) {
		case *ssa.Const:
			if x.Value == nil {
				return "", false, false
			}
			return x.Value.ExactString(), true, false
		case *ssa.Convert:
			return pure(x.X, d+1)
		case *ssa.Call:
			if b, ok := x.Call.Value.(*ssa.Builtin); ok {
				if b.Name() == "len" && len(x.Call.Args) == 1 && x.Call.Args[0] == block {
					return "L", true, false
				}
				if b.Name() == "min" || b.Name() == "max" {
					var parts []string
					for _, a := range x.Call.Args {
						s, ok, _ := pure(a, d+1)
						if !ok {
							return "", false, false
						}
						parts = append(parts, s)
					}
					sort.Strings(parts)
					return b.Name() + "(" + strings.Join(parts, ",") + ")", true, true
				}
			}
		case *ssa.BinOp:
			switch x.Op {
			case token.LSS, token.GTR, token.LEQ, token.GEQ, token.EQL, token.NEQ:
				return "", false, false
			}
			a, oka, _ := pure(x.X, d+1)
			b, okb, _ := pure(x.Y, d+1)
			if oka && okb {
				// one spelling for x>>k and x/2^k, x<<k and x*2^k (lengths are not negative)
				op := x.Op.String()
				if c, isC := constInt(x.Y); isC && c >= 0 && c < 62 {
					switch x.Op {
					case token.SHR:
						op, b = "/", fmt.Sprint(int64(1)<<uint(c))
					case token.SHL:
						op, b = "*", fmt.Sprint(int64(1)<<uint(c))
					}
				}
				return "(" + a + op + b + ")", true, true
			}
		}
		return "", false, false
	}
	seen := map[ssa.Value]bool{}
	var collect func(v ssa.Value, d int)
	collect = func(v ssa.Value, d int) {
		if v == nil || seen[v] || d > 14 {
			return
		}
		seen[v] = true
		if s, ok, op := pure(v, 0); ok {
			if op && strings.Contains(s, "L") {
				out[s] = true
			}
			return
		}
		switch x := v.(type) {
		case *ssa.Phi:
			for _, e := range x.Edges {
				collect(e, d+1)
			}
		case *ssa.BinOp:
			collect(x.X, d+1)
			collect(x.Y, d+1)
		case *ssa.Convert:
			collect(x.X, d+1)
		case *ssa.Call:
			if b, ok := x.Call.Value.(*ssa.Builtin); ok && (b.Name() == "min" || b.Name() == "max") {
				for _, a := range x.Call.Args {
					collect(a, d+1)
				}
				return
			}
			// a same-package helper that computes the length: its results with the parameters bound to the arguments
			if h := x.Call.StaticCallee(); h != nil && h.Blocks != nil && FnPkg(h) == FnPkg(f) && len(h.Params) == len(x.Call.Args) {
				allPure := true
				bound := map[ssa.Value]binding{}
				for k, a := range x.Call.Args {
					sg, ok, op := pure(a, 0)
					if !ok {
						allPure = false
						break
					}
					bound[h.Params[k]] = binding{sg, op}
				}
				if allPure {
					for k, v := range bound {
						env[k] = v
					}
					for _, hb := range h.Blocks {
						if ret, ok := hb.Instrs[len(hb.Instrs)-1].(*ssa.Return); ok {
							for _, rv := range rvals(ret) {
								collect(rv, d+1)
							}
						}
					}
				}
			}
		case *ssa.Extract:
			collect(x.Tuple, d+1)
		case *ssa.UnOp:
			if al, ok := x.X.(*ssa.Alloc); ok && x.Op == token.MUL {
				for _, ref := range *al.Referrers() {
					if st, ok := ref.(*ssa.Store); ok && st.Addr == ssa.Value(al) {
						collect(st.Val, d+1)
					}
				}
			}
		}
	}
	eachInstr(f, func(i ssa.Instruction) {
		if sl, ok := i.(*ssa.Slice); ok && isBlock(sl.X) {
			collect(sl.Low, 0)
			collect(sl.High, 0)
		}
	})
	return out
}

func ruleChunkLen(p *Prog, r *RuleResult) {
	pk := p.Pkg("entropy")
	if pk == nil {
		undecided("anchor unresolved: package entropy")
	}
	var prefixes []string
	for name := range pk.Members {
		if strings.HasSuffix(name, "Encoder") {
			pre := strings.TrimSuffix(name, "Encoder")
			if _, ok := pk.Members[pre+"Decoder"]; ok {
				prefixes = append(prefixes, pre)
			}
		}
	}
	sort.Strings(prefixes)
	n, nexpr := 0, 0
	for _, pre := range prefixes {
		fe := p.MethodOpt("entropy", pre+"Encoder", "Write")
		fd := p.MethodOpt("entropy", pre+"Decoder", "Read")
		if fe == nil || fd == nil || fe.Blocks == nil || fd.Blocks == nil {
			continue
		}
		n++
		ee, ed := sortedKeys(lenExprs(fe)), sortedKeys(lenExprs(fd))
		nexpr += len(ee) + len(ed)
		if strings.Join(ee, " ") == strings.Join(ed, " ") {
			r.ok(fmt.Sprintf("entropy.%s: encoder and decoder slice the block by the same functions of its length %v", pre, ee), p.Pos(fe.Pos()))
		} else {
			r.fail(fmt.Sprintf("entropy.%s#chunk-length", pre), p.Pos(fe.Pos()), fmt.Sprintf("the encoder cuts the block into chunks by %v of the block length L, the decoder by %v: the chunk length is not transmitted, each side recomputes it, so the decoder expects chunk headers and flushes at other positions than the encoder wrote them – the block decodes to wrong bytes after the first chunk boundary", ee, ed))
		}
	}
	r.floor(3, n, "entropy encoder/decoder pairs")
	r.floor(2, nexpr, "length-derived chunk expressions (both sides)")
}

// R-REFUSE-CLEAN --------------------------------------------------------------------------------------------------

func init() {
	register("R-REFUSE-CLEAN", "an operation that a closed bitstream refuses has not touched the bit counter before it finds out: on every path from the entry of a read/write operation to the test of the closed state no field that Written()/Read() is computed from is stored", false, ruleRefuseClean)
}

func ruleRefuseClean(p *Prog, r *RuleResult) {
	nop := 0
	for _, side := range []struct{ typ, accessor string; ops []string }{
		{"DefaultOutputBitStream", "Written", []string{"WriteBit", "WriteBits", "WriteArray"}},
		{"DefaultInputBitStream", "Read", []string{"ReadBit", "ReadBits", "ReadArray"}},
	} {
		acc := p.MethodOpt("bitstream", side.typ, side.accessor)
		cl := p.MethodOpt("bitstream", side.typ, "Close")
		if acc == nil || cl == nil {
			undecided("anchor unresolved: bitstream.%s.%s / Close", side.typ, side.accessor)
		}
		recvT := namedOf(acc.Signature.Recv().Type())
		// the fields the counter is computed from
		gf := map[*types.Var]bool{}
		for _, g := range append([]*ssa.Function{acc}, p.helperClosure(acc)...) {
			eachInstr(g, func(i ssa.Instruction) {
				if u, ok := i.(*ssa.UnOp); ok && u.Op == token.MUL {
					if fa, ok := u.X.(*ssa.FieldAddr); ok && namedOf(fa.X.Type()) == recvT {
						if fv := fieldVarOfAddr(fa); fv != nil && !isBool(fv.Type()) {
							if _, isSlice := fv.Type().Underlying().(*types.Slice); !isSlice {
								gf[fv] = true
							}
						}
					}
				}
			})
		}
		// the closed flag: the bool field Close sets to true
		var closedF *types.Var
		eachInstr(cl, func(i ssa.Instruction) {
			if st, ok := i.(*ssa.Store); ok {
				if c, ok := st.Val.(*ssa.Const); ok && c.Value != nil && isBool(c.Type()) && c.Value.String() == "true" {
					if fv := fieldVarOfAddr(st.Addr); fv != nil {
						closedF = fv
					}
				}
			}
		})
		if closedF == nil || len(gf) == 0 {
			undecided("bitstream.%s: closed flag or counter fields not identified", side.typ)
		}
		isTest := func(i ssa.Instruction) bool {
			u, ok := i.(*ssa.UnOp)
			return ok && u.Op == token.MUL && fieldVarOfLoad(u) == closedF
		}
		tcMemo := map[*ssa.Function]bool{}
		testCapable := func(h *ssa.Function) bool {
			if v, ok := tcMemo[h]; ok {
				return v
			}
			res := false
			for _, g := range append([]*ssa.Function{h}, p.helperClosure(h)...) {
				eachInstr(g, func(i ssa.Instruction) {
					if isTest(i) {
						res = true
					}
				})
			}
			tcMemo[h] = res
			return res
		}
		type outcome struct{ pending ssa.Instruction }
		type memoKey struct {
			f       *ssa.Function
			pending bool
		}
		memo := map[memoKey][]outcome{}
		inProgress := map[memoKey]bool{}
		type viol struct{ store, test ssa.Instruction }
		var viols []viol
		var explore func(f *ssa.Function, pending ssa.Instruction, depth int) []outcome
		explore = func(f *ssa.Function, pending ssa.Instruction, depth int) []outcome {
			key := memoKey{f, pending != nil}
			if o, ok := memo[key]; ok {
				return o
			}
			if inProgress[key] || depth > 6 {
				return []outcome{{pending}}
			}
			inProgress[key] = true
			defer delete(inProgress, key)
			type st struct {
				b   *ssa.BasicBlock
				idx int
				pen ssa.Instruction
			}
			seen := map[[2]any]bool{}
			var outs []outcome
			work := []st{{f.Blocks[0], 0, pending}}
			for len(work) > 0 {
				s := work[len(work)-1]
				work = work[:len(work)-1]
				pen := s.pen
				ended := false
				for k := s.idx; k < len(s.b.Instrs) && !ended; k++ {
					in := s.b.Instrs[k]
					switch x := in.(type) {
					case *ssa.Store:
						if fv := fieldVarOfAddr(x.Addr); fv != nil && gf[fv] && pen == nil {
							pen = x
						}
					case *ssa.Panic:
						ended = true
					case *ssa.Return:
						outs = append(outs, outcome{pen})
						ended = true
					default:
						if isTest(in) {
							if pen != nil {
								viols = append(viols, viol{pen, in})
							}
							ended = true // tested: whatever follows is an accepted operation
							break
						}
						if c := callOf(in); c != nil && !c.IsInvoke() {
							if h := c.StaticCallee(); h != nil && h.Blocks != nil && h.Signature.Recv() != nil && namedOf(h.Signature.Recv().Type()) == recvT {
								res := explore(h, pen, depth+1)
								if len(res) == 0 || testCapable(h) {
									// the callee always tests (or panics), or it is one of the routines the closed
									// sentinel sends control to: on a closed stream its own test comes first, so what
									// the caller does after it returned belongs to an accepted operation
									ended = true
									break
								}
								// a store made by a callee that returned normally belongs to a completed sub-operation
								// (on a closed stream the callee's own way to the test comes first): only the caller's own
								// pending store is carried on
								_ = res
							}
						}
					}
				}
				if ended {
					continue
				}
				for _, sc := range s.b.Succs {
					k2 := [2]any{sc, pen != nil}
					if !seen[k2] {
						seen[k2] = true
						work = append(work, st{sc, 0, pen})
					}
				}
			}
			memo[key] = outs
			return outs
		}
		for _, on := range side.ops {
			op := p.MethodOpt("bitstream", side.typ, on)
			if op == nil || op.Blocks == nil {
				continue
			}
			nop++
			viols = nil
			memo = map[memoKey][]outcome{}
			explore(op, nil, 0)
			key := fmt.Sprintf("(*bitstream.%s).%s", side.typ, on)
			if len(viols) > 0 {
				v := viols[0]
				r.fail(key+"#refused-after-store", p.IPos(v.store), fmt.Sprintf("%s stores the counter field %s (at %s, in %s) before the closed state is looked at (at %s): an operation refused by a closed stream has already moved %s() – the counter no longer equals the sum of the accepted operations, and the moved cursor makes the next refused operation fail differently", on, fieldVarOfAddr(v.store.(*ssa.Store).Addr).Name(), p.IPos(v.store), p.FnName(v.store.Parent()), p.IPos(v.test), side.accessor))
			} else {
				r.ok(key+": no counter field is stored before the closed state is tested", p.Pos(op.Pos()))
			}
		}
	}
	r.floor(6, nop, "bitstream operations")
}

// R-WORD-BUF ------------------------------------------------------------------------------------------------------

func init() {
	register("R-WORD-BUF", "the bitstreams' internal buffers hold a whole number of 64-bit words (the bulk read/write paths treat a partial word as the end of the stream): the constructors reject or round any other size", false, ruleWordBuf)
}

func ruleWordBuf(p *Prog, r *RuleResult) {
	n := 0
	for _, f := range p.ModFns {
		if p.Rel(f) != "bitstream" || f.Signature.Recv() != nil || f.Parent() != nil {
			continue
		}
		res := f.Signature.Results()
		if res.Len() == 0 {
			continue
		}
		rn := namedOf(res.At(0).Type())
		if rn == nil || (rn.Obj().Name() != "DefaultInputBitStream" && rn.Obj().Name() != "DefaultOutputBitStream") {
			continue
		}
		eachInstr(f, func(i ssa.Instruction) {
			st, ok := i.(*ssa.Store)
			if !ok {
				return
			}
			fa, ok := st.Addr.(*ssa.FieldAddr)
			if !ok || namedOf(fa.X.Type()) != rn || !isByteSlice(st.Val.Type()) {
				return
			}
			var mk ssa.Instruction
			var lenv ssa.Value
			if m, ok := st.Val.(*ssa.MakeSlice); ok {
				mk, lenv = m, stripConv(m.Len)
			} else if hc, ok := st.Val.(*ssa.Call); ok {
				// allocated by a same-package helper that makes a slice of the length it is given
				if h := hc.Call.StaticCallee(); h != nil && h.Blocks != nil && FnPkg(h) == FnPkg(f) {
					eachInstr(h, func(j ssa.Instruction) {
						if hm, ok := j.(*ssa.MakeSlice); ok && isByteSlice(hm.Type()) {
							if hp, ok := stripConv(hm.Len).(*ssa.Parameter); ok {
								for k2, q := range h.Params {
									if q == hp && k2 < len(hc.Call.Args) {
										mk, lenv = hc, stripConv(hc.Call.Args[k2])
									}
								}
							}
						}
					})
				}
			}
			if mk == nil {
				return
			}
			n++
			key := p.FnName(f) + "#buffer"
			// constant size
			if c, ok := constInt(lenv); ok {
				if c%8 == 0 {
					r.ok(fmt.Sprintf("%s: constant size %d is a multiple of 8", key, c), p.IPos(mk))
				} else {
					r.fail(key, p.IPos(mk), fmt.Sprintf("the internal buffer has the constant size %d, not a multiple of 8", c))
				}
				return
			}
			_ = lenv
			// rounded: x &^ 7, x & -8, (x >> 3) << 3
			if bo, ok := lenv.(*ssa.BinOp); ok {
				if c, okc := constInt(bo.Y); okc {
					if (bo.Op == token.AND_NOT && c == 7) || (bo.Op == token.AND && c == -8) || (bo.Op == token.SHL && c >= 3) || (bo.Op == token.MUL && c%8 == 0) {
						r.ok(key+": the size is rounded to a multiple of 8", p.IPos(mk))
						return
					}
				}
			}
			par, isPar := lenv.(*ssa.Parameter)
			if !isPar {
				r.note("%s at %s: the buffer size is neither a parameter, a constant nor a rounded value (NOT DECIDED)", key, p.IPos(mk))
				return
			}
			// a dominating test of (par & 7) / (par % 8) against 0 with the allocation on the zero side
			okT := false
			for _, b := range f.Blocks {
				ifi := blockIf(b)
				if ifi == nil {
					continue
				}
				atom, pos := condAtom(ifi.Cond)
				cmp, ok := atom.(*ssa.BinOp)
				if !ok || (cmp.Op != token.EQL && cmp.Op != token.NEQ) {
					continue
				}
				z, okz := constInt(cmp.Y)
				inner, oki := stripConv(cmp.X).(*ssa.BinOp)
				if !okz || z != 0 || !oki || stripConv(inner.X) != ssa.Value(par) {
					continue
				}
				c, okc := constInt(inner.Y)
				if !okc || !((inner.Op == token.AND && c == 7) || (inner.Op == token.REM && c == 8)) {
					continue
				}
				zeroEdge := edge{b, succFor(pos, cmp.Op == token.EQL)}
				if edgeDominates(f, zeroEdge, mk.Block()) {
					okT = true
				}
			}
			// ... or the test sits in a validation helper whose error the constructor checks before allocating
			if !okT {
				eachInstr(f, func(j ssa.Instruction) {
					vc, ok := j.(*ssa.Call)
					if !ok {
						return
					}
					h := vc.Call.StaticCallee()
					if h == nil || h.Blocks == nil || FnPkg(h) != FnPkg(f) {
						return
					}
					pidx := -1
					for k2, a := range vc.Call.Args {
						if stripConv(a) == ssa.Value(par) {
							pidx = k2
						}
					}
					if pidx < 0 || pidx >= len(h.Params) {
						return
					}
					// inside the helper: (param & 7) / (param % 8) compared with 0, non-zero side returns an error
					rejects := false
					for _, hb := range h.Blocks {
						hi := blockIf(hb)
						if hi == nil {
							continue
						}
						atom, pos := condAtom(hi.Cond)
						cmp, ok := atom.(*ssa.BinOp)
						if !ok || (cmp.Op != token.EQL && cmp.Op != token.NEQ) {
							continue
						}
						z, okz := constInt(cmp.Y)
						inner, oki := stripConv(cmp.X).(*ssa.BinOp)
						if !okz || z != 0 || !oki || stripConv(inner.X) != ssa.Value(h.Params[pidx]) {
							continue
						}
						c, okc := constInt(inner.Y)
						if !okc || !((inner.Op == token.AND && c == 7) || (inner.Op == token.REM && c == 8)) {
							continue
						}
						nz := hb.Succs[succFor(pos, cmp.Op == token.NEQ)]
						allErr := true
						for rb := range reach(nz, nil, nil) {
							if ret, ok := rb.Instrs[len(rb.Instrs)-1].(*ssa.Return); ok && rb != h.Recover {
								if len(ret.Results) == 0 || retMayBeNil(ret, len(ret.Results)-1) {
									allErr = false
								}
							}
						}
						if allErr {
							rejects = true
						}
					}
					if !rejects {
						return
					}
					// in the constructor: the helper's error is tested and the allocation is on the nil side
					ev, has := errResult(vc)
					if !has || ev == nil {
						return
					}
					for _, b := range f.Blocks {
						if ifi := blockIf(b); ifi != nil {
							if x, nonNil, ok := nilTest(ifi.Cond); ok && x == ev {
								if edgeDominates(f, edge{b, 1 - nonNil}, mk.Block()) {
									okT = true
								}
							}
						}
					}
				})
			}
			if okT {
				r.ok(key+": a size that is not a multiple of 8 is rejected before the buffer is made", p.IPos(mk))
			} else {
				r.fail(key, p.IPos(mk), fmt.Sprintf("%s sizes the internal buffer directly from its parameter without rejecting (or rounding) a size that is not a multiple of 8: every refill then ends in a partial 64-bit word in the middle of the stream, which the unaligned bulk paths take for the end of the stream – spurious \"no more data\" failures or wrong bytes for such a size", p.FnName(f)))
			}
		})
	}
	r.floor(2, n, "bitstream buffer allocations in constructors")
}

// R-FLUSH-STEP ----------------------------------------------------------------------------------------------------

func init() {
	register("R-FLUSH-STEP", "the output bitstream accounts for what it handed to the sink before it hands over more: a sink write inside a loop is followed, within the iteration, by the update of the flushed-bits counter or cursor", false, ruleFlushStep)
}

func ruleFlushStep(p *Prog, r *RuleResult) {
	n := 0
	var k keyer
	for _, f := range p.ModFns {
		if p.Rel(f) != "bitstream" || f.Signature.Recv() == nil {
			continue
		}
		rn := namedOf(f.Signature.Recv().Type())
		if rn == nil || rn.Obj().Name() != "DefaultOutputBitStream" {
			continue
		}
		eachInstr(f, func(i ssa.Instruction) {
			c := callOf(i)
			if c == nil || !c.IsInvoke() || c.Method.Name() != "Write" || len(c.Args) != 1 {
				return
			}
			if recv := namedOf(c.Value.Type()); recv == nil || recv.Obj().Pkg() == nil || recv.Obj().Pkg().Path() != "io" {
				return
			}
			n++
			key := k.key(p.FnName(f), "sink-write")
			if !inCycle(i.Block()) {
				r.ok(key+": one sink write per call, accounted before the function returns or not at all", p.IPos(i))
				return
			}
			// stores to integer fields of the receiver (flushed-bits counter, cursor)
			avoid := map[ssa.Instruction]bool{}
			eachInstr(f, func(j ssa.Instruction) {
				if st, ok := j.(*ssa.Store); ok {
					if fa, ok := st.Addr.(*ssa.FieldAddr); ok && namedOf(fa.X.Type()) == rn {
						if b, ok := fieldVarOfAddr(fa).Type().Underlying().(*types.Basic); ok && b.Info()&types.IsInteger != 0 {
							avoid[j] = true
						}
					}
				}
			})
			if pathAvoiding(i.Block(), instrIndex(i)+1, i, avoid) {
				r.fail(key+"#unaccounted", p.IPos(i), fmt.Sprintf("%s writes to the sink in a loop and can come back to the write without having updated any counter or cursor of the bitstream: when a later write of the loop fails, the earlier pieces are at the sink but the state says nothing was flushed, so a retry (Close is retryable) sends them again – the sink receives more bytes than Written() reports and the stream no longer decodes", p.FnName(f)))
			} else {
				r.ok(key+": every iteration accounts for what it wrote before the next write", p.IPos(i))
			}
		})
	}
	r.floor(1, n, "sink writes of the output bitstream")
}

// R-HINT-READER ---------------------------------------------------------------------------------------------------

func init() {
	register("R-HINT-READER", "the original size recorded in the header is advisory on the reading side too: no error of the read path is decided by a comparison with it", false, ruleHintReader)
}

func ruleHintReader(p *Prog, r *RuleResult) {
	rh := p.Method("io", "Reader", "readHeader")
	rt := namedOf(rh.Signature.Recv().Type())
	// the hint field: the int64 field of the Reader that the header parser fills from a ReadBits of run-time width
	var hint *types.Var
	for _, g := range append([]*ssa.Function{rh}, p.helperClosure(rh)...) {
		eachInstr(g, func(i ssa.Instruction) {
			st, ok := i.(*ssa.Store)
			if !ok {
				return
			}
			fa, ok := st.Addr.(*ssa.FieldAddr)
			if !ok || namedOf(fa.X.Type()) != rt {
				return
			}
			if c, ok := stripConv(st.Val).(*ssa.Call); ok {
				if o := calleeObj(&c.Call); o != nil && o.Name() == "ReadBits" {
					args := c.Call.Args
					if _, isConst := args[len(args)-1].(*ssa.Const); !isConst {
						hint = fieldVarOfAddr(fa)
					}
				}
			}
		})
	}
	if hint == nil {
		undecided("R-HINT-READER: the header field read with a run-time width (original size) was not found in readHeader")
	}
	inHdr := map[*ssa.Function]bool{rh: true}
	for _, g := range p.helperClosure(rh) {
		inHdr[g] = true
	}
	s := resolveSide(p, "Reader")
	seen := map[*ssa.Function]bool{}
	nfn, ntest := 0, 0
	var k keyer
	for _, root := range []*ssa.Function{p.Method("io", "Reader", "Read"), s.entry, s.parent} {
		for _, g := range append([]*ssa.Function{root}, p.helperClosure(root)...) {
			if seen[g] || inHdr[g] || p.Rel(g) != "io" {
				continue
			}
			seen[g] = true
			nfn++
			for _, b := range g.Blocks {
				ifi := blockIf(b)
				if ifi == nil {
					continue
				}
				atom, _ := condAtom(ifi.Cond)
				bo, ok := atom.(*ssa.BinOp)
				if !ok {
					continue
				}
				if fieldVarOfLoad(stripConv(bo.X)) != hint && fieldVarOfLoad(stripConv(bo.Y)) != hint {
					continue
				}
				ntest++
				bad := false
				for _, rb := range g.Blocks {
					ret, ok := rb.Instrs[len(rb.Instrs)-1].(*ssa.Return)
					if !ok || rb == g.Recover || len(ret.Results) == 0 {
						continue
					}
					last := len(ret.Results) - 1
					if !isErrType(ret.Results[last].Type()) || retMayBeNil(ret, last) {
						continue
					}
					if b.Dominates(rb) && b != rb {
						bad = true
						r.fail(k.key(p.FnName(g), "hint-decides-error"), p.IPos(ifi), fmt.Sprintf("%s returns an error (at %s) only behind a comparison with the original size recorded in the header: that size is the writer's advisory hint (the writer accepts any value and any amount of data), so a valid stream whose hint differs from its content – a Writer closed without data, or with less than announced – fails to read", p.FnName(g), p.IPos(ret)))
						break
					}
				}
				if !bad {
					r.ok(fmt.Sprintf("%s: a comparison with the recorded size decides no error", p.FnName(g)), p.IPos(ifi))
				}
			}
		}
	}
	r.ok(fmt.Sprintf("%d functions of the read path scanned, %d comparisons with the recorded original size", nfn, ntest), "-")
	r.floor(2, nfn, "functions of the read path")
}

// methodsOfNamed: the source methods declared on T or *T.
func methodsOfNamed(p *Prog, tn *types.Named) []*ssa.Function {
	var out []*ssa.Function
	for _, f := range p.ModFns {
		if f.Signature.Recv() != nil && f.Parent() == nil && f.Blocks != nil && namedOf(f.Signature.Recv().Type()) == tn {
			out = append(out, f)
		}
	}
	return out
}

package main

import (
	"crypto/sha256"
	"encoding/hex"
	"fmt"
	"go/ast"
	"go/constant"
	"go/token"
	"go/types"
	"os"
	"path/filepath"
	"sort"
	"strings"

	"golang.org/x/tools/go/ssa"
)

// ---------------------------------------------------------------------------------------
// R-WIRE: frozen wire constants of bitstream format 6 (/verif/spec/format6.json)
// ---------------------------------------------------------------------------------------

func init() {
	register("R-NAMESET", "the tests of strings against codec names (variant selection) are those of bitstream format 6", false, ruleNameSet)
	register("R-WIRE", "every curated wire constant, constant-table digest and header/hash call-site constant of bitstream format 6 still has its frozen value", false, ruleWire)
}

type wireConst struct {
	Pkg   string `json:"pkg"`
	Name  string `json:"name"`
	Value string `json:"value"`
	Sides string `json:"sides"` // both | dec | enc
	Why   string `json:"why,omitempty"`
}

type wireTable struct {
	Pkg    string `json:"pkg"`
	Name   string `json:"name"`
	N      int    `json:"n"`
	SHA256 string `json:"sha256"`
}

type wireCensusEntry struct {
	Op    string `json:"op"`
	Value string `json:"value"`
	Count int    `json:"count"`
}

type wireCensus struct {
	Anchor  string            `json:"anchor"` // rel:Type.method or rel:func
	Entries []wireCensusEntry `json:"entries"`
}

type wireCmp struct {
	Pkg  string         `json:"pkg"`
	Name string         `json:"name"`
	Ops  map[string]int `json:"ops"` // normalised with the constant on the right-hand side
}

type wireNameTest struct {
	Pkg   string `json:"pkg"`
	Kind  string `json:"kind"` // cmp | cmp-fold | contains | prefix | suffix | index
	Value string `json:"value"`
	Count int    `json:"count"`
}

type wireKernel struct {
	Fn      string            `json:"fn"` // printable name of the function
	Entries []wireCensusEntry `json:"entries"`
}

type wireSpec struct {
	NameTests []wireNameTest `json:"name_tests"`
	Kernels   []wireKernel   `json:"kernels"`
	Cmps      []wireCmp    `json:"cmps"`
	Comment   string       `json:"comment"`
	Constants []wireConst  `json:"constants"`
	Tables    []wireTable  `json:"tables"`
	Census    []wireCensus `json:"census"`
	Dropped   []wireConst  `json:"dropped"` // discovered but deliberately not frozen, one reason each
}

// ---- discovery helpers ----

type fnSpan struct {
	start, end token.Pos
	fn         *ssa.Function
}

func fnSpans(p *Prog) []fnSpan {
	var out []fnSpan
	for _, f := range p.ModFns {
		if syn := f.Syntax(); syn != nil {
			out = append(out, fnSpan{syn.Pos(), syn.End(), f})
		}
	}
	return out
}

func enclosingFn(spans []fnSpan, pos token.Pos) *ssa.Function {
	var best *fnSpan
	for i := range spans {
		s := &spans[i]
		if s.start <= pos && pos < s.end {
			if best == nil || (s.end-s.start) < (best.end-best.start) {
				best = s
			}
		}
	}
	if best == nil {
		return nil
	}
	return best.fn
}

func wireSides(p *Prog) (enc, dec map[*ssa.Function]bool) {
	ws := resolveSide(p, "Writer")
	rs := resolveSide(p, "Reader")
	stop := func(f *ssa.Function) bool { return !p.InModule(f) || p.Rel(f) == "app" }
	encRoots := []*ssa.Function{ws.fn, ws.parent, ws.entry, p.Method("io", "Writer", "Write"), p.Method("io", "Writer", "Close"), p.Func("io", "createWriterWithCtx")}
	if wh := p.MethodOpt("io", "Writer", "writeHeader"); wh != nil {
		encRoots = append(encRoots, wh)
	}
	decRoots := []*ssa.Function{rs.fn, rs.parent, rs.entry, p.Method("io", "Reader", "Read"), p.Func("io", "createReaderWithCtx")}
	if rh := p.MethodOpt("io", "Reader", "readHeader"); rh != nil {
		decRoots = append(decRoots, rh)
	}
	if vh := p.MethodOpt("io", "Reader", "validateHeaderless"); vh != nil {
		decRoots = append(decRoots, vh)
	}
	return p.Reachable(encRoots, stop), p.Reachable(decRoots, stop)
}

type constUse struct{ enc, dec, init bool }

// constUses maps every package-level constant of the library packages to the sides it is referenced from.
func constUses(p *Prog) map[*types.Const]*constUse {
	enc, dec := wireSides(p)
	spans := fnSpans(p)
	out := map[*types.Const]*constUse{}
	for _, pk := range p.Pkgs {
		rel := strings.TrimPrefix(strings.TrimPrefix(pk.PkgPath, p.ModPath), "/")
		if !isLibRel(rel) {
			continue
		}
		for id, obj := range pk.TypesInfo.Uses {
			c, ok := obj.(*types.Const)
			if !ok || c.Pkg() == nil || c.Parent() != c.Pkg().Scope() || !p.isModPath(c.Pkg().Path()) {
				continue
			}
			u := out[c]
			if u == nil {
				u = &constUse{}
				out[c] = u
			}
			f := enclosingFn(spans, id.Pos())
			if f == nil {
				u.init = true
				continue
			}
			if enc[f] {
				u.enc = true
			}
			if dec[f] {
				u.dec = true
			}
		}
	}
	// constants used to define other constants or package-level tables inherit the sides of their users (one level)
	return out
}

func relOfPkg(p *Prog, pkg *types.Package) string {
	return strings.TrimPrefix(strings.TrimPrefix(pkg.Path(), p.ModPath), "/")
}

// flattenLiteral evaluates a composite literal made of constants (nested allowed) into a list of exact values.
func flattenLiteral(info *types.Info, e ast.Expr, out *[]string) bool {
	switch x := e.(type) {
	case *ast.CompositeLit:
		for _, el := range x.Elts {
			if kv, ok := el.(*ast.KeyValueExpr); ok {
				if tv, ok := info.Types[kv.Key]; ok && tv.Value != nil {
					*out = append(*out, "k"+tv.Value.ExactString())
				}
				el = kv.Value
			}
			if !flattenLiteral(info, el, out) {
				return false
			}
		}
		return true
	default:
		tv, ok := info.Types[e]
		if !ok || tv.Value == nil {
			// []byte("...") conversions
			if call, ok := e.(*ast.CallExpr); ok && len(call.Args) == 1 {
				if tv2, ok := info.Types[call.Args[0]]; ok && tv2.Value != nil {
					*out = append(*out, tv2.Value.ExactString())
					return true
				}
			}
			return false
		}
		*out = append(*out, tv.Value.ExactString())
		return true
	}
}

func literalTables(p *Prog) []wireTable {
	var out []wireTable
	for _, pk := range p.Pkgs {
		rel := strings.TrimPrefix(strings.TrimPrefix(pk.PkgPath, p.ModPath), "/")
		if !isLibRel(rel) {
			continue
		}
		for _, file := range pk.Syntax {
			for _, d := range file.Decls {
				gd, ok := d.(*ast.GenDecl)
				if !ok || gd.Tok != token.VAR {
					continue
				}
				for _, sp := range gd.Specs {
					vs := sp.(*ast.ValueSpec)
					for i, name := range vs.Names {
						if i >= len(vs.Values) {
							continue
						}
						var vals []string
						if _, isLit := vs.Values[i].(*ast.CompositeLit); !isLit {
							// string constants used as tables (static dictionary text)
							if tv, ok := pk.TypesInfo.Types[vs.Values[i]]; ok && tv.Value != nil && tv.Value.Kind() == constant.String && len(constant.StringVal(tv.Value)) >= 64 {
								vals = []string{tv.Value.ExactString()}
							} else if call, ok := vs.Values[i].(*ast.CallExpr); ok && len(call.Args) == 1 {
								if tv, ok := pk.TypesInfo.Types[call.Args[0]]; ok && tv.Value != nil && tv.Value.Kind() == constant.String && len(constant.StringVal(tv.Value)) >= 64 {
									vals = []string{tv.Value.ExactString()}
								}
							}
							if vals == nil {
								continue
							}
						} else if !flattenLiteral(pk.TypesInfo, vs.Values[i], &vals) {
							continue
						}
						if len(vals) < 8 && !(len(vals) == 1 && len(vals[0]) >= 64) {
							continue
						}
						h := sha256.Sum256([]byte(strings.Join(vals, ",")))
						out = append(out, wireTable{rel, name.Name, len(vals), hex.EncodeToString(h[:])})
					}
				}
			}
		}
	}
	// long string constants (dictionary text declared as const)
	for _, pk := range p.Pkgs {
		rel := strings.TrimPrefix(strings.TrimPrefix(pk.PkgPath, p.ModPath), "/")
		if !isLibRel(rel) {
			continue
		}
		sc := pk.Types.Scope()
		for _, n := range sc.Names() {
			if c, ok := sc.Lookup(n).(*types.Const); ok && c.Val().Kind() == constant.String && len(constant.StringVal(c.Val())) >= 64 {
				h := sha256.Sum256([]byte(c.Val().ExactString()))
				out = append(out, wireTable{rel, n, 1, hex.EncodeToString(h[:])})
			}
		}
	}
	sort.Slice(out, func(i, j int) bool { return out[i].Pkg+out[i].Name < out[j].Pkg+out[j].Name })
	return out
}

// censusOf counts (operation, integer constant) pairs in f and its same-package static callees.
func censusOf(p *Prog, f *ssa.Function) map[[2]string]int {
	out := map[[2]string]int{}
	seen := map[*ssa.Function]bool{}
	// constants handed to a same-package callee as arguments count where the callee uses the parameter (a seed or a
	// width that became a parameter of an extracted helper is still the same wire arithmetic)
	bound := map[*ssa.Parameter][]*ssa.Const{}
	inClosure := func(callee *ssa.Function) bool {
		return FnPkg(callee) == FnPkg(f) && callee.Signature.Recv() == nil || (callee.Signature.Recv() != nil && FnPkg(callee) == FnPkg(f) && f.Signature.Recv() != nil && namedOf(callee.Signature.Recv().Type()) == namedOf(f.Signature.Recv().Type()))
	}
	preSeen := map[*ssa.Function]bool{}
	var pre func(g *ssa.Function)
	pre = func(g *ssa.Function) {
		if preSeen[g] || g.Blocks == nil {
			return
		}
		preSeen[g] = true
		for _, an := range g.AnonFuncs {
			pre(an)
		}
		eachInstr(g, func(i ssa.Instruction) {
			ci, ok := i.(ssa.CallInstruction)
			if !ok {
				return
			}
			c := ci.Common()
			callee := c.StaticCallee()
			if callee == nil || !p.InModule(callee) || !inClosure(callee) {
				return
			}
			for k, a := range c.Args {
				if cc, ok := a.(*ssa.Const); ok && cc.Value != nil && cc.Value.Kind() == constant.Int && k < len(callee.Params) {
					bound[callee.Params[k]] = append(bound[callee.Params[k]], cc)
				}
			}
			pre(callee)
		})
	}
	pre(f)
	constsOf := func(o ssa.Value) []*ssa.Const {
		if c, ok := o.(*ssa.Const); ok {
			return []*ssa.Const{c}
		}
		if pr, ok := o.(*ssa.Parameter); ok {
			return bound[pr]
		}
		if cv, ok := o.(*ssa.Convert); ok {
			if pr, ok := cv.X.(*ssa.Parameter); ok {
				return bound[pr]
			}
		}
		return nil
	}
	var visit func(g *ssa.Function)
	visit = func(g *ssa.Function) {
		if seen[g] || g.Blocks == nil {
			return
		}
		seen[g] = true
		for _, an := range g.AnonFuncs {
			visit(an)
		}
		eachInstr(g, func(i ssa.Instruction) {
			switch x := i.(type) {
			case *ssa.BinOp:
				for oi, o := range []ssa.Value{x.X, x.Y} {
					for _, c := range constsOf(o) {
						if c.Value != nil && c.Value.Kind() == constant.Int {
							op, val := censusOp(x.Op, oi == 0), c.Value
							if op == "<=" {
								// integers: x <= c is x < c+1 (and x > c is x >= c+1): one spelling for the census
								op, val = "<", constant.BinaryOp(val, token.ADD, constant.MakeInt64(1))
							}
							out[[2]string{op, val.ExactString()}]++
						}
					}
				}
			case ssa.CallInstruction:
				c := x.Common()
				if bi, ok := c.Value.(*ssa.Builtin); ok && (bi.Name() == "min" || bi.Name() == "max") {
					// min(x, c) / max(x, c) draw the same boundary as `if x < c`: at x == c both arms agree
					for _, a := range c.Args {
						for _, cc := range constsOf(a) {
							if cc.Value != nil && cc.Value.Kind() == constant.Int {
								out[[2]string{"<", cc.Value.ExactString()}]++
							}
						}
					}
				}
				if op, ok := isBitstreamOp(p, c); ok {
					name := op[strings.LastIndex(op, ".")+1:]
					for k, a := range c.Args {
						for _, cc := range constsOf(a) {
							if cc.Value != nil && cc.Value.Kind() == constant.Int {
								if c.IsInvoke() || k > 0 {
									out[[2]string{name, cc.Value.ExactString()}]++
								}
							}
						}
					}
				} else if o := calleeObj(c); o != nil && o.Pkg() != nil && o.Pkg().Path() == "math/bits" && strings.HasPrefix(o.Name(), "RotateLeft") && len(c.Args) == 2 {
					// a rotation written with math/bits is the same wire arithmetic as (x<<k)|(x>>(w-k))
					if kc, ok := constInt(c.Args[1]); ok {
						w := int64(typeBits(c.Args[0].Type()))
						if strings.HasSuffix(o.Name(), "32") {
							w = 32
						} else if strings.HasSuffix(o.Name(), "64") {
							w = 64
						}
						kk := ((kc % w) + w) % w
						out[[2]string{"<<", fmt.Sprint(kk)}]++
						out[[2]string{">>", fmt.Sprint(w - kk)}]++
					}
				} else if callee := c.StaticCallee(); callee != nil && p.InModule(callee) {
					if FnPkg(callee) == FnPkg(f) && callee.Signature.Recv() == nil || (callee.Signature.Recv() != nil && FnPkg(callee) == FnPkg(f) && f.Signature.Recv() != nil && namedOf(callee.Signature.Recv().Type()) == namedOf(f.Signature.Recv().Type())) {
						visit(callee)
					}
					// constant arguments of module calls (hash seeds, orders ...)
					for _, a := range c.Args {
						if cc, ok := a.(*ssa.Const); ok && cc.Value != nil && cc.Value.Kind() == constant.Int {
							out[[2]string{"arg:" + callee.Name(), cc.Value.ExactString()}]++
						}
					}
				}
			}
		})
	}
	visit(f)
	return out
}

// censusOp: the operation under which a constant is recorded. Comparisons are recorded by the boundary they draw, not by
// their spelling: == and != are one class; with the constant on the right, < and >= (its negation) are one class, <= and
// > the other; a constant on the left is mirrored first.
func censusOp(op token.Token, constOnLeft bool) string {
	switch op {
	case token.EQL, token.NEQ:
		return "=="
	case token.LSS, token.LEQ, token.GTR, token.GEQ:
		if constOnLeft {
			op = mirrorOp(op)
		}
		if op == token.LSS || op == token.GEQ {
			return "<"
		}
		return "<="
	}
	return op.String()
}

func resolveAnchor(p *Prog, anchor string) *ssa.Function {
	// the two task functions are resolved structurally (the functions launched by processBlock)
	switch anchor {
	case "io:decodingTask.decode":
		return resolveSide(p, "Reader").fn
	case "io:encodingTask.encode":
		return resolveSide(p, "Writer").fn
	}
	rel, rest, _ := strings.Cut(anchor, ":")
	if typ, m, ok := strings.Cut(rest, "."); ok {
		return p.Method(rel, typ, m)
	}
	return p.Func(rel, rest)
}

var censusAnchors = []string{
	"io:Reader.readHeader", "io:Writer.writeHeader", "io:Writer.Close", "io:decodingTask.decode", "io:encodingTask.encode",
	"io:Reader.validateHeaderless", "io:createWriterWithCtx",
	"hash:XXHash32.Hash", "hash:XXHash64.Hash",
}

// droppedByName: discovered constants that are deliberately not frozen, with the reason.
func droppedReason(rel, name string) string {
	switch {
	case strings.HasPrefix(name, "ERR_"):
		return "error code (API, not format)"
	case strings.HasPrefix(name, "EVT_"):
		return "event id (API, not format)"
	case name == "_CANCEL_TASKS_ID":
		return "protocol sentinel, not format"
	case strings.HasSuffix(name, "_MAX_BLOCK_SIZE") || strings.HasSuffix(name, "_MIN_BLOCK_SIZE"):
		return "argument validation limit"
	case name == "_ANS_MIN_CHUNK_SIZE" || name == "_ANS_MAX_CHUNK_SIZE" || name == "_RANGE_MAX_CHUNK_SIZE" || name == "_RANGE_MIN_CHUNK_SIZE":
		return "argument validation limit"
	case name == "_HUF_BUFFER_SIZE":
		return "local scratch size"
	case strings.HasPrefix(name, "SBRT_MODE_"):
		return "internal enum, consistent renumbering changes no bit"
	case strings.HasPrefix(name, "_ROLZ_") && (strings.Contains(name, "CTX") || strings.Contains(name, "_MATCH_FLAG_CTX") || strings.Contains(name, "_LITERAL_CTX")):
		return "internal context tag"
	case name == "_BWT_BLOCK_SIZE_THRESHOLD2" || name == "_BWT_MASK_FASTBITS" || name == "_BWT_NB_FASTBITS":
		return "algorithm choice inside the decoder only"
	case name == "_STREAM_DEFAULT_BUFFER_SIZE" || name == "_EXTRA_BUFFER_SIZE" || name == "_MAX_CONCURRENCY" || name == "_SMALL_BLOCK_SIZE_UNUSED":
		return "buffer sizing / concurrency limit, not format"
	case strings.HasPrefix(name, "DT_"):
		return "data-type hint enum: written into codec mode bytes only through masks that are frozen separately"
	case strings.Contains(name, "_APM_") || strings.HasSuffix(name, "_APM") || strings.HasPrefix(name, "LOGISTIC_") || strings.HasPrefix(name, "FAST_"):
		return "adaptive probability map kind (internal enum)"
	}
	return ""
}

func genWireSpec(p *Prog) *wireSpec {
	spec := &wireSpec{Comment: "Frozen wire constants of kanzi bitstream format 6, generated from the pinned tree by `kzcheck -gen-wire` and curated by reading (DESIGN.md 6b). An entry is satisfied by a same-named constant with this value or, if the name is gone, by a package-level constant of that package with this value referenced from both the encoder and the decoder side."}
	uses := constUses(p)
	var cs []*types.Const
	for c := range uses {
		cs = append(cs, c)
	}
	sort.Slice(cs, func(i, j int) bool {
		return relOfPkg(p, cs[i].Pkg())+"."+cs[i].Name() < relOfPkg(p, cs[j].Pkg())+"."+cs[j].Name()
	})
	for _, c := range cs {
		u := uses[c]
		sides := ""
		switch {
		case u.enc && u.dec:
			sides = "both"
		case u.dec:
			sides = "dec"
		default:
			continue // encoder-only or init-only constants do not decide whether old streams decode
		}
		rel := relOfPkg(p, c.Pkg())
		wc := wireConst{Pkg: rel, Name: c.Name(), Value: c.Val().ExactString(), Sides: sides}
		if why := droppedReason(rel, c.Name()); why != "" {
			wc.Why = why
			spec.Dropped = append(spec.Dropped, wc)
			continue
		}
		spec.Constants = append(spec.Constants, wc)
	}
	nt := nameTests(p, codecNames(p))
	var ntk [][3]string
	for k := range nt {
		ntk = append(ntk, k)
	}
	sort.Slice(ntk, func(i, j int) bool { return ntk[i][0]+ntk[i][1]+ntk[i][2] < ntk[j][0]+ntk[j][1]+ntk[j][2] })
	for _, k := range ntk {
		spec.NameTests = append(spec.NameTests, wireNameTest{k[0], k[1], k[2], nt[k]})
	}
	for _, f := range kernelFunctions(p) {
		m := kernelCensus(f)
		if len(m) == 0 {
			continue
		}
		var es []wireCensusEntry
		for k, n := range m {
			es = append(es, wireCensusEntry{k[0], k[1], n})
		}
		sort.Slice(es, func(i, j int) bool { return es[i].Op+es[i].Value < es[j].Op+es[j].Value })
		spec.Kernels = append(spec.Kernels, wireKernel{p.FnName(f), es})
	}
	cmps := constComparisons(p)
	for _, wc := range spec.Constants {
		if m := cmps[wc.Pkg+"."+wc.Name]; len(m) > 0 {
			spec.Cmps = append(spec.Cmps, wireCmp{wc.Pkg, wc.Name, m})
		}
	}
	spec.Tables = literalTables(p)
	for _, a := range censusAnchors {
		f := resolveAnchor(p, a)
		m := censusOf(p, f)
		var es []wireCensusEntry
		for k, n := range m {
			// trivial constants carry no format information
			if k[1] == "0" || k[1] == "1" {
				if !strings.HasPrefix(k[0], "Read") && !strings.HasPrefix(k[0], "Write") {
					continue
				}
			}
			es = append(es, wireCensusEntry{k[0], k[1], n})
		}
		sort.Slice(es, func(i, j int) bool {
			if es[i].Op != es[j].Op {
				return es[i].Op < es[j].Op
			}
			return es[i].Value < es[j].Value
		})
		spec.Census = append(spec.Census, wireCensus{a, es})
	}
	return spec
}

// constComparisons: for every package-level constant of the library packages, the multiset of comparison operators it
// is used with (normalised so that the constant is the right-hand operand).
func constComparisons(p *Prog) map[string]map[string]int {
	out := map[string]map[string]int{}
	for _, pk := range p.Pkgs {
		rel := strings.TrimPrefix(strings.TrimPrefix(pk.PkgPath, p.ModPath), "/")
		if !isLibRel(rel) {
			continue
		}
		constOf := func(e ast.Expr) *types.Const {
			for {
				switch x := e.(type) {
				case *ast.ParenExpr:
					e = x.X
					continue
				case *ast.CallExpr:
					// conversion T(c)
					if len(x.Args) == 1 {
						if tv, ok := pk.TypesInfo.Types[x.Fun]; ok && tv.IsType() {
							e = x.Args[0]
							continue
						}
					}
				case *ast.Ident:
					if c, ok := pk.TypesInfo.Uses[x].(*types.Const); ok && c.Pkg() != nil && c.Parent() == c.Pkg().Scope() {
						return c
					}
				case *ast.SelectorExpr:
					if c, ok := pk.TypesInfo.Uses[x.Sel].(*types.Const); ok && c.Pkg() != nil && c.Parent() == c.Pkg().Scope() {
						return c
					}
				}
				return nil
			}
		}
		for _, file := range pk.Syntax {
			if strings.HasSuffix(p.Fset.Position(file.Pos()).Filename, "_test.go") {
				continue
			}
			ast.Inspect(file, func(n ast.Node) bool {
				be, ok := n.(*ast.BinaryExpr)
				if !ok {
					return true
				}
				// ordering comparisons only: `<` versus `<=` at a threshold is what moves a boundary; equality tests are
				// insensitive to such slips and come and go with switch / table refactorings
				switch be.Op {
				case token.LSS, token.LEQ, token.GTR, token.GEQ:
				default:
					return true
				}
				op := be.Op
				c := constOf(be.Y)
				if c == nil {
					if c = constOf(be.X); c == nil {
						return true
					}
					op = mirrorOp(op)
				} else if constOf(be.X) != nil {
					return true // constant expression
				}
				key := relOfPkg(p, c.Pkg()) + "." + c.Name()
				if out[key] == nil {
					out[key] = map[string]int{}
				}
				out[key][op.String()]++
				return true
			})
		}
	}
	return out
}

// nameTests counts, per library package, the tests of a string against a constant that is one of `names`
// (comparisons incl. switch cases and keys of map literals; strings.EqualFold; Contains/HasPrefix/HasSuffix/Index).
func nameTests(p *Prog, names map[string]bool) map[[3]string]int {
	out := map[[3]string]int{}
	for _, f := range p.ModFns {
		rel := p.Rel(f)
		if !isLibRel(rel) {
			continue
		}
		eachInstr(f, func(i ssa.Instruction) {
			switch x := i.(type) {
			case *ssa.BinOp:
				if x.Op != token.EQL && x.Op != token.NEQ {
					return
				}
				for _, o := range []ssa.Value{x.X, x.Y} {
					if c, ok := o.(*ssa.Const); ok && c.Value != nil && c.Value.Kind() == constant.String && names[constant.StringVal(c.Value)] {
						out[[3]string{rel, "cmp", constant.StringVal(c.Value)}]++
					}
				}
			case *ssa.Call:
				o := calleeObj(&x.Call)
				if o == nil || o.Pkg() == nil || o.Pkg().Path() != "strings" {
					return
				}
				kind := map[string]string{"EqualFold": "cmp-fold", "Contains": "contains", "HasPrefix": "prefix", "HasSuffix": "suffix", "Index": "index", "Compare": "cmp"}[o.Name()]
				if kind == "" {
					return
				}
				for _, a := range x.Call.Args {
					if c, ok := a.(*ssa.Const); ok && c.Value != nil && c.Value.Kind() == constant.String && names[constant.StringVal(c.Value)] {
						out[[3]string{rel, kind, constant.StringVal(c.Value)}]++
					}
				}
			}
		})
	}
	// keys of package-level map literals (table-driven form of a switch)
	for _, pk := range p.Pkgs {
		rel := strings.TrimPrefix(strings.TrimPrefix(pk.PkgPath, p.ModPath), "/")
		if !isLibRel(rel) {
			continue
		}
		for _, file := range pk.Syntax {
			if strings.HasSuffix(p.Fset.Position(file.Pos()).Filename, "_test.go") {
				continue
			}
			ast.Inspect(file, func(n ast.Node) bool {
				cl, ok := n.(*ast.CompositeLit)
				if !ok {
					return true
				}
				tv, ok := pk.TypesInfo.Types[cl]
				if !ok {
					return true
				}
				switch lt := tv.Type.Underlying().(type) {
				case *types.Slice, *types.Array:
					// a list of names that is scanned (for _, n := range names { if strings.EqualFold(x, n) ... })
					var et types.Type
					if sl, ok := lt.(*types.Slice); ok {
						et = sl.Elem()
					} else {
						et = lt.(*types.Array).Elem()
					}
					if b, ok := et.Underlying().(*types.Basic); ok && b.Info()&types.IsString != 0 {
						for _, el := range cl.Elts {
							if etv, ok := pk.TypesInfo.Types[el]; ok && etv.Value != nil && etv.Value.Kind() == constant.String && names[constant.StringVal(etv.Value)] {
								out[[3]string{rel, "list", constant.StringVal(etv.Value)}]++
							}
						}
					}
					return true
				}
				if _, isMap := tv.Type.Underlying().(*types.Map); !isMap {
					return true
				}
				for _, el := range cl.Elts {
					if kv, ok := el.(*ast.KeyValueExpr); ok {
						if ktv, ok := pk.TypesInfo.Types[kv.Key]; ok && ktv.Value != nil && ktv.Value.Kind() == constant.String && names[constant.StringVal(ktv.Value)] {
							out[[3]string{rel, "cmp", constant.StringVal(ktv.Value)}]++
						}
					}
				}
				return true
			})
		}
	}
	return out
}

// codecNames: the names of the format's codecs (from the name tables of the tree under analysis).
func codecNames(p *Prog) map[string]bool {
	out := map[string]bool{}
	for _, kind := range []string{"transform", "entropy"} {
		ct := loadTables(p, kind)
		for n := range ct.n2c {
			out[n] = true
		}
	}
	return out
}

// kernelCensus: literal shift / mask / multiplier constants of one function (no look-through into callees).
func kernelCensus(f *ssa.Function) map[[2]string]int {
	out := map[[2]string]int{}
	live := feasibleBlocks(f)
	eachInstr(f, func(i ssa.Instruction) {
		x, ok := i.(*ssa.BinOp)
		if !ok || !live[i.Block()] {
			return // (code behind a branch that an earlier test of the same value already decided is not counted)
		}
		var min int64
		switch x.Op {
		case token.SHR, token.SHL:
			min = 5
		case token.AND, token.MUL, token.XOR, token.OR:
			min = 16
		default:
			return
		}
		for _, o := range []ssa.Value{x.X, x.Y} {
			if c, ok := o.(*ssa.Const); ok && c.Value != nil && c.Value.Kind() == constant.Int {
				if v, exact := constant.Int64Val(c.Value); exact && v > -min && v < min {
					continue
				}
				out[[2]string{x.Op.String(), c.Value.ExactString()}]++
			}
		}
	})
	return out
}

// kernelFunctions: the functions of the codec packages that the decoder can reach.
func kernelFunctions(p *Prog) []*ssa.Function {
	_, dec := wireSides(p)
	var out []*ssa.Function
	for _, f := range p.ModFns {
		rel := p.Rel(f)
		if (rel != "transform" && rel != "entropy" && rel != "internal") || !dec[f] || f.Parent() != nil {
			continue
		}
		out = append(out, f)
	}
	return out
}

func loadWireSpec(path string) *wireSpec {
	b, err := os.ReadFile(path)
	if err != nil {
		undecided("cannot read wire spec %s: %v", path, err)
	}
	var s wireSpec
	if err := jsonUnmarshal(b, &s); err != nil {
		undecided("cannot parse wire spec %s: %v", path, err)
	}
	return &s
}

func ruleWire(p *Prog, r *RuleResult) {
	spec := loadWireSpec(filepath.Join(*flagVerif, "spec", "format6.json"))
	uses := constUses(p)
	// index of current constants by package
	byPkg := map[string]map[string]*types.Const{}
	for _, pk := range p.Pkgs {
		rel := strings.TrimPrefix(strings.TrimPrefix(pk.PkgPath, p.ModPath), "/")
		m := map[string]*types.Const{}
		sc := pk.Types.Scope()
		for _, n := range sc.Names() {
			if c, ok := sc.Lookup(n).(*types.Const); ok {
				m[n] = c
			}
		}
		byPkg[rel] = m
	}
	n := 0
	for _, wc := range spec.Constants {
		n++
		key := fmt.Sprintf("const.%s.%s", wc.Pkg, wc.Name)
		cur := byPkg[wc.Pkg][wc.Name]
		if cur != nil {
			if cur.Val().ExactString() == wc.Value {
				r.ok(fmt.Sprintf("%s = %s", key, wc.Value), p.Pos(cur.Pos()))
			} else {
				r.fail(key, p.Pos(cur.Pos()), fmt.Sprintf("wire constant %s.%s is %s in this tree but %s in bitstream format 6: streams written by the reference encoder no longer decode to the same bytes (a symmetric change is invisible to self round-trips)", wc.Pkg, wc.Name, cur.Val().ExactString(), wc.Value))
			}
			continue
		}
		// renamed? same value, still referenced from the required sides
		found := false
		for _, c := range byPkg[wc.Pkg] {
			if c.Val().ExactString() != wc.Value {
				continue
			}
			u := uses[c]
			if u == nil {
				continue
			}
			if (wc.Sides == "both" && u.enc && u.dec) || (wc.Sides == "dec" && u.dec) {
				found = true
				r.ok(fmt.Sprintf("%s renamed to %s, value %s kept", key, c.Name(), wc.Value), p.Pos(c.Pos()))
				break
			}
		}
		if !found {
			r.fail(key, "-", fmt.Sprintf("wire constant %s.%s (= %s in bitstream format 6) no longer exists and no constant of the package with that value is referenced from the %s side(s)", wc.Pkg, wc.Name, wc.Value, wc.Sides))
		}
	}
	cur := literalTables(p)
	curBy := map[string]wireTable{}
	curDigest := map[string]wireTable{}
	for _, t := range cur {
		curBy[t.Pkg+"."+t.Name] = t
		curDigest[t.SHA256] = t
	}
	for _, wt := range spec.Tables {
		n++
		key := fmt.Sprintf("table.%s.%s", wt.Pkg, wt.Name)
		if t, ok := curBy[wt.Pkg+"."+wt.Name]; ok {
			if t.SHA256 == wt.SHA256 {
				r.ok(fmt.Sprintf("%s: %d constant elements, digest unchanged", key, wt.N), "-")
			} else {
				r.fail(key, "-", fmt.Sprintf("constant table %s.%s differs from bitstream format 6 (%d elements now, %d frozen; digest %s.. vs %s..): both sides use the changed table, so self round-trips pass but reference streams decode differently", wt.Pkg, wt.Name, t.N, wt.N, t.SHA256[:12], wt.SHA256[:12]))
			}
			continue
		}
		if t, ok := curDigest[wt.SHA256]; ok {
			r.ok(fmt.Sprintf("%s renamed to %s, content unchanged", key, t.Name), "-")
			continue
		}
		r.fail(key, "-", fmt.Sprintf("constant table %s.%s of bitstream format 6 is gone (no literal table with its content exists)", wt.Pkg, wt.Name))
	}
	n += checkNameTests(p, r, spec)
	// literal shift / mask / multiplier constants of the codec kernels the decoder reaches (lower bounds per function;
	// a function that no longer exists under its name is skipped, not alarmed)
	byName := map[string]*ssa.Function{}
	for _, f := range p.ModFns {
		byName[p.FnName(f)] = f
	}
	nk, nskip := 0, 0
	frozenKernel := map[string]bool{}
	for _, wk := range spec.Kernels {
		frozenKernel[wk.Fn] = true
	}
	for _, wk := range spec.Kernels {
		f := byName[wk.Fn]
		if f == nil {
			nskip++
			continue
		}
		// a literal may have moved into a helper extracted from the kernel: helpers that are not kernels of the
		// frozen table themselves are counted with their caller
		m := kernelCensus(f)
		{
			seenH := map[*ssa.Function]bool{f: true}
			var addHelpers func(g *ssa.Function, d int)
			addHelpers = func(g *ssa.Function, d int) {
				if d > 3 {
					return
				}
				eachInstr(g, func(i ssa.Instruction) {
					c := callOf(i)
					if c == nil {
						return
					}
					h := c.StaticCallee()
					if h == nil || h.Blocks == nil || seenH[h] || FnPkg(h) != FnPkg(f) || frozenKernel[p.FnName(h)] {
						return
					}
					seenH[h] = true
					for k2, v2 := range kernelCensus(h) {
						m[k2] += v2
					}
					addHelpers(h, d+1)
				})
			}
			addHelpers(f, 0)
		}
		okAll := true
		for _, e := range wk.Entries {
			n++
			nk++
			if m[[2]string{e.Op, e.Value}] < 1 {
				okAll = false
				r.fail(fmt.Sprintf("kernel.%s#%s.%s", wk.Fn, e.Op, e.Value), p.Pos(f.Pos()), fmt.Sprintf("%s uses the literal %s in operation %s %d time(s); bitstream format 6 has %d: a shift, mask or multiplier of a codec kernel that the decoder runs was changed (encoder and decoder drift together, reference streams decode differently)", wk.Fn, e.Value, e.Op, m[[2]string{e.Op, e.Value}], e.Count))
			}
		}
		if okAll {
			r.Obligations += len(wk.Entries)
			r.Discharged += len(wk.Entries)
			r.Instances = append(r.Instances, Instance{fmt.Sprintf("kernel %s: %d literal shift/mask/multiplier constants unchanged", wk.Fn, len(wk.Entries)), p.Pos(f.Pos()), "ok"})
		}
	}
	if nskip > 0 {
		r.note("%d kernel function(s) of the frozen table no longer exist under their name: their literal constants are NOT DECIDED on this tree", nskip)
	}
	curCmps := constComparisons(p)
	for _, wc := range spec.Cmps {
		if byPkg[wc.Pkg][wc.Name] == nil {
			continue // renamed constant: its value is checked above, its comparisons cannot be matched by name
		}
		got := curCmps[wc.Pkg+"."+wc.Name]
		// what matters is on which side of the boundary the threshold itself falls: `x < T` and `x >= T` (= !(x < T))
		// put T on the upper side, `x <= T` and `x > T` on the lower side; a negated spelling is the same boundary
		class := func(m map[string]int, ops ...string) int {
			t := 0
			for _, o := range ops {
				t += m[o]
			}
			return t
		}
		classes := [][]string{{"<", ">="}, {"<=", ">"}}
		for ci, cl := range classes {
			want := class(wc.Ops, cl...)
			if want == 0 {
				continue
			}
			n++
			have := class(got, cl...)
			// fewer comparisons of the same boundary class are a merge of duplicated code (a helper shared by encoder
			// and decoder) unless the other class grew at the same time: then a comparison changed sides
			other := classes[1-ci]
			moved := have < want && class(got, other...) > class(wc.Ops, other...)
			key := fmt.Sprintf("cmp.%s.%s#%s", wc.Pkg, wc.Name, cl[0])
			if have >= 1 && !moved {
				r.ok(fmt.Sprintf("%s x%d", key, have), p.Pos(byPkg[wc.Pkg][wc.Name].Pos()))
			} else {
				r.fail(key, p.Pos(byPkg[wc.Pkg][wc.Name].Pos()), fmt.Sprintf("wire threshold %s.%s is compared with `%s` (or its negation `%s`) %d time(s); bitstream format 6 has %d (now used with %v): a boundary moved by one changes which layout both sides choose for inputs exactly at the threshold, so reference streams of that size no longer decode", wc.Pkg, wc.Name, cl[0], cl[1], have, want, got))
			}
		}
	}
	for _, wcs := range spec.Census {
		f := resolveAnchor(p, wcs.Anchor)
		m := censusOf(p, f)
		for _, e := range wcs.Entries {
			n++
			key := fmt.Sprintf("census.%s#%s.%s", wcs.Anchor, e.Op, e.Value)
			got := m[[2]string{e.Op, e.Value}]
			// presence, not multiplicity: a clean-up may merge two identical uses into one; a changed constant
			// disappears altogether
			if got >= 1 {
				r.ok(fmt.Sprintf("%s x%d", key, got), p.Pos(f.Pos()))
			} else {
				r.fail(key, p.Pos(f.Pos()), fmt.Sprintf("%s uses the constant %s in operation %s %d time(s); bitstream format 6 has %d: a field width, shift, multiplier or seed of the header / block framing / hash changed", wcs.Anchor, e.Value, e.Op, got, e.Count))
			}
		}
	}
	r.floor(100, n, "frozen wire entries")
}

// checkNameTests: tests of a string against a codec name of format 6 form the same multiset per package as in the
// frozen table (a name added to or removed from a variant-selection list, or a change of the kind of test, changes
// which codec flavour both sides pick).
func checkNameTests(p *Prog, r *RuleResult, spec *wireSpec) int {
	n := 0
	frozenNames := map[string]bool{}
	for _, e := range spec.NameTests {
		frozenNames[e.Value] = true
	}
	curNT := nameTests(p, frozenNames)
	seenNT := map[[3]string]bool{}
	for _, e := range spec.NameTests {
		n++
		k3 := [3]string{e.Pkg, e.Kind, e.Value}
		seenNT[k3] = true
		key := fmt.Sprintf("nametest.%s#%s.%s", e.Pkg, e.Kind, e.Value)
		// presence, not multiplicity (a duplicated test may be merged into a helper); a name moved into a list literal
		// that is scanned stands for a test of whatever kind the scan applies
		if curNT[k3] >= 1 || curNT[[3]string{e.Pkg, "list", e.Value}] >= 1 {
			r.ok(fmt.Sprintf("%s x%d", key, curNT[k3]), "-")
		} else {
			r.fail(key, "-", fmt.Sprintf("package %s tests a string against the codec name %q (%s) %d time(s); bitstream format 6 has %d: a variant-selection test was added, removed or changed in kind, so both sides pick a different codec flavour than the reference for some names", e.Pkg, e.Value, e.Kind, curNT[k3], e.Count))
		}
	}
	frozenPV := map[[2]string]bool{}
	for _, e := range spec.NameTests {
		frozenPV[[2]string{e.Pkg, e.Value}] = true
	}
	for k3, c := range curNT {
		if k3[1] == "list" && frozenPV[[2]string{k3[0], k3[2]}] {
			continue
		}
		if !seenNT[k3] && c > 0 {
			n++
			r.fail(fmt.Sprintf("nametest.%s#%s.%s", k3[0], k3[1], k3[2]), "-", fmt.Sprintf("package %s now tests a string against the format-6 codec name %q (%s) %d time(s); the reference has no such test: a codec name was added to a variant-selection list", k3[0], k3[2], k3[1], c))
		}
	}
	return n
}

func ruleNameSet(p *Prog, r *RuleResult) {
	spec := loadWireSpec(filepath.Join(*flagVerif, "spec", "format6.json"))
	n := checkNameTests(p, r, spec)
	r.floor(20, n, "frozen codec-name tests")
}

package main

import (
	"fmt"
	"os"
	"go/types"
	"sort"

	"golang.org/x/tools/go/ssa"
)

// ---------------------------------------------------------------------------------------
// R-BITCOUNT: bit counters of the two bitstreams, decided with an affine-equality analysis
// ---------------------------------------------------------------------------------------
//
// The counter functional G is read from the accessor itself (Written() / Read()): whatever affine form of
// the receiver's integer fields it returns. Obligations (each an affine equality that must hold at every
// return of the named method; paths that end in a panic have no post-state and are not constrained):
//
//   delta        G' - G = bits           for WriteBits/WriteArray/ReadBits/ReadArray (bits = the count argument),
//                                         and the returned count equals the argument where one is returned
//   conserve     G' - G = 0              for the helper that hands the buffer to the sink (flush), the helper that
//                                         refills from the source, HasMoreToRead and both Close methods
//   restore      every integer field equals its entry value at each *error* return of the writer's Close
//                                         (a failed Close can be retried; a retry must start from the same state)
//
// An obligation that the analysis cannot prove is reported as a violation only when (a) it is in the table of
// obligations proven on the confirmed tree (bitcountProven) and (b) the deviation does not vanish when every
// unknown (non-affine) value is given the benefit of the doubt; otherwise it is recorded as not decided.

func init() {
	register("R-BITCOUNT", "the bit counters of both bitstreams advance by exactly the size of each operation, flush/refill/Close conserve them, and a failed Close restores the writer's state (affine-equality analysis over the methods)", false, ruleBitCount)
}

type bcObl struct {
	id     string
	kind   string // delta | conserve | restore | ret
	method string
}

// obligations proven on the confirmed tree; a deviation in one of these is a violation
var bitcountProven = map[string]bool{
	"(*bitstream.DefaultOutputBitStream).WriteBits#delta":            true,
	"(*bitstream.DefaultOutputBitStream).WriteArray#delta":           true,
	"(*bitstream.DefaultOutputBitStream).Close#conserve":             true,
	"(*bitstream.DefaultOutputBitStream).Close#restore":              true,
	"(*bitstream.DefaultOutputBitStream).<sink-helper>#conserve":     true,
	"(*bitstream.DefaultInputBitStream).ReadBit#delta":               true,
	"(*bitstream.DefaultInputBitStream).ReadBits#delta":              true,
	"(*bitstream.DefaultInputBitStream).Close#conserve":              true,
	"(*bitstream.DefaultInputBitStream).HasMoreToRead#conserve":      true,
	"(*bitstream.DefaultInputBitStream).<source-helper>#conserve":    true,
}

type bcSide struct {
	typ      string
	accessor string
	deltas   map[string]kspec
	conserve []string
	restore  []string
	sinkRole string // "Write" on io.Writer / "Read" on io.Reader: the helper containing that invoke conserves
}

func bitstreamSides() []bcSide {
	return []bcSide{
		{typ: "DefaultOutputBitStream", accessor: "Written",
			deltas: map[string]kspec{
				"WriteBit":   {bitsParam: -1, bitsConst: 1},
				"WriteBits":  {bitsParam: 2, retIsBits: true},
				"WriteArray": {bitsParam: 2, retIsBits: true},
			},
			conserve: []string{"Close"}, restore: []string{"Close"}, sinkRole: "Write"},
		{typ: "DefaultInputBitStream", accessor: "Read",
			deltas: map[string]kspec{
				"ReadBit":   {bitsParam: -1, bitsConst: 1},
				"ReadBits":  {bitsParam: 1},
				"ReadArray": {bitsParam: 2, retIsBits: true},
			},
			conserve: []string{"Close", "HasMoreToRead"}, sinkRole: "Read"},
	}
}

// helperWithInvoke: the method of typ that invokes iface method `name` on one of the receiver's fields
func helperWithInvoke(p *Prog, T *types.Named, name string) []*ssa.Function {
	var out []*ssa.Function
	for _, f := range p.ModFns {
		if f.Signature.Recv() == nil || f.Blocks == nil {
			continue
		}
		if n := namedOf(f.Signature.Recv().Type()); n == nil || n.Obj() != T.Obj() {
			continue
		}
		found := false
		eachInstr(f, func(i ssa.Instruction) {
			c, ok := i.(*ssa.Call)
			if !ok {
				return
			}
			if c.Call.IsInvoke() && c.Call.Method.Name() == name {
				if _, _, _, ok := loadOfField(c.Call.Value); ok {
					found = true
				}
			}
			// the same through the standard helpers (io.ReadFull(this.is, buf), io.ReadAtLeast, io.Copy ...)
			if o := calleeObj(&c.Call); o != nil && o.Pkg() != nil && o.Pkg().Path() == "io" && !c.Call.IsInvoke() {
				for _, a := range c.Call.Args {
					if _, _, _, ok := loadOfField(stripConv(a)); ok {
						if mi, isMI := a.(*ssa.ChangeInterface); isMI {
							_ = mi
						}
						found = true
					}
					if ci, ok := a.(*ssa.ChangeInterface); ok {
						if _, _, _, ok := loadOfField(ci.X); ok {
							found = true
						}
					}
				}
			}
		})
		if found {
			out = append(out, f)
		}
	}
	sort.Slice(out, func(i, j int) bool { return out[i].Name() < out[j].Name() })
	return out
}

type bcVerdict struct {
	proven   bool
	definite bool
	detail   string
	pos      string
	undecRsn string
}

func ruleBitCount(p *Prog, r *RuleResult) {
	nProven := 0
	for _, side := range bitstreamSides() {
		acc := p.MethodOpt("bitstream", side.typ, side.accessor)
		if acc == nil {
			undecided("R-BITCOUNT: %s.%s not found", side.typ, side.accessor)
			return
		}
		T := namedOf(acc.Signature.Recv().Type())
		run := func(f *ssa.Function, kind string, sp kspec) {
			name := f.Name()
			if !f.Object().Exported() {
				name = map[string]string{"Write": "<sink-helper>", "Read": "<source-helper>"}[side.sinkRole]
			}
			id := fmt.Sprintf("(*bitstream.%s).%s#%s", side.typ, name, kind)
			v := bitcountCheck(p, T, acc, side, f, kind, sp)
			switch {
			case v.proven:
				nProven++
				r.ok(id+": "+v.detail, p.Pos(f.Pos()))
			case v.definite && bitcountProven[id]:
				nProven++ // decided (as a violation): the floor counts obligations the analysis reached a verdict on
				r.fail(id, v.pos, v.detail)
			default:
				why := v.undecRsn
				if why == "" {
					why = "the affine analysis does not establish it (inequality facts or non-affine arithmetic are involved)"
				}
				r.info(id+": NOT DECIDED – "+why+"; "+v.detail, p.Pos(f.Pos()))
			}
		}
		var names []string
		for n := range side.deltas {
			names = append(names, n)
		}
		sort.Strings(names)
		for _, n := range names {
			f := p.MethodOpt("bitstream", side.typ, n)
			if f == nil {
				undecided("R-BITCOUNT: %s.%s not found", side.typ, n)
				return
			}
			run(f, "delta", side.deltas[n])
		}
		for _, n := range side.conserve {
			if f := p.MethodOpt("bitstream", side.typ, n); f != nil {
				run(f, "conserve", kspec{bitsParam: -1})
			}
		}
		for _, n := range side.restore {
			if f := p.MethodOpt("bitstream", side.typ, n); f != nil {
				run(f, "restore", kspec{bitsParam: -1})
			}
		}
		hs := helperWithInvoke(p, T, side.sinkRole)
		if len(hs) == 0 {
			undecided("R-BITCOUNT: no method of %s calls %s on the underlying stream", side.typ, side.sinkRole)
			return
		}
		for _, f := range hs {
			if _, isDelta := side.deltas[f.Name()]; isDelta {
				continue
			}
			run(f, "conserve", kspec{bitsParam: -1})
		}
	}
	r.note("assumptions: integer arithmetic does not wrap; the receiver's integer fields are written only by its own methods; calls on other objects do not change them; inequality guards are ignored, equality guards and unsigned<=0 refine")
	// vacuity guard: most of the obligations proven on the confirmed tree must still get a verdict; a restructuring that
	// defeats the prover for one or two methods is recorded as not decided above and does not fail the check
	r.floor(len(bitcountProven)-4, nProven, "counter obligations decided")
}

func bitcountCheck(p *Prog, T *types.Named, acc *ssa.Function, side bcSide, f *ssa.Function, kind string, sp kspec) (v bcVerdict) {
	defer func() {
		if e := recover(); e != nil {
			if _, ok := e.(affOverflow); ok {
				v = bcVerdict{undecRsn: "rational overflow in the affine domain"}
				return
			}
			panic(e)
		}
	}()
	try := func(benefit bool) (bool, string, string, []string) {
		k := newKarr(p, T)
		k.benefit = benefit
		for n, s := range side.deltas {
			k.specs[n] = s
		}
		if !k.deriveG(acc) {
			return false, "the accessor does not return an affine form of the receiver's integer fields", "", []string{"accessor not affine"}
		}
		k.nextCtx++
		ctx := k.nextCtx
		in := k.entryState()
		for _, prm := range f.Params {
			if isIntType(prm.Type()) {
				x := k.varOf(ctx, prm, -1)
				in.grow(k.nvars)
				in.havoc(x)
			}
		}
		// the method under analysis must not use its own spec for itself on the outermost frame only:
		// recursive calls use the spec (induction on the call depth)
		rets := k.analyse(f, ctx, in, f.Params[0])
		var unsup []string
		for u := range k.unsup {
			unsup = append(unsup, u)
		}
		sort.Strings(unsup)
		if len(rets) == 0 && len(unsup) == 0 {
			return true, "no normal return", "", nil
		}
		gname := "G =" + k.linString(k.G)
		for _, rt := range rets {
			st := rt.st
			st.grow(k.nvars)
			var obls []lin
			var what []string
			switch kind {
			case "delta", "conserve":
				bitsL := linConst(sp.bitsConst)
				if sp.bitsParam >= 0 {
					l, ok := k.lx(ctx, f.Params[sp.bitsParam])
					if !ok {
						return false, "count parameter is not an integer", p.IPos(rt.ret), unsup
					}
					bitsL = l
				}
				obls = append(obls, k.G.minus(k.entryG()).minus(bitsL))
				what = append(what, "counter advance")
				if kind == "delta" && sp.retIsBits {
					ops := rvals(rt.ret)
					if len(ops) == 1 {
						if e, ok := k.lx(ctx, ops[0]); ok {
							obls = append(obls, e.minus(bitsL))
							what = append(what, "returned count")
						}
					}
				}
			case "restore":
				ops := rvals(rt.ret)
				if len(ops) == 0 || isNilConst(ops[len(ops)-1]) {
					continue // success return
				}
				for _, i := range k.sortedFields() {
					obls = append(obls, linVar(k.fieldVar[i]).minus(linVar(k.entryVar[i])))
					what = append(what, "field "+k.fieldName(i))
				}
			}
			for i, o := range obls {
				if st.zeroOn(o) {
					continue
				}
				d := ""
				switch {
				case kind == "restore":
					d = fmt.Sprintf("%s is not restored to its entry value at this error return: a retried %s starts from a different state (counters drift, bytes are emitted twice or lost)", what[i], f.Name())
				case what[i] == "returned count":
					d = "the value returned here is not the bit count that was asked for"
				case kind == "conserve":
					d = fmt.Sprintf("%s() is not conserved on a path to this return: this method moves bits between the buffer and the underlying stream, it must neither add nor lose any (the counter can go backwards or double-count)", side.accessor)
				default:
					d = fmt.Sprintf("%s() does not advance by exactly the size of the operation on a path to this return", side.accessor)
				}
				if c, ok := st.constOn(o); ok {
					d += fmt.Sprintf("; off by the constant %s", c.String())
				}
				if benefit && st.tainted(o) {
					// an unknown value was stored in one of the fields the obligation speaks about: nothing definite
					return true, "", "", nil
				}
				if os.Getenv("KZ_KARR_DEBUG") != "" {
					fmt.Fprintf(os.Stderr, "KARR %s %s %s: %s\n", f.Name(), kind, p.IPos(rt.ret), k.explain(st, o))
				}
				return false, d + " (" + gname + ")", p.IPos(rt.ret), unsup
			}
		}
		if len(unsup) > 0 {
			return false, "unsupported construct: " + unsup[0], "", unsup
		}
		return true, fmt.Sprintf("%d return(s), %s", len(rets), gname), "", nil
	}
	ok, detail, pos, unsup := try(false)
	if ok {
		return bcVerdict{proven: true, detail: detail}
	}
	if len(unsup) > 0 {
		return bcVerdict{detail: detail, pos: pos, undecRsn: "unsupported construct (" + unsup[0] + ")"}
	}
	// benefit of the doubt: unknown values are taken as whatever makes the relation hold (they are set to 0,
	// which removes them from every affine relation); if the obligation still fails, no unknown is to blame
	ok2, detail2, pos2, _ := try(true)
	if !ok2 {
		return bcVerdict{definite: true, detail: detail2, pos: pos2}
	}
	return bcVerdict{detail: detail, pos: pos}
}

package main

import (
	"bufio"
	"encoding/json"
	"fmt"
	"os"
	"path/filepath"
	"sort"
	"strings"
)

// Finding is one reported construct. Construct is a line-free key (function#callee#ordinal...).
type Finding struct {
	Rule      string `json:"rule"`
	Construct string `json:"construct"`
	Pos       string `json:"pos"`
	Msg       string `json:"msg"`
}

// Instance is one matched rule instance (an obligation or an analysed site).
type Instance struct {
	What   string `json:"what"`
	Pos    string `json:"pos"`
	Status string `json:"status"` // ok | violation | exempt: reason | info
}

type RuleResult struct {
	Rule        string     `json:"rule"`
	Clause      string     `json:"clause"`
	Instances   []Instance `json:"instances"`
	Obligations int        `json:"obligations"`
	Discharged  int        `json:"discharged"`
	Findings    []Finding  `json:"findings"`
	Floor       int        `json:"floor"`
	FloorWhat   string     `json:"floor_what,omitempty"`
	Counted     int        `json:"counted"` // the number compared with Floor
	Notes       []string   `json:"notes,omitempty"`
	Fixture     string     `json:"fixture,omitempty"` // "fired: <construct>" for sink rules
	Undecided   string     `json:"undecided,omitempty"`
	p           *Prog
}

func newResult(p *Prog, rule, clause string) *RuleResult {
	return &RuleResult{Rule: rule, Clause: clause, p: p}
}

// ok records a discharged obligation.
func (r *RuleResult) ok(what, pos string) {
	r.Obligations++
	r.Discharged++
	r.Instances = append(r.Instances, Instance{what, pos, "ok"})
}

// info records an analysed site that carries no obligation.
func (r *RuleResult) info(what, pos string) {
	r.Instances = append(r.Instances, Instance{what, pos, "info"})
}

func (r *RuleResult) exempt(what, pos, reason string) {
	r.Instances = append(r.Instances, Instance{what, pos, "exempt: " + reason})
}

// fail records a violated obligation.
func (r *RuleResult) fail(construct, pos, msg string) {
	r.Obligations++
	r.Instances = append(r.Instances, Instance{construct, pos, "violation"})
	r.Findings = append(r.Findings, Finding{r.Rule, construct, pos, msg})
}

// sink records a finding of a zero-expected rule (no obligation enumerated beforehand).
func (r *RuleResult) sink(construct, pos, msg string) {
	r.fail(construct, pos, msg)
}

func (r *RuleResult) note(format string, a ...any) {
	r.Notes = append(r.Notes, fmt.Sprintf(format, a...))
}

func (r *RuleResult) floor(n int, counted int, what string) {
	r.Floor = n
	r.Counted = counted
	r.FloorWhat = what
}

// Rule is a repository-specific static rule.
type Rule struct {
	Name    string
	Clause  string
	Run     func(p *Prog, r *RuleResult)
	Fixture bool // true: sink rule, must fire on the fixture module
}

var rules = map[string]*Rule{}

func register(name, clause string, fixture bool, run func(p *Prog, r *RuleResult)) {
	rules[name] = &Rule{Name: name, Clause: clause, Run: run, Fixture: fixture}
}

// runRule executes a rule, converting Undecided panics to an undecided result.
func runRule(p *Prog, rule *Rule) (res *RuleResult) { return runRuleF(p, rule, true) }

// runRuleF: floors are only enforced on the real tree (the fixture is a positive control, not a census).
func runRuleF(p *Prog, rule *Rule, floors bool) (res *RuleResult) {
	res = newResult(p, rule.Name, rule.Clause)
	defer func() {
		if e := recover(); e != nil {
			if u, ok := e.(Undecided); ok {
				res.Undecided = u.Msg
				return
			}
			res.Undecided = fmt.Sprintf("checker panic: %v", e)
			if os.Getenv("KZ_DEBUG") != "" {
				panic(e)
			}
		}
	}()
	rule.Run(p, res)
	if floors && res.Undecided == "" && res.Counted < res.Floor {
		res.Undecided = fmt.Sprintf("instance floor not met: %s: found %d, need >= %d (rule would pass vacuously)", res.FloorWhat, res.Counted, res.Floor)
	}
	sort.SliceStable(res.Findings, func(i, j int) bool { return res.Findings[i].Construct < res.Findings[j].Construct })
	return res
}

// ---------- known findings ----------

type Known struct {
	Property  string
	Rule      string
	Construct string
	Text      string
}

type KnownFile struct {
	Findings []Known
	Fixed    []string
}

func parseKV(s string) (map[string]string, string) {
	kv := map[string]string{}
	rest := []string{}
	for _, f := range strings.Fields(s) {
		if i := strings.Index(f, "="); i > 0 && len(rest) == 0 {
			kv[f[:i]] = f[i+1:]
		} else {
			rest = append(rest, f)
		}
	}
	return kv, strings.Join(rest, " ")
}

func loadKnown(path string) *KnownFile {
	kf := &KnownFile{}
	f, err := os.Open(path)
	if err != nil {
		return kf
	}
	defer f.Close()
	sc := bufio.NewScanner(f)
	for sc.Scan() {
		l := strings.TrimSpace(sc.Text())
		if l == "" || strings.HasPrefix(l, "#") {
			continue
		}
		if strings.HasPrefix(l, "finding:") {
			kv, rest := parseKV(strings.TrimPrefix(l, "finding:"))
			kf.Findings = append(kf.Findings, Known{kv["property"], kv["rule"], kv["construct"], rest})
		} else if strings.HasPrefix(l, "fixed:") {
			kf.Fixed = append(kf.Fixed, strings.TrimSpace(strings.TrimPrefix(l, "fixed:")))
		}
	}
	return kf
}

func (kf *KnownFile) match(prop string, f Finding) *Known {
	for i := range kf.Findings {
		k := &kf.Findings[i]
		if k.Property == prop && k.Rule == f.Rule && k.Construct == f.Construct {
			return k
		}
	}
	return nil
}

// ---------- evidence ----------

type Evidence struct {
	PropertyID  string         `json:"property_id"`
	Tier        string         `json:"tier"`
	Seed        int            `json:"seed"`
	Level       string         `json:"level"`
	Coverage    map[string]any `json:"coverage"`
	Assumptions []string       `json:"assumptions"`
	WallS       float64        `json:"wall_s"`
	Violations  int            `json:"violations"`
}

func writeJSON(path string, v any) {
	if err := os.MkdirAll(filepath.Dir(path), 0o755); err != nil {
		fmt.Fprintln(os.Stderr, "mkdir:", err)
		os.Exit(2)
	}
	b, err := json.MarshalIndent(v, "", " ")
	if err != nil {
		fmt.Fprintln(os.Stderr, "json:", err)
		os.Exit(2)
	}
	tmp := path + ".tmp"
	if err := os.WriteFile(tmp, append(b, '\n'), 0o644); err != nil {
		fmt.Fprintln(os.Stderr, "write:", err)
		os.Exit(2)
	}
	if err := os.Rename(tmp, path); err != nil {
		fmt.Fprintln(os.Stderr, "rename:", err)
		os.Exit(2)
	}
}

package main

import (
	"fmt"
	"go/token"
	"go/types"
	"sort"

	"golang.org/x/tools/go/ssa"
)

// Rules added after the third round of independently seeded changes.

func init() {
	register("R-BATCH-ONLY", "the Reader's batch function reports success only after a batch of decode tasks has run (or the stream was cancelled): the end of the stream is never inferred from counts without reading the end marker", false, ruleBatchOnly)
	register("R-EOF-AT-END", "Reader.Read returns io.EOF only after the batch function ran in this call and delivered nothing", false, ruleEOFAtEnd)
	register("R-DIV-GUARD", "a Reader field that is filled from the stream header and used as a divisor is range-checked (lower bound above zero) on every path of the header parser that reports success", false, ruleDivGuard)
	register("R-CTX-KEYS", "every context key a codec constructor consumes is published on the compression side and on both decompression sides (header, headerless)", false, ruleCtxKeys)
	register("R-JOBS-WIRE", "the job count does not influence the fields the Writer puts on the wire (block size, header fields): neither by data flow nor by deciding a branch or loop around their assignment", false, ruleJobsWire)
}

// parentCancelEdges: edges of the parent function on which the shared counter was found to hold the cancel value
func parentCancelEdges(s *taskSide) []edge {
	var out []edge
	for _, b := range s.parent.Blocks {
		ifi := blockIf(b)
		if ifi == nil {
			continue
		}
		atom, pos := condAtom(ifi.Cond)
		bo, ok := atom.(*ssa.BinOp)
		if !ok || (bo.Op != token.EQL && bo.Op != token.NEQ) {
			continue
		}
		isCounter := func(v ssa.Value) bool {
			if c, ok := v.(*ssa.Call); ok && isAtomic(&c.Call, "LoadInt32") && len(c.Call.Args) == 1 {
				if fv := fieldVarOfAddr(c.Call.Args[0]); fv != nil && fv == s.parentCounter {
					return true
				}
			}
			if fv := fieldVarOfLoad(v); fv != nil && fv == s.parentCounter {
				return true
			}
			return false
		}
		var other ssa.Value
		if isCounter(bo.X) {
			other = bo.Y
		} else if isCounter(bo.Y) {
			other = bo.X
		}
		if other == nil {
			continue
		}
		if cv, ok := constInt(other); !ok || cv != s.cancelConst {
			continue
		}
		out = append(out, edge{b, succFor(pos, bo.Op == token.EQL)})
	}
	return out
}

func ruleBatchOnly(p *Prog, r *RuleResult) {
	s := resolveSide(p, "Reader")
	pb := s.parent
	pname := p.FnName(pb)
	isWait := func(i ssa.Instruction) bool {
		c := callOf(i)
		return c != nil && isMethodNamed(c, "sync", "WaitGroup", "Wait")
	}
	direct, via := p.liftedSites(pb, isWait)
	waits := append(direct, via...)
	if len(waits) == 0 {
		undecided("R-BATCH-ONLY: %s does not wait for its tasks", pname)
	}
	cancels := parentCancelEdges(s)
	n := 0
	var k keyer
	for _, b := range pb.Blocks {
		ret, ok := b.Instrs[len(b.Instrs)-1].(*ssa.Return)
		if !ok || b == pb.Recover {
			continue
		}
		rv := rvals(ret)
		if len(rv) == 0 || !isErrType(rv[len(rv)-1].Type()) || !retMayBeNil(ret, len(rv)-1) {
			continue
		}
		n++
		covered := ""
		for _, w := range waits {
			if instrDominates(w, ret) {
				covered = "after a batch of tasks completed"
			}
		}
		for _, e := range cancels {
			if edgeDominates(pb, e, b) {
				covered = "stream cancelled by an earlier failure"
			}
		}
		if covered != "" {
			r.ok(fmt.Sprintf("%s: success return %s", pname, covered), p.IPos(ret))
		} else {
			r.fail(k.key(pname, "success-without-batch"), p.IPos(ret), "the batch function can report success (no error) without having run a batch of decode tasks and without the stream being cancelled: the end of the stream is then concluded from something other than the end marker, so a truncated stream, or blocks the caller asked for, go unnoticed")
		}
	}
	r.floor(2, n, "success returns of the Reader's batch function")
}

func isIOEOF(v ssa.Value) bool {
	u, ok := v.(*ssa.UnOp)
	if !ok || u.Op != token.MUL {
		return false
	}
	g, ok := u.X.(*ssa.Global)
	return ok && g.Pkg != nil && g.Pkg.Pkg.Path() == "io" && g.Name() == "EOF"
}

func ruleEOFAtEnd(p *Prog, r *RuleResult) {
	rd := p.Method("io", "Reader", "Read")
	s := resolveSide(p, "Reader")
	fname := p.FnName(rd)
	var pbCalls []*ssa.Call
	eachInstr(rd, func(i ssa.Instruction) {
		if c, ok := i.(*ssa.Call); ok && c.Call.StaticCallee() == s.parent {
			pbCalls = append(pbCalls, c)
		}
	})
	if len(pbCalls) == 0 {
		r.info(fname+": the batch function is not called directly from Read – NOT DECIDED on this tree (relocated code)", p.Pos(rd.Pos()))
		return
	}
	n := 0
	var k keyer
	for _, b := range rd.Blocks {
		ret, ok := b.Instrs[len(b.Instrs)-1].(*ssa.Return)
		if !ok || b == rd.Recover {
			continue
		}
		rv := rvals(ret)
		if len(rv) != 2 {
			continue
		}
		// the error operand may be io.EOF directly or a phi/cell over it
		eof := false
		seen := map[ssa.Value]bool{}
		var walk func(v ssa.Value, d int)
		walk = func(v ssa.Value, d int) {
			if v == nil || seen[v] || d > 6 {
				return
			}
			seen[v] = true
			if isIOEOF(v) {
				eof = true
			}
			switch x := v.(type) {
			case *ssa.Phi:
				for _, e := range x.Edges {
					walk(e, d+1)
				}
			case *ssa.MakeInterface:
				walk(x.X, d+1)
			case *ssa.ChangeInterface:
				walk(x.X, d+1)
			}
		}
		walk(rv[1], 0)
		if !eof {
			continue
		}
		n++
		okDom := false
		for _, c := range pbCalls {
			ifi, succ, okE := errEdgeOf(c)
			if okE && edgeDominates(rd, edge{ifi.Block(), 1 - succ}, b) {
				okDom = true
			}
		}
		if okDom {
			r.ok(fname+": io.EOF only on the success edge of the batch function", p.IPos(ret))
		} else {
			r.fail(k.key(fname, "eof-without-batch"), p.IPos(ret), "Read can return io.EOF on a path on which the batch function did not run (successfully) in this call: a call that simply had nothing to copy – a zero-length buffer, or data still buffered – is answered with end-of-stream and a conforming consumer stops early")
		}
	}
	if n == 0 {
		r.info(fname+": no return carries io.EOF directly – NOT DECIDED on this tree (relocated code)", p.Pos(rd.Pos()))
		return
	}
	r.floor(1, n, "io.EOF returns of Reader.Read")
}

// ---------------------------------------------------------------------------------------
// R-DIV-GUARD
// ---------------------------------------------------------------------------------------

func ruleDivGuard(p *Prog, r *RuleResult) {
	rt := p.Pkg("io").Type("Reader")
	if rt == nil {
		undecided("anchor unresolved: io.Reader")
	}
	rnamed := rt.Type().(*types.Named)
	isReaderField := func(addr ssa.Value) *types.Var {
		fa, ok := addr.(*ssa.FieldAddr)
		if !ok || namedOf(fa.X.Type()) != rnamed {
			return nil
		}
		return fieldVarOfAddr(fa)
	}
	// divisors: fields of Reader loaded (possibly converted) into the right operand of / or % in package io
	divisors := map[*types.Var][]ssa.Instruction{}
	for _, f := range p.ModFns {
		if p.Rel(f) != "io" {
			continue
		}
		eachInstr(f, func(i ssa.Instruction) {
			bo, ok := i.(*ssa.BinOp)
			if !ok || (bo.Op != token.QUO && bo.Op != token.REM) || !isIntType(bo.Y.Type()) {
				return
			}
			v := stripConv(bo.Y)
			if u, ok := v.(*ssa.UnOp); ok && u.Op == token.MUL {
				if fv := isReaderField(u.X); fv != nil {
					divisors[fv] = append(divisors[fv], i)
				}
			}
		})
	}
	n := 0
	var fvs []*types.Var
	for fv := range divisors {
		fvs = append(fvs, fv)
	}
	sort.Slice(fvs, func(i, j int) bool { return fvs[i].Name() < fvs[j].Name() })
	for _, fv := range fvs {
		// stores of stream-derived values to this field
		for _, f := range p.ModFns {
			if p.Rel(f) != "io" {
				continue
			}
			eachInstr(f, func(i ssa.Instruction) {
				st, ok := i.(*ssa.Store)
				if !ok || isReaderField(st.Addr) != fv {
					return
				}
				t := traceSize(p, st.Val)
				if len(t.sources) == 0 {
					return
				}
				n++
				key := fmt.Sprintf("%s#store.%s", p.FnName(f), fv.Name())
				// guard edges: a comparison of the field (or of the stored value) that establishes a lower bound >= 1
				var guards []edge
				for _, b := range f.Blocks {
					ifi := blockIf(b)
					if ifi == nil {
						continue
					}
					atom, pos := condAtom(ifi.Cond)
					bo, ok := atom.(*ssa.BinOp)
					if !ok {
						continue
					}
					isF := func(v ssa.Value) bool {
						v = stripConv(v)
						if v == st.Val || v == stripConv(st.Val) {
							return true
						}
						if u, ok := v.(*ssa.UnOp); ok && u.Op == token.MUL && isReaderField(u.X) == fv {
							return true
						}
						return false
					}
					op := bo.Op
					var c int64
					var okc bool
					switch {
					case isF(bo.X):
						c, okc = constInt(bo.Y)
					case isF(bo.Y):
						c, okc = constInt(bo.X)
						op = mirrorOp(op)
					default:
						continue
					}
					if !okc {
						continue
					}
					// the edge on which field > 0 is known
					switch {
					case op == token.LSS && c >= 1, op == token.LEQ && c >= 0, op == token.EQL && c == 0:
						guards = append(guards, edge{b, succFor(pos, false)})
					case op == token.GTR && c >= 0, op == token.GEQ && c >= 1, op == token.NEQ && c == 0:
						guards = append(guards, edge{b, succFor(pos, true)})
					}
				}
				bad := ""
				for _, b := range f.Blocks {
					ret, ok := b.Instrs[len(b.Instrs)-1].(*ssa.Return)
					if !ok || b == f.Recover {
						continue
					}
					rv := rvals(ret)
					if len(rv) > 0 && isErrType(rv[len(rv)-1].Type()) && !retMayBeNil(ret, len(rv)-1) {
						continue
					}
					if !instrReaches(st, ret) {
						continue
					}
					dom := false
					for _, g := range guards {
						if edgeDominates(f, g, b) {
							dom = true
						}
					}
					if !dom {
						bad = p.IPos(ret)
					}
				}
				if bad == "" {
					r.ok(fmt.Sprintf("%s: every success return after the store is dominated by a test that excludes zero (%d divisions by this field)", key, len(divisors[fv])), p.IPos(st))
				} else {
					r.fail(key, p.IPos(st), fmt.Sprintf("the field %s is filled from the stream and later used as a divisor (%s), but the header parser can report success (%s) on a path that has not checked it against a positive lower bound: a forged header makes Read panic with a division by zero in the caller's goroutine", fv.Name(), p.IPos(divisors[fv][0]), bad))
				}
			})
		}
	}
	r.floor(1, n, "stream-derived stores to fields used as divisors")
}

// ---------------------------------------------------------------------------------------
// R-CTX-KEYS
// ---------------------------------------------------------------------------------------

func ctxKeysStoredIn(p *Prog, fns map[*ssa.Function]bool) map[string]string {
	out := map[string]string{}
	for f := range fns {
		eachInstr(f, func(i ssa.Instruction) {
			if mu, ok := i.(*ssa.MapUpdate); ok && isCtxMap(mu.Map.Type()) {
				if k, ok := ctxKey(mu.Map, mu.Key); ok {
					if _, seen := out[k]; !seen {
						out[k] = p.IPos(i)
					}
				}
			}
		})
	}
	return out
}

func ioReach(p *Prog, roots ...*ssa.Function) map[*ssa.Function]bool {
	var rs []*ssa.Function
	for _, f := range roots {
		if f != nil {
			rs = append(rs, f)
		}
	}
	scope := p.Reachable(rs, func(f *ssa.Function) bool { return p.Rel(f) != "io" })
	out := map[*ssa.Function]bool{}
	for f := range scope {
		if p.Rel(f) == "io" {
			out[f] = true
		}
	}
	return out
}

func ruleCtxKeys(p *Prog, r *RuleResult) {
	// consumers: lookups with a constant key in the codec packages; keys the codec packages store themselves are internal
	consumed := map[string]string{}
	internalK := map[string]bool{}
	for _, f := range p.ModFns {
		rel := p.Rel(f)
		if rel != "transform" && rel != "entropy" {
			continue
		}
		eachInstr(f, func(i ssa.Instruction) {
			switch x := i.(type) {
			case *ssa.Lookup:
				if isCtxMap(x.X.Type()) {
					if k, ok := ctxKey(x.X, x.Index); ok {
						if _, seen := consumed[k]; !seen {
							consumed[k] = p.IPos(i)
						}
					}
				}
			case *ssa.MapUpdate:
				if isCtxMap(x.Map.Type()) {
					if k, ok := ctxKey(x.Map, x.Key); ok {
						internalK[k] = true
					}
				}
			}
		})
	}
	ws := resolveSide(p, "Writer")
	rs := resolveSide(p, "Reader")
	sides := []struct {
		name string
		fns  map[*ssa.Function]bool
	}{
		{"compression (NewWriter, Write, Close and the encode task)", ioReach(p, p.FuncOpt("io", "NewWriter"), p.MethodOpt("io", "Writer", "Write"), p.MethodOpt("io", "Writer", "Close"), ws.parent, ws.fn)},
		{"decompression with a header (NewReader, Read and the decode task)", ioReach(p, p.FuncOpt("io", "NewReader"), p.MethodOpt("io", "Reader", "Read"), rs.parent, rs.fn)},
		{"headerless decompression (NewHeaderlessReader, Read and the decode task)", ioReach(p, p.FuncOpt("io", "NewHeaderlessReader"), p.MethodOpt("io", "Reader", "Read"), rs.parent, rs.fn)},
	}
	if p.FuncOpt("io", "NewWriter") == nil || p.FuncOpt("io", "NewReader") == nil || p.FuncOpt("io", "NewHeaderlessReader") == nil {
		undecided("R-CTX-KEYS: constructor anchors NewWriter/NewReader/NewHeaderlessReader unresolved")
	}
	var keys []string
	for k := range consumed {
		if !internalK[k] {
			keys = append(keys, k)
		}
	}
	sort.Strings(keys)
	n := 0
	for _, k := range keys {
		for _, sd := range sides {
			n++
			stored := ctxKeysStoredIn(p, sd.fns)
			if pos, ok := stored[k]; ok {
				r.ok(fmt.Sprintf("ctx[%q] (consumed at %s) is published on the %s side", k, consumed[k], sd.name), pos)
			} else {
				r.fail(fmt.Sprintf("ctx.%s#%s", k, sd.name[:strIndex(sd.name, " (")]), consumed[k], fmt.Sprintf("a codec consults ctx[%q] but nothing on the %s path stores it: the codec falls back to a default there while the other side configures it from the real value, so the two sides can build different codec variants for the same stream", k, sd.name))
			}
		}
	}
	r.floor(6, n, "consumed-key × side obligations")
}

func strIndex(s, sub string) int {
	for i := 0; i+len(sub) <= len(s); i++ {
		if s[i:i+len(sub)] == sub {
			return i
		}
	}
	return len(s)
}

// ---------------------------------------------------------------------------------------
// R-JOBS-WIRE
// ---------------------------------------------------------------------------------------

func ruleJobsWire(p *Prog, r *RuleResult) {
	wt := p.Pkg("io").Type("Writer")
	if wt == nil {
		undecided("anchor unresolved: io.Writer")
	}
	wnamed := wt.Type().(*types.Named)
	whdr := p.MethodOpt("io", "Writer", "writeHeader")
	if whdr == nil {
		undecided("anchor unresolved: (*io.Writer).writeHeader")
	}
	ws := resolveSide(p, "Writer")
	scopeFns := ioReach(p, p.FuncOpt("io", "NewWriter"), p.FuncOpt("io", "NewWriterWithCtx"), p.MethodOpt("io", "Writer", "Write"), p.MethodOpt("io", "Writer", "Close"), ws.parent)
	delete(scopeFns, ws.fn)
	// wire fields: the Writer fields the header writer loads (besides streams and flags that are not values)
	wire := map[*types.Var]bool{}
	eachInstr(whdr, func(i ssa.Instruction) {
		if u, ok := i.(*ssa.UnOp); ok && u.Op == token.MUL {
			if fa, ok := u.X.(*ssa.FieldAddr); ok && namedOf(fa.X.Type()) == wnamed {
				fv := fieldVarOfAddr(fa)
				if isIntType(fv.Type()) || isBool(fv.Type()) {
					wire[fv] = true
				}
			}
		}
	})
	// sources: reads of ctx["jobs"] in the scope, and every field such a value is stored in
	fl := NewFlow(p, false)
	fl.NoEnter = func(f *ssa.Function) bool { return !scopeFns[f] }
	fl.ExtResult = func(c *ssa.CallCommon) bool { return true }
	nsrc := 0
	for f := range scopeFns {
		eachInstr(f, func(i ssa.Instruction) {
			if l, ok := i.(*ssa.Lookup); ok && isCtxMap(l.X.Type()) {
				if k, ok := ctxKey(l.X, l.Index); ok && k == "jobs" {
					fl.Add(l)
					nsrc++
				}
			}
		})
	}
	helpers := ctxHelpers(p)
	for f := range scopeFns {
		eachInstr(f, func(i ssa.Instruction) {
			c, ok := i.(*ssa.Call)
			if !ok || c.Call.StaticCallee() == nil {
				return
			}
			idx, isH := helpers[c.Call.StaticCallee()]
			if !isH || idx >= len(c.Call.Args) {
				return
			}
			if kc, ok := c.Call.Args[idx].(*ssa.Const); ok && constString(kc) == "jobs" {
				fl.Add(c)
				for _, ref := range *c.Referrers() {
					if ex, ok := ref.(*ssa.Extract); ok && ex.Index == 0 {
						fl.Add(ex)
					}
				}
				nsrc++
			}
		})
	}
	// NewWriter's jobs parameter is stored under ctx["jobs"]
	for f := range scopeFns {
		eachInstr(f, func(i ssa.Instruction) {
			if mu, ok := i.(*ssa.MapUpdate); ok && isCtxMap(mu.Map.Type()) {
				if k, ok := ctxKey(mu.Map, mu.Key); ok && k == "jobs" {
					fl.Add(mu.Value)
					if mi, ok := mu.Value.(*ssa.MakeInterface); ok {
						fl.Add(mi.X)
					}
					nsrc++
				}
			}
		})
	}
	fl.Run()
	reachesSuccess := func(f *ssa.Function, from *ssa.BasicBlock) bool {
		for b := range reach(from, nil, nil) {
			ret, ok := b.Instrs[len(b.Instrs)-1].(*ssa.Return)
			if !ok {
				continue
			}
			rv := rvals(ret)
			if len(rv) == 0 || !isErrType(rv[len(rv)-1].Type()) || retMayBeNil(ret, len(rv)-1) {
				return true
			}
		}
		return false
	}
	// implicit flows: phis merged under a jobs-dependent branch carry the job count
	region := map[*ssa.BasicBlock]string{} // block -> position of the deciding branch
	for changed := true; changed; {
		changed = false
		for f := range scopeFns {
			for _, b := range f.Blocks {
				ifi := blockIf(b)
				if ifi == nil || !fl.Tainted(ifi.Cond) {
					continue
				}
				if !reachesSuccess(f, b.Succs[0]) || !reachesSuccess(f, b.Succs[1]) {
					continue // a validation that aborts: no output is produced on the other side
				}
				inR := map[*ssa.BasicBlock]bool{}
				for _, x := range f.Blocks {
					if x != b && (edgeDominates(f, edge{b, 0}, x) || edgeDominates(f, edge{b, 1}, x)) {
						inR[x] = true
						if _, ok := region[x]; !ok {
							region[x] = p.IPos(ifi)
							changed = true
						}
					}
				}
				// merge points: the branch block itself when it is a loop header, and successors of the region
				merges := map[*ssa.BasicBlock]bool{}
				for x := range inR {
					for _, sc := range x.Succs {
						if !inR[sc] {
							merges[sc] = true
						}
					}
				}
				for _, sc := range b.Succs {
					if !inR[sc] {
						merges[sc] = true
					}
				}
				for m := range merges {
					for _, in := range m.Instrs {
						ph, ok := in.(*ssa.Phi)
						if !ok {
							break
						}
						if !fl.Tainted(ph) {
							fl.Add(ph)
							changed = true
						}
					}
				}
			}
		}
		fl.Run()
	}
	n := 0
	var k keyer
	for f := range scopeFns {
		fname := p.FnName(f)
		eachInstr(f, func(i ssa.Instruction) {
			var what string
			var val ssa.Value
			switch x := i.(type) {
			case *ssa.Store:
				fa, ok := x.Addr.(*ssa.FieldAddr)
				if !ok || namedOf(fa.X.Type()) != wnamed || !wire[fieldVarOfAddr(fa)] {
					return
				}
				what, val = "field "+fieldVarOfAddr(fa).Name(), x.Val
			case *ssa.MapUpdate:
				kk, ok := ctxKey(x.Map, x.Key)
				if !ok || !isCtxMap(x.Map.Type()) || kk != "blockSize" {
					return
				}
				what, val = "ctx[\"blockSize\"]", x.Value
			default:
				return
			}
			n++
			if fl.Tainted(val) {
				r.fail(k.key(fname, "jobs-to-wire"), p.IPos(i), fmt.Sprintf("%s, which the header writer puts on the wire (or which cuts the blocks), receives a value that depends on the job count: the compressed bytes differ between job counts", what))
				return
			}
			if br, ok := region[i.Block()]; ok {
				r.fail(k.key(fname, "jobs-decides-wire"), p.IPos(i), fmt.Sprintf("%s is assigned under a branch or loop decided by the job count (%s): the compressed bytes differ between job counts", what, br))
				return
			}
			r.ok(fmt.Sprintf("%s: %s does not depend on the job count", fname, what), p.IPos(i))
		})
	}
	r.info(fmt.Sprintf("%d job-count sources, %d tainted values, %d wire fields read by the header writer, %d functions in scope", nsrc, fl.Count(), len(wire), len(scopeFns)), p.Pos(whdr.Pos()))
	r.floor(1, nsrc, "job-count sources")
	r.floor(3, n, "assignments of wire fields")
}

package main

import (
	"fmt"
	"go/token"
	"go/types"
	"os"
	"sort"
	"strings"

	"golang.org/x/tools/go/ssa"
)

// Rules added after the third round of independently seeded changes.

func init() {
	register("R-BATCH-ONLY", "the Reader's batch function reports success only after a batch of decode tasks has run (or the stream was cancelled): the end of the stream is never inferred from counts without reading the end marker", false, ruleBatchOnly)
	register("R-EOF-AT-END", "Reader.Read returns io.EOF only after the batch function ran in this call and delivered nothing", false, ruleEOFAtEnd)
	register("R-DIV-GUARD", "a Reader field that is filled from the stream header and used as a divisor is range-checked (lower bound above zero) on every path of the header parser that reports success", false, ruleDivGuard)
	register("R-CTX-KEYS", "every context key a codec constructor consumes is published on the compression side and on both decompression sides (header, headerless)", false, ruleCtxKeys)
	register("R-JOBS-WIRE", "the job count does not influence the fields the Writer puts on the wire (block size, header fields): neither by data flow nor by deciding a branch or loop around their assignment", false, ruleJobsWire)
}

// parentCancelEdges: edges of the parent function on which the shared counter was found to hold the cancel value
func parentCancelEdges(s *taskSide) []edge {
	var out []edge
	for _, b := range s.entry.Blocks {
		ifi := blockIf(b)
		if ifi == nil {
			continue
		}
		atom, pos := condAtom(ifi.Cond)
		bo, ok := atom.(*ssa.BinOp)
		if !ok || (bo.Op != token.EQL && bo.Op != token.NEQ) {
			continue
		}
		isCounter := func(v ssa.Value) bool {
			if c, ok := v.(*ssa.Call); ok && isAtomic(&c.Call, "LoadInt32") && len(c.Call.Args) == 1 {
				if fv := fieldVarOfAddr(c.Call.Args[0]); fv != nil && fv == s.parentCounter {
					return true
				}
			}
			if fv := fieldVarOfLoad(v); fv != nil && fv == s.parentCounter {
				return true
			}
			return false
		}
		var other ssa.Value
		if isCounter(bo.X) {
			other = bo.Y
		} else if isCounter(bo.Y) {
			other = bo.X
		}
		if other == nil {
			continue
		}
		if cv, ok := constInt(other); !ok || cv != s.cancelConst {
			continue
		}
		out = append(out, edge{b, succFor(pos, bo.Op == token.EQL)})
	}
	return out
}

func ruleBatchOnly(p *Prog, r *RuleResult) {
	s := resolveSide(p, "Reader")
	pb := s.entry
	pname := p.FnName(pb)
	isWait := func(i ssa.Instruction) bool {
		c := callOf(i)
		return c != nil && isMethodNamed(c, "sync", "WaitGroup", "Wait")
	}
	direct, via := p.liftedSites(pb, isWait)
	waits := append(direct, via...)
	if len(waits) == 0 {
		undecided("R-BATCH-ONLY: %s does not wait for its tasks", pname)
	}
	cancels := parentCancelEdges(s)
	n := 0
	var k keyer
	waitSet := map[ssa.Instruction]bool{}
	for _, w := range waits {
		waitSet[w] = true
	}
	// blocks that can be reached from the entry without executing a wait (a loop whose flag starts as the constant
	// true cannot be left before its body ran once: such exits are pruned)
	unreachedWithout := reachAvoiding(pb, waitSet)
	for _, b := range pb.Blocks {
		ret, ok := b.Instrs[len(b.Instrs)-1].(*ssa.Return)
		if !ok || b == pb.Recover {
			continue
		}
		rv := rvals(ret)
		if len(rv) == 0 || !isErrType(rv[len(rv)-1].Type()) || !retMayBeNil(ret, len(rv)-1) {
			continue
		}
		n++
		covered := ""
		if !unreachedWithout[b] {
			covered = "after a batch of tasks completed"
		}
		for _, e := range cancels {
			if edgeDominates(pb, e, b) {
				covered = "stream cancelled by an earlier failure"
			}
		}
		if covered != "" {
			r.ok(fmt.Sprintf("%s: success return %s", pname, covered), p.IPos(ret))
		} else {
			r.fail(k.key(pname, "success-without-batch"), p.IPos(ret), "the batch function can report success (no error) without having run a batch of decode tasks and without the stream being cancelled: the end of the stream is then concluded from something other than the end marker, so a truncated stream, or blocks the caller asked for, go unnoticed")
		}
	}
	r.floor(2, n, "success returns of the Reader's batch function")
}

func isIOEOF(v ssa.Value) bool {
	u, ok := v.(*ssa.UnOp)
	if !ok || u.Op != token.MUL {
		return false
	}
	g, ok := u.X.(*ssa.Global)
	return ok && g.Pkg != nil && g.Pkg.Pkg.Path() == "io" && g.Name() == "EOF"
}

func ruleEOFAtEnd(p *Prog, r *RuleResult) {
	rd := p.Method("io", "Reader", "Read")
	s := resolveSide(p, "Reader")
	fname := p.FnName(rd)
	var pbCalls []*ssa.Call
	eachInstr(rd, func(i ssa.Instruction) {
		if c, ok := i.(*ssa.Call); ok && c.Call.StaticCallee() == s.entry {
			pbCalls = append(pbCalls, c)
		}
	})
	if len(pbCalls) == 0 {
		r.info(fname+": the batch function is not called directly from Read – NOT DECIDED on this tree (relocated code)", p.Pos(rd.Pos()))
		return
	}
	n := 0
	var k keyer
	for _, b := range rd.Blocks {
		ret, ok := b.Instrs[len(b.Instrs)-1].(*ssa.Return)
		if !ok || b == rd.Recover {
			continue
		}
		rv := rvals(ret)
		if len(rv) != 2 {
			continue
		}
		// the error operand may be io.EOF directly or a phi/cell over it
		eof := false
		seen := map[ssa.Value]bool{}
		var walk func(v ssa.Value, d int)
		walk = func(v ssa.Value, d int) {
			if v == nil || seen[v] || d > 6 {
				return
			}
			seen[v] = true
			if isIOEOF(v) {
				eof = true
			}
			switch x := v.(type) {
			case *ssa.Phi:
				for _, e := range x.Edges {
					walk(e, d+1)
				}
			case *ssa.MakeInterface:
				walk(x.X, d+1)
			case *ssa.ChangeInterface:
				walk(x.X, d+1)
			}
		}
		walk(rv[1], 0)
		if !eof {
			continue
		}
		n++
		okDom := false
		for _, c := range pbCalls {
			ifi, succ, okE := errEdgeOf(c)
			if okE && edgeDominates(rd, edge{ifi.Block(), 1 - succ}, b) {
				okDom = true
			}
		}
		if okDom {
			r.ok(fname+": io.EOF only on the success edge of the batch function", p.IPos(ret))
		} else {
			r.fail(k.key(fname, "eof-without-batch"), p.IPos(ret), "Read can return io.EOF on a path on which the batch function did not run (successfully) in this call: a call that simply had nothing to copy – a zero-length buffer, or data still buffered – is answered with end-of-stream and a conforming consumer stops early")
		}
	}
	if n == 0 {
		r.info(fname+": no return carries io.EOF directly – NOT DECIDED on this tree (relocated code)", p.Pos(rd.Pos()))
		return
	}
	r.floor(1, n, "io.EOF returns of Reader.Read")
}

// ---------------------------------------------------------------------------------------
// R-DIV-GUARD
// ---------------------------------------------------------------------------------------

func ruleDivGuard(p *Prog, r *RuleResult) {
	rt := p.Pkg("io").Type("Reader")
	if rt == nil {
		undecided("anchor unresolved: io.Reader")
	}
	rnamed := rt.Type().(*types.Named)
	isReaderField := func(addr ssa.Value) *types.Var {
		fa, ok := addr.(*ssa.FieldAddr)
		if !ok || namedOf(fa.X.Type()) != rnamed {
			return nil
		}
		return fieldVarOfAddr(fa)
	}
	// divisors: fields of Reader loaded (possibly converted) into the right operand of / or % in package io
	divisors := map[*types.Var][]ssa.Instruction{}
	for _, f := range p.ModFns {
		if p.Rel(f) != "io" {
			continue
		}
		eachInstr(f, func(i ssa.Instruction) {
			bo, ok := i.(*ssa.BinOp)
			if !ok || (bo.Op != token.QUO && bo.Op != token.REM) || !isIntType(bo.Y.Type()) {
				return
			}
			v := stripConv(bo.Y)
			if u, ok := v.(*ssa.UnOp); ok && u.Op == token.MUL {
				if fv := isReaderField(u.X); fv != nil {
					divisors[fv] = append(divisors[fv], i)
				}
			}
		})
	}
	n := 0
	var fvs []*types.Var
	for fv := range divisors {
		fvs = append(fvs, fv)
	}
	sort.Slice(fvs, func(i, j int) bool { return fvs[i].Name() < fvs[j].Name() })
	for _, fv := range fvs {
		// stores of stream-derived values to this field
		for _, f := range p.ModFns {
			if p.Rel(f) != "io" {
				continue
			}
			eachInstr(f, func(i ssa.Instruction) {
				st, ok := i.(*ssa.Store)
				if !ok || isReaderField(st.Addr) != fv {
					return
				}
				t := traceSize(p, st.Val)
				if len(t.sources) == 0 {
					return
				}
				n++
				key := fmt.Sprintf("%s#store.%s", p.FnName(f), fv.Name())
				// guard edges: a comparison of the field (or of the stored value) that establishes a lower bound >= 1
				var guards []edge
				for _, b := range f.Blocks {
					ifi := blockIf(b)
					if ifi == nil {
						continue
					}
					atom, pos := condAtom(ifi.Cond)
					bo, ok := atom.(*ssa.BinOp)
					if !ok {
						continue
					}
					isF := func(v ssa.Value) bool {
						v = stripConv(v)
						if v == st.Val || v == stripConv(st.Val) {
							return true
						}
						if u, ok := v.(*ssa.UnOp); ok && u.Op == token.MUL && isReaderField(u.X) == fv {
							return true
						}
						return false
					}
					op := bo.Op
					var c int64
					var okc bool
					switch {
					case isF(bo.X):
						c, okc = constInt(bo.Y)
					case isF(bo.Y):
						c, okc = constInt(bo.X)
						op = mirrorOp(op)
					default:
						continue
					}
					if !okc {
						continue
					}
					// the edge on which field > 0 is known
					switch {
					case op == token.LSS && c >= 1, op == token.LEQ && c >= 0, op == token.EQL && c == 0:
						guards = append(guards, edge{b, succFor(pos, false)})
					case op == token.GTR && c >= 0, op == token.GEQ && c >= 1, op == token.NEQ && c == 0:
						guards = append(guards, edge{b, succFor(pos, true)})
					}
				}
				bad := ""
				for _, b := range f.Blocks {
					ret, ok := b.Instrs[len(b.Instrs)-1].(*ssa.Return)
					if !ok || b == f.Recover {
						continue
					}
					rv := rvals(ret)
					if len(rv) > 0 && isErrType(rv[len(rv)-1].Type()) && !retMayBeNil(ret, len(rv)-1) {
						continue
					}
					if !instrReaches(st, ret) {
						continue
					}
					dom := false
					for _, g := range guards {
						if edgeDominates(f, g, b) {
							dom = true
						}
					}
					if !dom {
						bad = p.IPos(ret)
					}
				}
				if bad == "" {
					r.ok(fmt.Sprintf("%s: every success return after the store is dominated by a test that excludes zero (%d divisions by this field)", key, len(divisors[fv])), p.IPos(st))
				} else {
					r.fail(key, p.IPos(st), fmt.Sprintf("the field %s is filled from the stream and later used as a divisor (%s), but the header parser can report success (%s) on a path that has not checked it against a positive lower bound: a forged header makes Read panic with a division by zero in the caller's goroutine", fv.Name(), p.IPos(divisors[fv][0]), bad))
				}
			})
		}
	}
	ngate := 0
	// The guard above is only evaluated by a header parse that ran to the end. The parser is entered through a
	// once-gate (swap/CAS of a flag at entry, "already parsed" returns success): if a parse that fails leaves the
	// gate closed, the next call skips the parser and uses the unvalidated (zero) fields. So: whenever the parser
	// reports an error - by return or by a recovered panic - the gate flag is reset.
	for _, f := range p.ModFns {
		if p.Rel(f) != "io" || f.Parent() != nil {
			continue
		}
		hasStore := false
		eachInstr(f, func(i ssa.Instruction) {
			if st, ok := i.(*ssa.Store); ok {
				if fv := isReaderField(st.Addr); fv != nil && divisors[fv] != nil && len(traceSize(p, st.Val).sources) > 0 {
					hasStore = true
				}
			}
		})
		if !hasStore {
			// the parse may have been split: the function that owns the gate calls the one with the stores
			memo := map[*ssa.Function]int{}
			hasStore = p.containsDeep(f, func(i ssa.Instruction) bool {
				if st, ok := i.(*ssa.Store); ok {
					if fv := isReaderField(st.Addr); fv != nil && divisors[fv] != nil && len(traceSize(p, st.Val).sources) > 0 {
						return true
					}
				}
				return false
			}, memo)
		}
		if !hasStore {
			continue
		}
		// the gate: an atomic swap/CAS to 1 of a Reader field in the entry region
		var gate *types.Var
		var gateAt ssa.Instruction
		eachInstr(f, func(i ssa.Instruction) {
			c := callOf(i)
			if c == nil || gate != nil || !isAtomic(c, "SwapInt32", "CompareAndSwapInt32") || len(c.Args) < 2 {
				return
			}
			if v, ok := constInt(c.Args[len(c.Args)-1]); !ok || v != 1 {
				return
			}
			if fv := isReaderField(c.Args[0]); fv != nil {
				gate, gateAt = fv, i
			}
		})
		if gate == nil {
			continue
		}
		ngate++
		key := fmt.Sprintf("%s#gate-reset.%s", p.FnName(f), gate.Name())
		isReset := func(i ssa.Instruction) bool {
			if c := callOf(i); c != nil && isAtomic(c, "StoreInt32", "SwapInt32") && len(c.Args) == 2 {
				if v, ok := constInt(c.Args[1]); ok && v == 0 && fieldVarOfAddr(c.Args[0]) == gate {
					return true
				}
			}
			if st, ok := i.(*ssa.Store); ok && fieldVarOfAddr(st.Addr) == gate {
				if v, ok := constInt(st.Val); ok && v == 0 {
					return true
				}
			}
			return false
		}
		okReset, why := false, "the parser never re-opens its once-gate"
		// (a) in a deferred handler: a reset that is not confined to the recovered-panic branch
		eachInstr(f, func(i ssa.Instruction) {
			d, ok := i.(*ssa.Defer)
			if !ok {
				return
			}
			h := deferredTarget(d)
			if h == nil || h.Blocks == nil {
				return
			}
			var recEdges []edge
			for _, b := range h.Blocks {
				ifi := blockIf(b)
				if ifi == nil {
					continue
				}
				if x, succ, ok := nilTest(ifi.Cond); ok {
					if c, ok := stripConv(x).(*ssa.Call); ok {
						if bi, ok := c.Call.Value.(*ssa.Builtin); ok && bi.Name() == "recover" {
							recEdges = append(recEdges, edge{b, succ})
						}
					}
				}
			}
			eachInstr(h, func(j ssa.Instruction) {
				if !isReset(j) {
					return
				}
				confined := false
				for _, e := range recEdges {
					if edgeDominates(h, e, j.Block()) {
						confined = true
					}
				}
				if confined {
					why = "the once-gate is re-opened only when a panic was recovered: a header that is rejected by a validation error leaves the reader marked initialised with unvalidated fields, and the next Read divides by the zero block size in the caller's goroutine"
				} else {
					okReset = true
				}
			})
		})
		// (b) inline: every return with a definite error that comes after the gate is preceded by a reset
		if !okReset {
			all, any := true, false
			for _, b := range f.Blocks {
				ret, ok := b.Instrs[len(b.Instrs)-1].(*ssa.Return)
				if !ok || b == f.Recover {
					continue
				}
				rv := rvals(ret)
				if len(rv) == 0 || !isErrType(rv[len(rv)-1].Type()) || retMayBeNil(ret, len(rv)-1) || !instrReaches(gateAt, ret) {
					continue
				}
				any = true
				dom := false
				eachInstr(f, func(j ssa.Instruction) {
					if isReset(j) && instrDominates(j, ret) {
						dom = true
					}
				})
				if !dom {
					all = false
				}
			}
			hasInline := false
			eachInstr(f, func(j ssa.Instruction) {
				if isReset(j) {
					hasInline = true
				}
			})
			if any && all && hasInline {
				okReset = true
			}
		}
		if okReset {
			r.ok(key+": a failed parse (error return or recovered panic) re-opens the once-gate", p.IPos(gateAt))
		} else {
			r.fail(key, p.IPos(gateAt), why)
		}
	}
	if ngate == 0 {
		r.info("no once-gate found around the header parser – gate-reset NOT DECIDED on this tree (relocated code)", "-")
	}
	r.floor(1, n, "stream-derived stores to fields used as divisors")
}

// ---------------------------------------------------------------------------------------
// R-CTX-KEYS
// ---------------------------------------------------------------------------------------

func ctxKeysStoredIn(p *Prog, fns map[*ssa.Function]bool) map[string]string {
	out := map[string]string{}
	for f := range fns {
		eachInstr(f, func(i ssa.Instruction) {
			if mu, ok := i.(*ssa.MapUpdate); ok && isCtxMap(mu.Map.Type()) {
				if k, ok := ctxKey(mu.Map, mu.Key); ok {
					if _, seen := out[k]; !seen {
						out[k] = p.IPos(i)
					}
				}
			}
		})
	}
	return out
}

func ioReach(p *Prog, roots ...*ssa.Function) map[*ssa.Function]bool {
	var rs []*ssa.Function
	for _, f := range roots {
		if f != nil {
			rs = append(rs, f)
		}
	}
	scope := p.Reachable(rs, func(f *ssa.Function) bool { return p.Rel(f) != "io" })
	out := map[*ssa.Function]bool{}
	for f := range scope {
		if p.Rel(f) == "io" {
			out[f] = true
		}
	}
	return out
}

func ruleCtxKeys(p *Prog, r *RuleResult) {
	// consumers: lookups with a constant key in the codec packages; keys the codec packages store themselves are internal
	consumed := map[string]string{}
	internalK := map[string]bool{}
	inCtor := map[string]bool{} // consulted while a codec is constructed (selects a variant), not only while it runs forward
	for _, f := range p.ModFns {
		rel := p.Rel(f)
		if rel != "transform" && rel != "entropy" {
			continue
		}
		eachInstr(f, func(i ssa.Instruction) {
			switch x := i.(type) {
			case *ssa.Lookup:
				if isCtxMap(x.X.Type()) {
					if k, ok := ctxKey(x.X, x.Index); ok {
						if _, seen := consumed[k]; !seen {
							consumed[k] = p.IPos(i)
						}
						root := f
						for root.Parent() != nil {
							root = root.Parent()
						}
						if n := root.Name(); strings.HasPrefix(n, "New") || strings.HasPrefix(n, "new") {
							inCtor[k] = true
						}
					}
				}
			case *ssa.MapUpdate:
				if isCtxMap(x.Map.Type()) {
					if k, ok := ctxKey(x.Map, x.Key); ok {
						internalK[k] = true
					}
				}
			}
		})
	}
	ws := resolveSide(p, "Writer")
	rs := resolveSide(p, "Reader")
	sides := []struct {
		id   string
		name string
		fns  map[*ssa.Function]bool
	}{
		{"writer", "compression (NewWriter, Write, Close and the encode task)", ioReach(p, p.FuncOpt("io", "NewWriter"), p.MethodOpt("io", "Writer", "Write"), p.MethodOpt("io", "Writer", "Close"), ws.parent, ws.entry, ws.fn)},
		{"reader-header", "decompression with a header (NewReader, Read and the decode task)", ioReach(p, p.FuncOpt("io", "NewReader"), p.MethodOpt("io", "Reader", "Read"), rs.parent, rs.entry, rs.fn)},
		{"reader-headerless", "headerless decompression (NewHeaderlessReader, Read and the decode task)", ioReach(p, p.FuncOpt("io", "NewHeaderlessReader"), p.MethodOpt("io", "Reader", "Read"), rs.parent, rs.entry, rs.fn)},
	}
	if p.FuncOpt("io", "NewWriter") == nil || p.FuncOpt("io", "NewReader") == nil || p.FuncOpt("io", "NewHeaderlessReader") == nil {
		undecided("R-CTX-KEYS: constructor anchors NewWriter/NewReader/NewHeaderlessReader unresolved")
	}
	// a key the codec packages also store is internal to them - unless package io stores it too on some path: then
	// it is configuration again, and every path has to provide it
	ioAll := map[*ssa.Function]bool{}
	for _, f := range p.ModFns {
		if p.Rel(f) == "io" {
			ioAll[f] = true
		}
	}
	ioStores := ctxKeysStoredIn(p, ioAll)
	var keys []string
	for k := range consumed {
		if _, byIo := ioStores[k]; !internalK[k] || (byIo && inCtor[k]) {
			keys = append(keys, k)
		}
	}
	sort.Strings(keys)
	n := 0
	for _, k := range keys {
		for _, sd := range sides {
			n++
			stored := ctxKeysStoredIn(p, sd.fns)
			if pos, ok := stored[k]; ok {
				r.ok(fmt.Sprintf("ctx[%q] (consumed at %s) is published on the %s side", k, consumed[k], sd.name), pos)
			} else {
				r.fail(fmt.Sprintf("ctx.%s#%s", k, sd.id), consumed[k], fmt.Sprintf("a codec consults ctx[%q] but nothing on the %s path stores it: the codec falls back to a default there while the other side configures it from the real value, so the two sides can build different codec variants for the same stream", k, sd.name))
			}
		}
	}
	// keys internal to the codec packages that a codec *constructor* consults (the LZ flavour): the factory must set
	// the key right before every construction that reads it - all tokens of a chain share one context map, so a value
	// left behind by an earlier token would select the wrong variant
	ctorOfKey := map[string]map[*ssa.Function]bool{}
	for _, f := range p.ModFns {
		rel := p.Rel(f)
		if rel != "transform" && rel != "entropy" {
			continue
		}
		root := f
		for root.Parent() != nil {
			root = root.Parent()
		}
		if !strings.HasPrefix(root.Name(), "New") {
			continue
		}
		eachInstr(f, func(i ssa.Instruction) {
			if l, ok := i.(*ssa.Lookup); ok && isCtxMap(l.X.Type()) {
				if k, ok := ctxKey(l.X, l.Index); ok && internalK[k] {
					if ctorOfKey[k] == nil {
						ctorOfKey[k] = map[*ssa.Function]bool{}
					}
					ctorOfKey[k][root] = true
				}
			}
		})
	}
	var ikeys []string
	for k := range ctorOfKey {
		ikeys = append(ikeys, k)
	}
	sort.Strings(ikeys)
	for _, k := range ikeys {
		// selector keys only: a key that several factory cases set (to their own value). A key set in one place only is
		// a flag with a default, and the cases that do not set it mean the default.
		nset := 0
		for _, f := range p.ModFns {
			if rel := p.Rel(f); rel == "transform" || rel == "entropy" {
				eachInstr(f, func(i ssa.Instruction) {
					if mu, ok := i.(*ssa.MapUpdate); ok && isCtxMap(mu.Map.Type()) {
						if kk, ok := ctxKey(mu.Map, mu.Key); ok && kk == k {
							nset++
						}
					}
				})
			}
		}
		if nset < 2 {
			continue
		}
		for _, f := range p.ModFns {
			rel := p.Rel(f)
			if rel != "transform" && rel != "entropy" {
				continue
			}
			froot := f
			for froot.Parent() != nil {
				froot = froot.Parent()
			}
			if ctorOfKey[k][froot] {
				continue // a constructor delegating to another one: the key was set for the outer construction
			}
			eachInstr(f, func(i ssa.Instruction) {
				c, ok := i.(*ssa.Call)
				if !ok || c.Call.StaticCallee() == nil || !ctorOfKey[k][c.Call.StaticCallee()] {
					return
				}
				n++
				set := false
				eachInstr(f, func(j ssa.Instruction) {
					if mu, ok := j.(*ssa.MapUpdate); ok && isCtxMap(mu.Map.Type()) {
						if kk, ok := ctxKey(mu.Map, mu.Key); ok && kk == k && instrDominates(j, i) && j.Block() == i.Block() {
							set = true
						}
					}
				})
				key := fmt.Sprintf("%s#ctx.%s-before-%s", p.FnName(f), k, c.Call.StaticCallee().Name())
				if set {
					r.ok(key+": set right before the construction that reads it", p.IPos(i))
				} else {
					r.fail(key, p.IPos(i), fmt.Sprintf("%s consults ctx[%q], which only the factory sets, but this construction is not preceded (in its own case) by an assignment of it: in a chain the value left by an earlier token selects the variant, so the codec built differs from the type recorded in the header", c.Call.StaticCallee().Name(), k))
				}
			})
		}
	}
	r.floor(6, n, "consumed-key × side obligations")
}

func strIndex(s, sub string) int {
	for i := 0; i+len(sub) <= len(s); i++ {
		if s[i:i+len(sub)] == sub {
			return i
		}
	}
	return len(s)
}

// ---------------------------------------------------------------------------------------
// R-JOBS-WIRE
// ---------------------------------------------------------------------------------------

func ruleJobsWire(p *Prog, r *RuleResult) {
	wt := p.Pkg("io").Type("Writer")
	if wt == nil {
		undecided("anchor unresolved: io.Writer")
	}
	wnamed := wt.Type().(*types.Named)
	whdr := p.MethodOpt("io", "Writer", "writeHeader")
	if whdr == nil {
		undecided("anchor unresolved: (*io.Writer).writeHeader")
	}
	ws := resolveSide(p, "Writer")
	scopeFns := ioReach(p, p.FuncOpt("io", "NewWriter"), p.FuncOpt("io", "NewWriterWithCtx"), p.MethodOpt("io", "Writer", "Write"), p.MethodOpt("io", "Writer", "Close"), ws.parent, ws.entry)
	delete(scopeFns, ws.fn)
	ctorScope := ioReach(p, p.FuncOpt("io", "NewWriter"), p.FuncOpt("io", "NewWriterWithCtx"))
	// wire fields: the Writer fields the header writer loads (besides streams and flags that are not values)
	wire := map[*types.Var]bool{}
	eachInstr(whdr, func(i ssa.Instruction) {
		if u, ok := i.(*ssa.UnOp); ok && u.Op == token.MUL {
			if fa, ok := u.X.(*ssa.FieldAddr); ok && namedOf(fa.X.Type()) == wnamed {
				fv := fieldVarOfAddr(fa)
				if isIntType(fv.Type()) || isBool(fv.Type()) {
					wire[fv] = true
				}
			}
		}
	})
	// sources: reads of ctx["jobs"] in the scope, and every field such a value is stored in
	fl := NewFlow(p, false)
	fl.NoEnter = func(f *ssa.Function) bool { return !scopeFns[f] }
	fl.ExtResult = func(c *ssa.CallCommon) bool { return true }
	nsrc := 0
	for f := range scopeFns {
		eachInstr(f, func(i ssa.Instruction) {
			if l, ok := i.(*ssa.Lookup); ok && isCtxMap(l.X.Type()) {
				if k, ok := ctxKey(l.X, l.Index); ok && k == "jobs" {
					fl.Add(l)
					nsrc++
				}
			}
		})
	}
	helpers := ctxHelpersDeep(p)
	for f := range scopeFns {
		eachInstr(f, func(i ssa.Instruction) {
			c, ok := i.(*ssa.Call)
			if !ok || c.Call.StaticCallee() == nil {
				return
			}
			idx, isH := helpers[c.Call.StaticCallee()]
			if !isH || idx >= len(c.Call.Args) {
				return
			}
			if kc, ok := c.Call.Args[idx].(*ssa.Const); ok && constString(kc) == "jobs" {
				fl.Add(c)
				for _, ref := range *c.Referrers() {
					if ex, ok := ref.(*ssa.Extract); ok && ex.Index == 0 {
						fl.Add(ex)
					}
				}
				nsrc++
			}
		})
	}
	// NewWriter's jobs parameter is stored under ctx["jobs"]
	for f := range scopeFns {
		eachInstr(f, func(i ssa.Instruction) {
			if mu, ok := i.(*ssa.MapUpdate); ok && isCtxMap(mu.Map.Type()) {
				if k, ok := ctxKey(mu.Map, mu.Key); ok && k == "jobs" {
					fl.Add(mu.Value)
					if mi, ok := mu.Value.(*ssa.MakeInterface); ok {
						fl.Add(mi.X)
					}
					nsrc++
				}
			}
		})
	}
	fl.Run()
	reachesSuccess := func(f *ssa.Function, from *ssa.BasicBlock) bool {
		for b := range reach(from, nil, nil) {
			ret, ok := b.Instrs[len(b.Instrs)-1].(*ssa.Return)
			if !ok {
				continue
			}
			rv := rvals(ret)
			if len(rv) == 0 || !isErrType(rv[len(rv)-1].Type()) || retMayBeNil(ret, len(rv)-1) {
				return true
			}
		}
		return false
	}
	// implicit flows: phis merged under a jobs-dependent branch carry the job count
	region := map[*ssa.BasicBlock]string{} // block -> position of the deciding branch
	for changed := true; changed; {
		changed = false
		for f := range scopeFns {
			for _, b := range f.Blocks {
				ifi := blockIf(b)
				if ifi == nil || !fl.Tainted(ifi.Cond) {
					continue
				}
				if !reachesSuccess(f, b.Succs[0]) || !reachesSuccess(f, b.Succs[1]) {
					continue // a validation that aborts: no output is produced on the other side
				}
				inR := map[*ssa.BasicBlock]bool{}
				for _, x := range f.Blocks {
					if x != b && (edgeDominates(f, edge{b, 0}, x) || edgeDominates(f, edge{b, 1}, x)) {
						inR[x] = true
						if _, ok := region[x]; !ok {
							region[x] = p.IPos(ifi)
							changed = true
						}
					}
				}
				// merge points: the branch block itself when it is a loop header, and successors of the region
				merges := map[*ssa.BasicBlock]bool{}
				for x := range inR {
					for _, sc := range x.Succs {
						if !inR[sc] {
							merges[sc] = true
						}
					}
				}
				for _, sc := range b.Succs {
					if !inR[sc] {
						merges[sc] = true
					}
				}
				for m := range merges {
					for _, in := range m.Instrs {
						ph, ok := in.(*ssa.Phi)
						if !ok {
							break
						}
						if !fl.Tainted(ph) {
							fl.Add(ph)
							changed = true
						}
					}
				}
			}
		}
		fl.Run()
	}
	n := 0
	var k keyer
	for f := range scopeFns {
		fname := p.FnName(f)
		eachInstr(f, func(i ssa.Instruction) {
			var what string
			var val ssa.Value
			switch x := i.(type) {
			case *ssa.Store:
				fa, ok := x.Addr.(*ssa.FieldAddr)
				if !ok || namedOf(fa.X.Type()) != wnamed || !wire[fieldVarOfAddr(fa)] {
					return
				}
				what, val = "field "+fieldVarOfAddr(fa).Name(), x.Val
			case *ssa.MapUpdate:
				kk, ok := ctxKey(x.Map, x.Key)
				if !ok || !isCtxMap(x.Map.Type()) || kk != "blockSize" {
					return
				}
				what, val = "ctx[\"blockSize\"]", x.Value
			default:
				return
			}
			n++
			// header fields are fixed at construction: the header itself is written lazily (by the first batch, or by
			// Close when less than jobs*blockSize bytes were buffered), so a later assignment reaches the wire or not
			// depending on the job count and on how the caller split its writes
			root := f
			for root.Parent() != nil {
				root = root.Parent()
			}
			if !ctorScope[root] && what != "ctx[\"blockSize\"]" {
				r.fail(k.key(fname, "wire-field-after-construction"), p.IPos(i), fmt.Sprintf("%s, which the header writer puts on the wire, is assigned outside the constructor: the header is written at a moment that depends on the job count and on the Write partition, so whether this assignment is seen by the header does too", what))
				return
			}
			if fl.Tainted(val) {
				r.fail(k.key(fname, "jobs-to-wire"), p.IPos(i), fmt.Sprintf("%s, which the header writer puts on the wire (or which cuts the blocks), receives a value that depends on the job count: the compressed bytes differ between job counts", what))
				return
			}
			if br, ok := region[i.Block()]; ok {
				r.fail(k.key(fname, "jobs-decides-wire"), p.IPos(i), fmt.Sprintf("%s is assigned under a branch or loop decided by the job count (%s): the compressed bytes differ between job counts", what, br))
				return
			}
			r.ok(fmt.Sprintf("%s: %s does not depend on the job count", fname, what), p.IPos(i))
		})
	}
	r.info(fmt.Sprintf("%d job-count sources, %d tainted values, %d wire fields read by the header writer, %d functions in scope", nsrc, fl.Count(), len(wire), len(scopeFns)), p.Pos(whdr.Pos()))
	r.floor(1, nsrc, "job-count sources")
	r.floor(3, n, "assignments of wire fields")
}

// ---------------------------------------------------------------------------------------
// R-STALE-SLOT
// ---------------------------------------------------------------------------------------

func init() {
	register("R-STALE-SLOT", "in Write and Read no buffer index or offset computed from the stream's fill counters before a batch call is used after it without being recomputed", false, ruleStaleSlot)
}

// staleness analysis: a forward may-dataflow over one function. Bit 1 (derived): the current instance of the SSA value
// was computed from a load of one of the watched fields. Bit 2 (stale): it was derived when a watched call executed
// afterwards, i.e. it describes the state before the call.
func staleValues(f *ssa.Function, isWatchedLoad, isStableLoad func(ssa.Instruction) bool, isWatchedCall func(ssa.Instruction) bool, use func(in ssa.Instruction, stale func(ssa.Value) bool)) {
	type fact map[ssa.Value]uint8
	ins := make([]fact, len(f.Blocks))
	for i := range ins {
		ins[i] = fact{}
	}
	visited := make([]bool, len(f.Blocks))
	work := []int{0}
	transfer := func(b *ssa.BasicBlock, in fact, report bool) fact {
		cur := fact{}
		for k, v := range in {
			cur[k] = v
		}
		for _, instr := range b.Instrs {
			if _, ok := instr.(*ssa.Phi); ok {
				continue
			}
			if report {
				use(instr, func(v ssa.Value) bool { return cur[v]&2 != 0 })
			}
			if v, ok := instr.(ssa.Value); ok {
				var bits uint8
				switch {
				case isWatchedLoad(instr):
					bits = 1
				case isStableLoad(instr):
					bits = 4
				default:
					// derived (1) only if computed purely from derived values, stable fields and constants:
					// a value that also depends on the caller's arguments (an offset into the caller's buffer,
					// the remaining count) does not describe the stream's own buffers
					anyD, anyS, pure := false, false, true
					switch x := instr.(type) {
					case *ssa.BinOp, *ssa.Convert, *ssa.ChangeType:
					case *ssa.UnOp:
						if x.Op == token.MUL {
							pure = false
						}
					case *ssa.Call:
						if b, ok := x.Call.Value.(*ssa.Builtin); !ok || (b.Name() != "min" && b.Name() != "max") {
							pure = false
						}
					default:
						pure = false
					}
					if pure {
						for _, op := range instr.Operands(nil) {
							if *op == nil {
								continue
							}
							if _, isB := (*op).(*ssa.Builtin); isB {
								continue
							}
							if _, isC := (*op).(*ssa.Const); isC {
								continue
							}
							b := cur[*op]
							if b&(1|4) == 0 || b&8 != 0 {
								pure = false
								break
							}
							anyD = anyD || b&1 != 0
							anyS = anyS || b&2 != 0
						}
					}
					switch {
					case pure && anyD && anyS:
						bits = 1 | 2
					case pure && anyD:
						bits = 1
					case pure:
						bits = 4
					default:
						bits = 8
					}
				}
				cur[v] = bits
			}
			if isWatchedCall(instr) {
				for k, v := range cur {
					if v&1 != 0 {
						cur[k] = v | 2
					}
				}
			}
		}
		return cur
	}
	for len(work) > 0 {
		bi := work[0]
		work = work[1:]
		b := f.Blocks[bi]
		visited[bi] = true
		out := transfer(b, ins[bi], false)
		for _, sc := range b.Succs {
			edgeFact := fact{}
			for k, v := range out {
				edgeFact[k] = v
			}
			for _, instr := range sc.Instrs {
				ph, ok := instr.(*ssa.Phi)
				if !ok {
					break
				}
				var bits uint8
				for pi, pr := range sc.Preds {
					if pr == b {
						var eb uint8 = 8 // parameters, non-integer and unknown values are impure
						if _, isC := ph.Edges[pi].(*ssa.Const); isC {
							eb = 4
						} else if x, ok := out[ph.Edges[pi]]; ok {
							eb = x
						}
						bits = joinStale(bits, eb)
					}
				}
				edgeFact[ph] = bits
			}
			changed := !visited[sc.Index]
			for k, v := range edgeFact {
				if j := joinStale(ins[sc.Index][k], v); j != ins[sc.Index][k] {
					ins[sc.Index][k] = j
					changed = true
				}
			}
			if changed {
				visited[sc.Index] = true
				work = append(work, sc.Index)
			}
		}
	}
	for bi, b := range f.Blocks {
		if visited[bi] {
			transfer(b, ins[bi], true)
		}
	}
}

// joinStale: lattice join of the per-value facts (0 = not computed yet; 4 = stable; 1 = derived [+2 stale]; 8 = impure)
func joinStale(a, b uint8) uint8 {
	switch {
	case a == 0:
		return b
	case b == 0:
		return a
	case (a|b)&8 != 0:
		return 8
	case (a|b)&1 != 0:
		return 1 | ((a | b) & 2)
	}
	return 4
}

func ruleStaleSlot(p *Prog, r *RuleResult) {
	n := 0
	for _, owner := range []string{"Writer", "Reader"} {
		s := resolveSide(p, owner)
		api := "Write"
		if owner == "Reader" {
			api = "Read"
		}
		f := p.Method("io", owner, api)
		fname := p.FnName(f)
		ot := p.Pkg("io").Type(owner).Type().(*types.Named)
		// fields the batch function writes
		watched := map[*types.Var]bool{}
		for _, g := range append([]*ssa.Function{s.entry}, p.helperClosure(s.entry)...) {
			eachInstr(g, func(i ssa.Instruction) {
				var addr ssa.Value
				if st, ok := i.(*ssa.Store); ok {
					addr = st.Addr
				}
				if c := callOf(i); c != nil && isAtomic(c, "StoreInt32", "SwapInt32", "AddInt32", "CompareAndSwapInt32") && len(c.Args) > 0 {
					addr = c.Args[0]
				}
				if fa, ok := addr.(*ssa.FieldAddr); ok && namedOf(fa.X.Type()) == ot {
					if fv := fieldVarOfAddr(fa); fv != nil && isIntType(fv.Type()) {
						watched[fv] = true
					}
				}
			})
		}
		// Read assigns the batch function's result to a field itself: that field changes at the call as well
		eachInstr(f, func(i ssa.Instruction) {
			if st, ok := i.(*ssa.Store); ok {
				if fa, ok := st.Addr.(*ssa.FieldAddr); ok && namedOf(fa.X.Type()) == ot {
					if ex, ok := stripConv(st.Val).(*ssa.Extract); ok {
						if c, ok := ex.Tuple.(*ssa.Call); ok && c.Call.StaticCallee() == s.entry {
							watched[fieldVarOfAddr(fa)] = true
						}
					}
				}
			}
		})
		isLoad := func(i ssa.Instruction) bool {
			u, ok := i.(*ssa.UnOp)
			if !ok || u.Op != token.MUL {
				return false
			}
			fa, ok := u.X.(*ssa.FieldAddr)
			return ok && namedOf(fa.X.Type()) == ot && watched[fieldVarOfAddr(fa)]
		}
		isStable := func(i ssa.Instruction) bool {
			u, ok := i.(*ssa.UnOp)
			if !ok || u.Op != token.MUL {
				return false
			}
			fa, ok := u.X.(*ssa.FieldAddr)
			return ok && namedOf(fa.X.Type()) == ot && !watched[fieldVarOfAddr(fa)] && isIntType(fieldVarOfAddr(fa).Type())
		}
		memo := map[*ssa.Function]int{}
		isBatch := func(i ssa.Instruction) bool {
			c := callOf(i)
			if c == nil {
				return false
			}
			if c.StaticCallee() == s.entry {
				return true
			}
			if h := helperCallee(i, FnPkg(f)); h != nil {
				return p.containsDeep(h, func(j ssa.Instruction) bool {
					cc := callOf(j)
					return cc != nil && cc.StaticCallee() == s.entry
				}, memo)
			}
			return false
		}
		ncalls := 0
		eachInstr(f, func(i ssa.Instruction) {
			if isBatch(i) {
				ncalls++
			}
		})
		if ncalls == 0 || len(watched) == 0 {
			r.info(fmt.Sprintf("%s: no batch call or no watched field found – NOT DECIDED on this tree (relocated code)", fname), p.Pos(f.Pos()))
			continue
		}
		var k keyer
		bad := 0
		staleValues(f, isLoad, isStable, isBatch, func(in ssa.Instruction, stale func(ssa.Value) bool) {
			var what string
			switch x := in.(type) {
			case *ssa.IndexAddr:
				if stale(x.Index) {
					what = "index"
				}
			case *ssa.Index:
				if stale(x.Index) {
					what = "index"
				}
			case *ssa.Slice:
				for _, bnd := range []ssa.Value{x.Low, x.High, x.Max} {
					if bnd != nil && stale(bnd) {
						what = "slice bound"
						if os.Getenv("KZ_STALE_DEBUG") != "" {
							fmt.Fprintf(os.Stderr, "STALE %s in %s: %s = %s\n", p.IPos(in), in.String(), bnd.Name(), bnd.String())
						}
					}
				}
			}
			if what != "" {
				bad++
				r.fail(k.key(fname, "stale-"+what[:5]), p.IPos(in), fmt.Sprintf("a buffer %s computed from the stream's counters before a call of the batch function is used after that call without being recomputed: the batch function resets those counters, so the data goes to (or comes from) the wrong block buffer whenever a single %s call spans a batch boundary", what, api))
			}
		})
		n++
		if bad == 0 {
			var ws []string
			for fv := range watched {
				ws = append(ws, fv.Name())
			}
			sort.Strings(ws)
			r.ok(fmt.Sprintf("%s: no index or slice bound derived from %v survives a batch call (%d call site(s))", fname, ws, ncalls), p.Pos(f.Pos()))
		}
	}
	r.floor(2, n, "API functions analysed")
}

// reachAvoiding: the blocks whose *end* can be reached from the function entry on a path that executes none of the
// avoided instructions. A branch on a phi whose incoming value on the edge taken is a boolean constant follows only
// the matching successor (flag-controlled loops: `for again := true; again; { ... }`).
func reachAvoiding(f *ssa.Function, avoid map[ssa.Instruction]bool) map[*ssa.BasicBlock]bool {
	type key struct{ b, from *ssa.BasicBlock }
	seen := map[key]bool{}
	out := map[*ssa.BasicBlock]bool{}
	var visit func(b, from *ssa.BasicBlock)
	visit = func(b, from *ssa.BasicBlock) {
		k := key{b, from}
		if seen[k] {
			return
		}
		seen[k] = true
		for _, in := range b.Instrs {
			if avoid[in] {
				return
			}
		}
		out[b] = true
		if ifi := blockIf(b); ifi != nil && from != nil {
			cond := ifi.Cond
			neg := false
			for {
				u, ok := cond.(*ssa.UnOp)
				if !ok || u.Op != token.NOT {
					break
				}
				cond = u.X
				neg = !neg
			}
			if ph, ok := cond.(*ssa.Phi); ok && ph.Block() == b {
				for pi, pr := range b.Preds {
					if pr != from {
						continue
					}
					if c, ok := ph.Edges[pi].(*ssa.Const); ok && c.Value != nil && isBool(c.Type()) {
						val := c.Value.String() == "true"
						if neg {
							val = !val
						}
						if val {
							visit(b.Succs[0], b)
						} else {
							visit(b.Succs[1], b)
						}
						return
					}
				}
			}
		}
		for _, sc := range b.Succs {
			visit(sc, b)
		}
	}
	visit(f.Blocks[0], nil)
	return out
}

// ---------------------------------------------------------------------------------------
// R-MODE-ORDER
// ---------------------------------------------------------------------------------------

func init() {
	register("R-MODE-ORDER", "in the block tasks a codec is constructed from the task's transform/entropy type only after the last assignment of that type (the mode byte and the codec always describe the same choice)", false, ruleModeOrder)
}

func ruleModeOrder(p *Prog, r *RuleResult) {
	n := 0
	for _, owner := range []string{"Writer", "Reader"} {
		s := resolveSide(p, owner)
		f := s.fn
		fname := p.FnName(f)
		var k keyer
		eachInstr(f, func(i ssa.Instruction) {
			c, ok := i.(*ssa.Call)
			if !ok {
				return
			}
			o := calleeObj(&c.Call)
			if o == nil || o.Pkg() == nil || !strings.HasPrefix(o.Name(), "New") {
				return
			}
			if pp := o.Pkg().Path(); pp != p.ModPath+"/transform" && pp != p.ModPath+"/entropy" {
				return
			}
			for _, a := range c.Call.Args {
				u, ok := stripConv(a).(*ssa.UnOp)
				if !ok || u.Op != token.MUL {
					continue
				}
				fa, ok := u.X.(*ssa.FieldAddr)
				if !ok || namedOf(fa.X.Type()) != s.taskT {
					continue
				}
				fv := fieldVarOfAddr(fa)
				n++
				bad := false
				eachInstr(f, func(j ssa.Instruction) {
					st, ok := j.(*ssa.Store)
					if !ok || fieldVarOfAddr(st.Addr) != fv {
						return
					}
					if sfa, ok := st.Addr.(*ssa.FieldAddr); !ok || namedOf(sfa.X.Type()) != s.taskT {
						return
					}
					if instrReaches(i, j) {
						bad = true
						r.fail(k.key(fname, "type-changed-after-"+o.Name()), p.IPos(j), fmt.Sprintf("the task field %s is assigned after %s.%s was called with its value: the codec that processes the block was built for a type the block header no longer describes (a small or incompressible block is then run through the transforms but flagged as stored, or the reverse)", fv.Name(), o.Pkg().Name(), o.Name()))
					}
				})
				if !bad {
					r.ok(fmt.Sprintf("%s: %s is not assigned after %s.%s consumed it", fname, fv.Name(), o.Pkg().Name(), o.Name()), p.IPos(i))
				}
			}
		})
	}
	r.floor(3, n, "codec constructions from task type fields")
}

// ---------------------------------------------------------------------------------------
// R-PIDX-RANGE
// ---------------------------------------------------------------------------------------

func init() {
	register("R-PIDX-RANGE", "the inverse BWT hands its primary indexes (stream data) to the chunk decoders only after each of them was compared with the block length on a path that rejects the block", false, rulePidxRange)
}

func rulePidxRange(p *Prog, r *RuleResult) {
	bt := p.Pkg("transform").Type("BWT")
	if bt == nil {
		undecided("anchor unresolved: transform.BWT")
	}
	named := bt.Type().(*types.Named)
	st, _ := named.Underlying().(*types.Struct)
	var pidxF *types.Var
	for i := 0; st != nil && i < st.NumFields(); i++ {
		if a, ok := st.Field(i).Type().Underlying().(*types.Array); ok {
			if b, ok := a.Elem().Underlying().(*types.Basic); ok && b.Kind() == types.Uint && a.Len() == 8 {
				pidxF = st.Field(i)
			}
		}
	}
	if pidxF == nil {
		undecided("anchor unresolved: the primary index array of transform.BWT")
	}
	// accessor(s) of the array: methods returning an element
	accessor := map[*ssa.Function]bool{}
	for _, f := range p.ModFns {
		if f.Signature.Recv() == nil || namedOf(f.Signature.Recv().Type()) != named || f.Signature.Results().Len() != 1 {
			continue
		}
		eachInstr(f, func(i ssa.Instruction) {
			if ret, ok := i.(*ssa.Return); ok && len(ret.Results) == 1 {
				if u, ok := stripConv(rvals(ret)[0]).(*ssa.UnOp); ok && u.Op == token.MUL {
					if ia, ok := u.X.(*ssa.IndexAddr); ok && fieldVarOfAddr(ia.X) == pidxF {
						accessor[f] = true
					}
				}
			}
		})
	}
	n := 0
	inv := p.MethodOpt("transform", "BWT", "Inverse")
	if inv == nil {
		undecided("anchor unresolved: (*transform.BWT).Inverse")
	}
	invScope := map[*ssa.Function]bool{inv: true}
	for _, h := range p.helperClosure(inv) {
		invScope[h] = true
	}
	for _, f := range p.ModFns {
		if f.Signature.Recv() == nil || namedOf(f.Signature.Recv().Type()) != named || f.Parent() != nil || !invScope[f] {
			continue
		}
		// does f hand the whole array to other code (a slice of the field passed to a call or a go statement)?
		var handoff ssa.Instruction
		eachInstr(f, func(i ssa.Instruction) {
			c := callOf(i)
			if c == nil {
				return
			}
			for _, a := range c.Args {
				if sl, ok := a.(*ssa.Slice); ok && fieldVarOfAddr(sl.X) == pidxF {
					handoff = i
				}
			}
		})
		if handoff == nil {
			continue
		}
		n++
		fname := p.FnName(f)
		// a range test of an element chosen by a non-constant index, one of whose edges returns an error, before the hand-off
		okTest := false
		rangeTestIn := func(g *ssa.Function, mustReach *ssa.BasicBlock) bool {
			found := false
			for _, b := range g.Blocks {
				ifi := blockIf(b)
				if ifi == nil {
					continue
				}
				atom, pos := condAtom(ifi.Cond)
				bo, ok := atom.(*ssa.BinOp)
				if !ok {
					continue
				}
				switch bo.Op {
				case token.LSS, token.LEQ, token.GTR, token.GEQ:
				default:
					continue
				}
				isElem := func(v ssa.Value) bool {
					v = stripConv(v)
					if c, ok := v.(*ssa.Call); ok && c.Call.StaticCallee() != nil && accessor[c.Call.StaticCallee()] && len(c.Call.Args) == 2 {
						_, isConst := c.Call.Args[1].(*ssa.Const)
						return !isConst
					}
					if u, ok := v.(*ssa.UnOp); ok && u.Op == token.MUL {
						if ia, ok := u.X.(*ssa.IndexAddr); ok && fieldVarOfAddr(ia.X) == pidxF {
							_, isConst := ia.Index.(*ssa.Const)
							return !isConst
						}
					}
					return false
				}
				if !isElem(bo.X) && !isElem(bo.Y) {
					continue
				}
				// one edge must lead straight to an error return, the other must dominate the hand-off
				for si := 0; si < 2; si++ {
					sc := b.Succs[si]
					ret, isRet := sc.Instrs[len(sc.Instrs)-1].(*ssa.Return)
					if !isRet {
						continue
					}
					rv := rvals(ret)
					if len(rv) == 0 || !isErrType(rv[len(rv)-1].Type()) || retMayBeNil(ret, len(rv)-1) {
						continue
					}
					_ = pos
					if mustReach == nil || reach(b.Succs[1-si], nil, nil)[mustReach] {
						found = true
					}
				}
			}
			return found
		}
		okTest = rangeTestIn(f, handoff.Block())
		if !okTest {
			// the checks may have been extracted into a method of the same type that returns an error: its call
			// comes before the hand-off and the error is tested with the hand-off on the nil side
			eachInstr(f, func(i ssa.Instruction) {
				hc, ok := i.(*ssa.Call)
				if !ok {
					return
				}
				h := hc.Call.StaticCallee()
				if h == nil || h.Blocks == nil || h.Signature.Recv() == nil || namedOf(h.Signature.Recv().Type()) != named || !rangeTestIn(h, nil) {
					return
				}
				ev, has := errResult(hc)
				if !has || ev == nil {
					return
				}
				for _, b := range f.Blocks {
					if ifi := blockIf(b); ifi != nil {
						if x, nonNil, ok := nilTest(ifi.Cond); ok && x == ev {
							if reach(b.Succs[1-nonNil], nil, nil)[handoff.Block()] && !reach(b.Succs[nonNil], map[edge]bool{}, nil)[handoff.Block()] {
								okTest = true
							}
						}
					}
				}
			})
		}
		if okTest {
			r.ok(fname+": every primary index is range-checked (error exit) before the array is handed to the chunk decoders", p.IPos(handoff))
		} else {
			r.fail(fname+"#primary-indexes-unchecked", p.IPos(handoff), "the primary indexes read from the stream are handed to the chunk decoders without a range test over all of them: an index beyond the block makes a chunk decoder's bucket search run forever (the decoder hangs on a forged block)")
		}
	}
	r.floor(1, n, "functions handing the primary index array to chunk decoders")
}

// ---------------------------------------------------------------------------------------
// R-WRITE-PARTITION
// ---------------------------------------------------------------------------------------

func init() {
	register("R-WRITE-PARTITION", "Writer.Write looks at the caller's slice only to measure and copy it: nothing else can make the output depend on how the caller split the data into Write calls", false, ruleWritePartition)
}

// onlyCopied: every use of the byte-slice value v is len/cap, re-slicing (checked recursively), being the source of a
// copy, or being handed to a same-package helper whose parameter is used in the same ways. Returns the first other use.
func onlyCopied(p *Prog, v ssa.Value, depth int, seen map[ssa.Value]bool) ssa.Instruction {
	if seen[v] || depth > 6 {
		return nil
	}
	seen[v] = true
	refs := v.Referrers()
	if refs == nil {
		return nil
	}
	for _, ref := range *refs {
		switch x := ref.(type) {
		case *ssa.DebugRef:
		case *ssa.Slice:
			if x.X == v {
				if bad := onlyCopied(p, x, depth+1, seen); bad != nil {
					return bad
				}
			}
		case *ssa.Phi:
			if bad := onlyCopied(p, x, depth+1, seen); bad != nil {
				return bad
			}
		case *ssa.Call:
			if b, ok := x.Call.Value.(*ssa.Builtin); ok {
				switch b.Name() {
				case "len", "cap":
					continue
				case "copy":
					if len(x.Call.Args) == 2 && x.Call.Args[1] == v && x.Call.Args[0] != v {
						continue
					}
				}
				return x
			}
			callee := x.Call.StaticCallee()
			if callee == nil || callee.Blocks == nil || !p.InModule(callee) || x.Call.IsInvoke() {
				return x
			}
			okAll := true
			for k, a := range x.Call.Args {
				if a != v {
					continue
				}
				if k >= len(callee.Params) {
					okAll = false
					break
				}
				if bad := onlyCopied(p, callee.Params[k], depth+1, seen); bad != nil {
					return bad
				}
			}
			if !okAll {
				return x
			}
		default:
			return ref
		}
	}
	return nil
}

func ruleWritePartition(p *Prog, r *RuleResult) {
	f := p.Method("io", "Writer", "Write")
	fname := p.FnName(f)
	if len(f.Params) < 2 || !isByteSlice(f.Params[1].Type()) {
		undecided("unexpected signature of %s", fname)
	}
	if bad := onlyCopied(p, f.Params[1], 0, map[ssa.Value]bool{}); bad != nil {
		r.fail(fname+"#caller-slice-inspected", p.IPos(bad), "Write does something with the caller's slice other than measuring it and copying it into the block buffers (it inspects or keeps the bytes of this particular call): what the encoder then does can depend on where the caller cut the data, so the same bytes written in different pieces give different streams")
	} else {
		r.ok(fname+": the caller's slice is only measured, re-sliced and copied", p.Pos(f.Pos()))
	}
	r.floor(1, 1, "Write functions")
}

package main

import (
	"fmt"
	"go/token"
	"go/types"

	"golang.org/x/tools/go/ssa"
)

// ---------------------------------------------------------------------------------------
// R-ALLOC-GUARD: data-derived allocation sizes on the decode path are bounded
// ---------------------------------------------------------------------------------------

func init() {
	register("R-ALLOC-GUARD", "on the decode path every allocation whose size derives from stream data is bounded (dominating guard, constant mask, min with a trusted value, or a field of at most 32 bits)", false, ruleAllocGuard)
}

type sizeTrace struct {
	chain    map[ssa.Value]bool
	sources  []ssa.Value
	maxBits  int  // widest unbounded source (0 = none)
	masked   bool // a constant AND on the way
	minned   bool // min() with an untainted operand
	narrowed bool // passed through a type of <= 32 bits
}

func isByteSlice(t types.Type) bool {
	s, ok := t.Underlying().(*types.Slice)
	if !ok {
		return false
	}
	b, ok := s.Elem().Underlying().(*types.Basic)
	return ok && b.Kind() == types.Byte
}

// dataSource: v is produced by reading stream data. Returns the number of significant bits (64 if unknown).
func dataSource(p *Prog, v ssa.Value) (int, bool) {
	switch x := v.(type) {
	case *ssa.Call:
		if op, ok := isBitstreamOp(p, &x.Call); ok {
			_ = op
			o := calleeObj(&x.Call)
			switch o.Name() {
			case "ReadBit":
				return 1, true
			case "ReadBits":
				if w, ok := constInt(x.Call.Args[len(x.Call.Args)-1]); ok {
					return int(w), true
				}
				return 64, true
			}
			return 0, false
		}
		o := calleeObj(&x.Call)
		if o == nil || o.Pkg() == nil {
			return 0, false
		}
		if o.Pkg().Path() == "encoding/binary" && len(o.Name()) > 4 && o.Name()[:4] == "Uint" {
			return typeBits(x.Type()), true
		}
		if o.Pkg().Path() == p.ModPath+"/entropy" && (o.Name() == "ReadVarInt" || o.Name() == "DecodeAlphabet") {
			return typeBits(x.Type()), true
		}
	case *ssa.UnOp:
		if x.Op == token.MUL {
			if ia, ok := x.X.(*ssa.IndexAddr); ok && isByteSlice(ia.X.Type()) {
				return 8, true
			}
		}
	case *ssa.Index:
		return 8, false
	}
	return 0, false
}

func traceSize(p *Prog, v ssa.Value) *sizeTrace {
	t := &sizeTrace{chain: map[ssa.Value]bool{}}
	var walk func(v ssa.Value, d int)
	walk = func(v ssa.Value, d int) {
		if v == nil || t.chain[v] || d > 24 {
			return
		}
		if _, ok := v.(*ssa.Const); ok {
			return
		}
		t.chain[v] = true
		if bits, ok := dataSource(p, v); ok {
			t.sources = append(t.sources, v)
			if bits > t.maxBits {
				t.maxBits = bits
			}
			return
		}
		switch x := v.(type) {
		case *ssa.BinOp:
			if x.Op == token.AND {
				if _, ok := x.Y.(*ssa.Const); ok {
					t.masked = true
				}
				if _, ok := x.X.(*ssa.Const); ok {
					t.masked = true
				}
			}
			walk(x.X, d+1)
			walk(x.Y, d+1)
		case *ssa.Convert:
			if b := typeBits(x.Type()); b > 0 && b <= 32 {
				t.narrowed = true
			}
			walk(x.X, d+1)
		case *ssa.ChangeType:
			walk(x.X, d+1)
		case *ssa.Phi:
			for _, e := range x.Edges {
				walk(e, d+1)
			}
		case *ssa.UnOp:
			if x.Op != token.MUL {
				walk(x.X, d+1)
			} else if al, ok := x.X.(*ssa.Alloc); ok {
				// local cell: follow its stores
				for _, ref := range *al.Referrers() {
					if st, ok := ref.(*ssa.Store); ok && st.Addr == ssa.Value(al) {
						walk(st.Val, d+1)
					}
				}
			}
		case *ssa.Extract:
			walk(x.Tuple, d+1)
		case *ssa.Call:
			if b, ok := x.Call.Value.(*ssa.Builtin); ok && (b.Name() == "min" || b.Name() == "max") {
				before := len(t.sources)
				clean := false
				for _, a := range x.Call.Args {
					n0 := len(t.sources)
					walk(a, d+1)
					if len(t.sources) == n0 {
						clean = true
					}
				}
				if b.Name() == "min" && clean && len(t.sources) > before {
					t.minned = true
				}
			}
		}
	}
	walk(v, 0)
	return t
}

func ruleAllocGuard(p *Prog, r *RuleResult) {
	s := resolveSide(p, "Reader")
	scope := p.Reachable([]*ssa.Function{s.fn}, func(f *ssa.Function) bool { return !p.InModule(f) })
	n, nfn := 0, 0
	var k keyer
	for _, f := range p.ModFns {
		if !scope[f] || !isLibRel(p.Rel(f)) {
			continue
		}
		nfn++
		fname := p.FnName(f)
		eachInstr(f, func(i ssa.Instruction) {
			ms, ok := i.(*ssa.MakeSlice)
			if !ok {
				return
			}
			for _, sz := range []ssa.Value{ms.Len, ms.Cap} {
				if _, isConst := sz.(*ssa.Const); isConst {
					continue
				}
				t := traceSize(p, sz)
				if len(t.sources) == 0 {
					continue
				}
				n++
				key := k.key(fname, "make")
				switch {
				case t.maxBits <= 32:
					r.ok(fmt.Sprintf("%s: size derives from a stream field of at most %d bits", key, t.maxBits), p.IPos(i))
				case t.masked:
					r.ok(key+": size masked with a constant", p.IPos(i))
				case t.minned:
					r.ok(key+": size passed through min() with a trusted operand", p.IPos(i))
				case t.narrowed:
					r.ok(key+": size carried in a type of at most 32 bits", p.IPos(i))
				default:
					// dominating guard on a chain value
					guarded := false
					for _, b := range f.Blocks {
						ifi := blockIf(b)
						if ifi == nil {
							continue
						}
						atom, _ := condAtom(ifi.Cond)
						bo, ok := atom.(*ssa.BinOp)
						if !ok {
							continue
						}
						// the guard must bound a chain value from above by something that is not itself stream data:
						// the make is dominated by the edge on which chain < other (or chain <= other)
						var upperOnTrue bool
						switch {
						case t.chain[bo.X] && !t.chain[bo.Y]:
							switch bo.Op {
							case token.LSS, token.LEQ:
								upperOnTrue = true
							case token.GTR, token.GEQ:
								upperOnTrue = false
							default:
								continue
							}
						case t.chain[bo.Y] && !t.chain[bo.X]:
							switch bo.Op {
							case token.GTR, token.GEQ:
								upperOnTrue = true
							case token.LSS, token.LEQ:
								upperOnTrue = false
							default:
								continue
							}
						default:
							continue
						}
						_, pos := condAtom(ifi.Cond)
						si := succFor(pos, upperOnTrue)
						if edgeDominates(f, edge{b, si}, ms.Block()) {
							guarded = true
						}
					}
					if guarded {
						r.ok(key+": size bounded by a dominating range test", p.IPos(i))
					} else {
						r.fail(key, p.IPos(i), fmt.Sprintf("an allocation on the decode path takes its size from up to %d bits of stream data without a bound (no dominating range test, mask, min or narrow type): a forged stream makes the process abort with out-of-memory, which no recover can contain", t.maxBits))
					}
					break
				}
				return
			}
		})
	}
	r.info(fmt.Sprintf("%d library functions reachable from the decode task scanned", nfn), "-")
	r.floor(3, n, "data-derived allocations on the decode path")
}

package main

func thorough(id string, prop *Property, p *Prog, cov map[string]any, undec *[]string) {}

func runMutantsCLI() int { return 0 }

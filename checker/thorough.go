package main

import (
	"fmt"
	"os"
	"os/exec"
	"path/filepath"
	"sort"
	"strings"
	"time"
)

// ---------------------------------------------------------------------------------------
// Thorough tier: both-ways testing of the rules with one-instance mutants on scratch copies.
// ---------------------------------------------------------------------------------------

type hunk struct{ file, old, new string }

type mutant struct {
	name  string
	rules []string
	props []string
	note  string
	hunks []hunk
}

func parseMutant(path string) (*mutant, error) {
	b, err := os.ReadFile(path)
	if err != nil {
		return nil, err
	}
	m := &mutant{}
	lines := strings.Split(string(b), "\n")
	for i := 0; i < len(lines); i++ {
		l := lines[i]
		switch {
		case strings.HasPrefix(l, "# "):
			m.note = strings.TrimPrefix(l, "# ")
		case strings.HasPrefix(l, "name: "):
			m.name = strings.TrimPrefix(l, "name: ")
		case strings.HasPrefix(l, "rules: "):
			m.rules = strings.Fields(strings.TrimPrefix(l, "rules: "))
		case strings.HasPrefix(l, "properties: "):
			m.props = strings.Fields(strings.TrimPrefix(l, "properties: "))
		case strings.HasPrefix(l, "file: "):
			h := hunk{file: strings.TrimPrefix(l, "file: ")}
			if i+1 >= len(lines) || lines[i+1] != "<<<<old" {
				return nil, fmt.Errorf("%s: expected <<<<old after file", path)
			}
			i += 2
			var old, nw []string
			for ; i < len(lines) && lines[i] != "====new"; i++ {
				old = append(old, lines[i])
			}
			i++
			for ; i < len(lines) && lines[i] != ">>>>end"; i++ {
				nw = append(nw, lines[i])
			}
			h.old, h.new = strings.Join(old, "\n"), strings.Join(nw, "\n")
			m.hunks = append(m.hunks, h)
		}
	}
	if m.name == "" || len(m.rules) == 0 || len(m.hunks) == 0 {
		return nil, fmt.Errorf("%s: incomplete mutant", path)
	}
	return m, nil
}

func loadMutants(dir string) []*mutant {
	files, _ := filepath.Glob(filepath.Join(dir, "*.mut"))
	sort.Strings(files)
	var out []*mutant
	for _, f := range files {
		m, err := parseMutant(f)
		if err != nil {
			fmt.Fprintln(os.Stderr, "mutant:", err)
			continue
		}
		out = append(out, m)
	}
	return out
}

type mutantResult struct {
	Name    string   `json:"name"`
	Note    string   `json:"note"`
	Rules   []string `json:"rules"`
	Status  string   `json:"status"` // killed | MISSED | not-applicable | invalid
	Reports []string `json:"reports,omitempty"`
	WallS   float64  `json:"wall_s"`
}

func copyTree(src, dst string) error {
	return filepath.Walk(src, func(path string, info os.FileInfo, err error) error {
		if err != nil {
			return err
		}
		rel, _ := filepath.Rel(src, path)
		if info.IsDir() {
			if info.Name() == ".git" {
				return filepath.SkipDir
			}
			return os.MkdirAll(filepath.Join(dst, rel), 0o755)
		}
		if !info.Mode().IsRegular() {
			return nil
		}
		b, err := os.ReadFile(path)
		if err != nil {
			return err
		}
		return os.WriteFile(filepath.Join(dst, rel), b, 0o644)
	})
}

// runMutant applies m to a scratch copy of repo, runs its rules in a child process and removes the copy.
func runMutant(repo string, m *mutant) (res mutantResult) {
	start := time.Now()
	res = mutantResult{Name: m.name, Note: m.note, Rules: m.rules}
	defer func() { res.WallS = time.Since(start).Seconds() }()
	// anchors present?
	for _, h := range m.hunks {
		b, err := os.ReadFile(filepath.Join(repo, h.file))
		if err != nil || (h.old != "__APPEND__" && strings.Count(string(b), h.old) != 1) {
			res.Status = "not-applicable"
			return res
		}
	}
	tmp, err := os.MkdirTemp("", "kzmut-")
	if err != nil {
		res.Status = "invalid"
		return res
	}
	defer os.RemoveAll(tmp)
	if err := copyTree(repo, tmp); err != nil {
		res.Status = "invalid"
		return res
	}
	for _, h := range m.hunks {
		p := filepath.Join(tmp, h.file)
		b, _ := os.ReadFile(p)
		var s string
		if h.old == "__APPEND__" {
			s = string(b) + h.new
		} else {
			s = strings.Replace(string(b), h.old, h.new, 1)
		}
		os.WriteFile(p, []byte(s), 0o644)
	}
	self, _ := os.Executable()
	cmd := exec.Command(self, "-repo", tmp, "-verif", *flagVerif, "-rule", strings.Join(m.rules, ","))
	out, err := cmd.CombinedOutput()
	code := 0
	if ee, ok := err.(*exec.ExitError); ok {
		code = ee.ExitCode()
	} else if err != nil {
		code = 2
	}
	for _, l := range strings.Split(string(out), "\n") {
		l = strings.TrimSpace(l)
		if strings.HasPrefix(l, "REPORT ") {
			l = strings.ReplaceAll(l, tmp+"/", "")
			if len(l) > 220 {
				l = l[:220] + "..."
			}
			res.Reports = append(res.Reports, l)
		}
	}
	switch {
	case code == 1 && len(res.Reports) > 0:
		res.Status = "killed"
	case code == 2:
		res.Status = "invalid"
		for _, l := range strings.Split(string(out), "\n") {
			if strings.Contains(l, "UNDECIDED") || strings.Contains(l, "load error") {
				res.Reports = append(res.Reports, strings.TrimSpace(l))
				break
			}
		}
	default:
		res.Status = "MISSED"
	}
	return res
}

func thorough(id string, prop *Property, p *Prog, cov map[string]any, undec *[]string) {
	ms := loadMutants(filepath.Join(*flagVerif, "mutants"))
	var results []mutantResult
	killed, missed, na, invalid := 0, 0, 0, 0
	for _, m := range ms {
		match := false
		for _, pr := range m.props {
			if pr == id {
				match = true
			}
		}
		if !match {
			continue
		}
		r := runMutant(p.Root, m)
		results = append(results, r)
		switch r.Status {
		case "killed":
			killed++
		case "MISSED":
			missed++
		case "not-applicable":
			na++
		default:
			invalid++
		}
		fmt.Printf("   mutant %-28s %-14s %s\n", m.name, r.Status, strings.Join(m.rules, ","))
	}
	cov["mutants"] = results
	cov["mutants_killed"] = killed
	cov["mutants_missed"] = missed
	cov["mutants_not_applicable"] = na
	cov["mutants_invalid"] = invalid
	cov["mutants_explanation"] = "checker self-test: each mutant is a one-instance breakage of the property's mechanism applied to a scratch copy of the tree under analysis (deleted afterwards) and analysed by the same rule code in a child process; 'killed' = the named rule reported it. Mutants exercise the checker only and never decide the verdict on /repo. not-applicable = the mutant's anchor text is absent from the analysed tree."
	// replay of the independently seeded breakages that this property's check is recorded to catch
	sres, skilled, smissed := replaySeeds(id, p.Root)
	cov["seeded_replays"] = sres
	cov["seeded_reported"] = skilled
	cov["seeded_not_reported"] = smissed
	missed += smissed
	if missed > 0 && os.Getenv("KZ_STRICT_MUTANTS") != "" {
		*undec = append(*undec, fmt.Sprintf("checker self-test: %d mutant(s) not reported", missed))
	}
}

func runMutantsCLI() int {
	ms := loadMutants(filepath.Join(*flagVerif, "mutants"))
	bad := 0
	only := map[string]bool{}
	for _, a := range flagArgs() {
		only[a] = true
	}
	for _, m := range ms {
		if *flagProperty != "" {
			match := false
			for _, pr := range m.props {
				if pr == *flagProperty {
					match = true
				}
			}
			if !match {
				continue
			}
		}
		if len(only) > 0 && !only[m.name] {
			continue
		}
		r := runMutant(*flagRepo, m)
		fmt.Printf("%-28s %-14s %-24s %.1fs\n", m.name, r.Status, strings.Join(m.rules, ","), r.WallS)
		if r.Status != "killed" {
			bad++
			for _, l := range r.Reports {
				fmt.Println("     ", l)
			}
		} else if os.Getenv("KZ_VERBOSE") != "" {
			for _, l := range r.Reports {
				fmt.Println("     ", l)
			}
		}
	}
	if bad > 0 {
		return 1
	}
	return 0
}

type seedResult struct {
	ID     string  `json:"id"`
	Status string  `json:"status"` // reported | NOT-REPORTED | not-applicable
	WallS  float64 `json:"wall_s"`
}

// replaySeeds applies each stored seeded patch that meta.json records as detected by property id to a scratch copy
// and runs the property's quick check on it in a child process (regression test of the checker, never a verdict).
func replaySeeds(id, repo string) ([]seedResult, int, int) {
	dirs, _ := filepath.Glob(filepath.Join(*flagVerif, "seeded", "*", "meta.json"))
	sort.Strings(dirs)
	var out []seedResult
	ok, miss := 0, 0
	for _, mf := range dirs {
		b, err := os.ReadFile(mf)
		if err != nil {
			continue
		}
		var meta struct {
			ID         string `json:"id"`
			DetectedBy []struct {
				Property string `json:"property"`
			} `json:"detected_by"`
		}
		if jsonUnmarshal(b, &meta) != nil {
			continue
		}
		mine := false
		for _, d := range meta.DetectedBy {
			if d.Property == id {
				mine = true
			}
		}
		if !mine {
			continue
		}
		start := time.Now()
		res := seedResult{ID: meta.ID}
		tmp, err := os.MkdirTemp("", "kzseed-")
		if err != nil {
			continue
		}
		func() {
			defer os.RemoveAll(tmp)
			if copyTree(repo, tmp) != nil {
				res.Status = "not-applicable"
				return
			}
			patch := filepath.Join(filepath.Dir(mf), "patch.diff")
			pc := exec.Command("patch", "-p2", "-s", "-f", "-d", tmp, "-i", patch)
			if pout, err := pc.CombinedOutput(); err != nil {
				_ = pout
				res.Status = "not-applicable" // the tree under analysis no longer matches the patch context
				return
			}
			self, _ := os.Executable()
			cmd := exec.Command(self, "-repo", tmp, "-verif", *flagVerif, "-property", id, "-no-evidence")
			o, err := cmd.CombinedOutput()
			code := 0
			if ee, isExit := err.(*exec.ExitError); isExit {
				code = ee.ExitCode()
			}
			if code == 1 && strings.Contains(string(o), "VIOLATION property="+id) {
				res.Status = "reported"
			} else {
				res.Status = "NOT-REPORTED"
			}
		}()
		res.WallS = time.Since(start).Seconds()
		switch res.Status {
		case "reported":
			ok++
		case "NOT-REPORTED":
			miss++
		}
		fmt.Printf("   seed   %-28s %s\n", res.ID, res.Status)
		out = append(out, res)
	}
	return out, ok, miss
}

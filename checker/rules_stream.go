package main

import (
	"fmt"
	"go/token"
	"go/types"
	"sort"

	"golang.org/x/tools/go/ssa"
)

// ---------------------------------------------------------------------------------------
// R-ERRSTATE, R-REFILL, R-CKSUM
// ---------------------------------------------------------------------------------------

func init() {
	register("R-ERRSTATE", "a failed decode batch publishes 0 bytes (error returns of Reader.processBlock carry count 0) and skipped results are filtered before their data is used", false, ruleErrState)
	register("R-REFILL", "the input bitstream refills its buffer completely (io.ReadFull/ReadAtLeast or a loop around the underlying Read)", false, ruleRefill)
	register("R-CKSUM", "decode: every clean exit after Inverse passes the hash comparison (un-narrowed) when a hasher is set, mismatch sets the error; encode: the hash of the original block is what is written, with the hasher's width", false, ruleCksum)
}

func isZeroConst(v ssa.Value) bool {
	c, ok := constInt(v)
	return ok && c == 0
}

func definitelyNil(v ssa.Value) bool {
	c, ok := v.(*ssa.Const)
	return ok && c.IsNil()
}

func ruleErrState(p *Prog, r *RuleResult) {
	f := p.Method("io", "Reader", "processBlock")
	fname := p.FnName(f)
	if f.Signature.Results().Len() != 2 {
		undecided("%s: unexpected result arity", fname)
	}
	// alternative shape: Reader.Read zeroes `available` on the error edge of processBlock
	readZeroes := func() bool {
		rd := p.Method("io", "Reader", "Read")
		okAll := false
		eachInstr(rd, func(i ssa.Instruction) {
			c, ok := i.(*ssa.Call)
			if !ok || c.Call.StaticCallee() != f {
				return
			}
			// find extract #1 and its nil test
			for _, ref := range *c.Referrers() {
				ex, ok := ref.(*ssa.Extract)
				if !ok || ex.Index != 1 {
					continue
				}
				for _, rr := range *ex.Referrers() {
					bo, ok := rr.(*ssa.BinOp)
					if !ok {
						continue
					}
					for _, r3 := range *bo.Referrers() {
						ifi, ok := r3.(*ssa.If)
						if !ok {
							continue
						}
						x, succ, ok := nilTest(ifi.Cond)
						if !ok || x != ex {
							continue
						}
						zero := map[ssa.Instruction]bool{}
						eachInstr(rd, func(j ssa.Instruction) {
							if st, ok := j.(*ssa.Store); ok && isZeroConst(st.Val) {
								if fv := fieldVarOfAddr(st.Addr); fv != nil && fv.Name() == "available" {
									zero[j] = true
								}
							}
						})
						if len(zero) > 0 && allPathsThrough(rd, ifi.Block().Succs[succ], 0, zero) {
							okAll = true
						}
					}
				}
			}
		})
		return okAll
	}
	altOK := readZeroes()
	// Reader.Read reports the error of processBlock in the same call (it must not keep it for "the next call":
	// by then the counter is cancelled and processBlock answers with a clean end of stream)
	rd := p.Method("io", "Reader", "Read")
	eachInstr(rd, func(i ssa.Instruction) {
		c, ok := i.(*ssa.Call)
		if !ok || c.Call.StaticCallee() != f {
			return
		}
		ifi, succ, ok := errEdgeOf(c)
		if !ok {
			r.fail(p.FnName(rd)+"#processBlock-error", p.IPos(c), "Reader.Read does not test the error of processBlock")
			return
		}
		bad := false
		for rb := range reach(ifi.Block().Succs[succ], nil, nil) {
			if ret, ok := rb.Instrs[len(rb.Instrs)-1].(*ssa.Return); ok && rb != rd.Recover && retMayBeNil(ret, len(ret.Results)-1) {
				ev, _ := errResult(c)
				if stripConv(rvals(ret)[len(ret.Results)-1]) == ev {
					continue
				}
				bad = true
				r.fail(p.FnName(rd)+"#processBlock-error", p.IPos(ret), "after processBlock failed, Reader.Read can return without an error: the failure is dropped, the next call finds the stream cancelled and reports a clean end of stream")
				break
			}
		}
		if !bad {
			r.ok(p.FnName(rd)+": an error of processBlock is returned by the same Read call", p.IPos(ifi))
		}
	})
	nret := 0
	var k keyer
	for _, b := range f.Blocks {
		if b == f.Recover {
			continue
		}
		ret, ok := b.Instrs[len(b.Instrs)-1].(*ssa.Return)
		if !ok {
			continue
		}
		nret++
		cnt, ev := rvals(ret)[0], rvals(ret)[1]
		key := k.key(fname, "return")
		if definitelyNil(ev) {
			r.info(key+" success return", p.IPos(ret))
			continue
		}
		// pairwise phi handling
		okRet := isZeroConst(cnt)
		if !okRet {
			cp, ok1 := cnt.(*ssa.Phi)
			ep, ok2 := ev.(*ssa.Phi)
			if ok1 && ok2 && cp.Block() == ep.Block() {
				okRet = true
				for i := range cp.Edges {
					if !definitelyNil(ep.Edges[i]) && !isZeroConst(cp.Edges[i]) {
						okRet = false
					}
				}
			}
		}
		if okRet {
			r.ok(key+" error return carries 0 bytes", p.IPos(ret))
		} else if altOK {
			r.ok(key+" error return; Reader.Read zeroes `available` on the error edge", p.IPos(ret))
		} else {
			r.fail(key, p.IPos(ret), "Reader.processBlock returns a non-zero byte count together with an error: Read stores it as `available`, so the next Read delivers the bytes of the failed batch (corrupted or stale) as a success")
		}
	}
	// skipped filter dominates uses of decoded/data of a result. The scan of the results may live in a helper of
	// processBlock: the scan-local obligations are then checked there.
	s := resolveSide(p, "Reader")
	parentFn := f
	if sf, sc := scanFunction(p, s); sf != f && sc != nil {
		scanResultPropagated(p, r, parentFn, sc)
		f = sf
		fname = p.FnName(f)
	}
	skipped, decodedF, dataF := s.skippedF, s.decodedF, s.dataF
	if skipped == nil || decodedF == nil || dataF == nil {
		undecided("cannot identify the skipped / decoded / data fields of the decode result type")
	}
	var keepEdges []edge
	for _, b := range f.Blocks {
		ifi := blockIf(b)
		if ifi == nil {
			continue
		}
		atom, pos := condAtom(ifi.Cond)
		if fieldVarOfLoad(atom) == skipped {
			keepEdges = append(keepEdges, edge{b, succFor(pos, false)})
		}
	}
	nuse := 0
	eachInstr(f, func(i ssa.Instruction) {
		v, ok := i.(ssa.Value)
		if !ok {
			return
		}
		fv := fieldVarOfLoad(v)
		if fv != decodedF && fv != dataF {
			return
		}
		nuse++
		dom := false
		for _, e := range keepEdges {
			if edgeDominates(f, e, i.Block()) {
				dom = true
			}
		}
		if !dom {
			r.fail(fmt.Sprintf("%s#use-of-skipped-result.%s", fname, fv.Name()), p.IPos(i), "the data of a task result is used without first filtering skipped blocks: bytes of a block outside the requested range (or stale bytes) would be delivered")
		}
	})
	// decoded-size guard: a result whose size exceeds the declared block size is refused before its bytes are copied
	// (Reader.Read indexes the buffers with consumed %% blockSize, so a larger block corrupts the cursor arithmetic)
	guardOK := false
	for _, b := range f.Blocks {
		ifi := blockIf(b)
		if ifi == nil {
			continue
		}
		atom, pos := condAtom(ifi.Cond)
		bo, ok := atom.(*ssa.BinOp)
		if !ok {
			continue
		}
		op := bo.Op
		x, y := bo.X, bo.Y
		if fieldVarOfLoad(y) == decodedF {
			x, y = y, x
			op = mirrorOp(op)
		}
		if fieldVarOfLoad(x) != decodedF {
			continue
		}
		// the bound must be a field of the Reader itself (the declared block size), not a local that may be padded
		fy := fieldVarOfLoad(y)
		if fy == nil {
			continue
		}
		if u, ok := y.(*ssa.UnOp); !ok || namedOf(u.X.(*ssa.FieldAddr).X.Type()) == nil || namedOf(u.X.(*ssa.FieldAddr).X.Type()).Obj().Name() != "Reader" {
			continue
		}
		var tooBig *ssa.BasicBlock
		switch op {
		case token.GTR:
			tooBig = b.Succs[succFor(pos, true)]
		case token.LEQ:
			tooBig = b.Succs[succFor(pos, false)]
		default:
			continue
		}
		allErr := true
		for rb := range reach(tooBig, nil, nil) {
			if ret, ok := rb.Instrs[len(rb.Instrs)-1].(*ssa.Return); ok && rb != f.Recover {
				if retMayBeNil(ret, len(ret.Results)-1) {
					allErr = false
				}
			}
		}
		if allErr {
			guardOK = true
			r.ok(fname+": a result larger than the declared block size is refused with an error", p.IPos(ifi))
		}
	}
	if !guardOK {
		r.fail(fname+"#decoded-size-guard", p.Pos(f.Pos()), "the decoded size of a block is not checked against the declared block size (field blockSize) before it is delivered: a forged stream makes Read index past the buffers it allocated (panic in the caller's goroutine) or deliver misplaced bytes")
	}
	// the error of every non-skipped result is examined: from the not-skipped edge the next iteration of the scan (or
	// a success return) cannot be reached without passing the test of the result's error
	{
		var errBlocks = map[*ssa.BasicBlock]bool{}
		for _, b := range f.Blocks {
			if ifi := blockIf(b); ifi != nil {
				if x, _, ok := nilTest(ifi.Cond); ok && fieldVarOfLoad(x) == s.errField {
					errBlocks[b] = true
				}
			}
		}
		for _, e := range keepEdges {
			k0 := e.from.Succs[e.succ]
			// loop header of the scan: a block that dominates the skipped test and is reachable from it
			reached := reach(k0, nil, errBlocks)
			passed := false
			for b := range reached {
				if b != k0 && b.Dominates(e.from) && reach(e.from, nil, nil)[b] {
					passed = true // back at the loop header without having looked at the error
				}
				if ret, ok := b.Instrs[len(b.Instrs)-1].(*ssa.Return); ok && b != f.Recover && !retMayBeNil(ret, len(ret.Results)-1) {
					continue
				} else if ok && b != f.Recover {
					passed = true
				}
			}
			if passed {
				r.fail(fname+"#task-error-skipped", p.IPos(e.from.Instrs[len(e.from.Instrs)-1]), "a task result can be passed over (or the scan can end successfully) without its error being examined: a block that failed before producing any byte is treated like an end-of-stream marker and the stream ends cleanly at that point")
			} else if len(errBlocks) > 0 {
				r.ok(fname+": every non-skipped result has its error examined before anything else can end the iteration", p.IPos(e.from.Instrs[len(e.from.Instrs)-1]))
			}
		}
	}
	// a task error found in the result scan is always returned: every return reachable from the err != nil edge
	// carries a non-nil error (no break/continue that falls through to a success return)
	errEdgeReturnsError(p, r, f, s.errField)
	if nuse > 0 && len(r.Findings) == 0 || nuse > 0 {
		r.ok(fmt.Sprintf("%s: %d uses of result data, all behind the skipped filter", fname, nuse), p.Pos(f.Pos()))
	}
	r.floor(3, nret, "returns of Reader.processBlock")
}

// inCycle reports whether block b lies on a CFG cycle.
func inCycle(b *ssa.BasicBlock) bool {
	for _, s := range b.Succs {
		if s == b || reach(s, nil, nil)[b] {
			return true
		}
	}
	return false
}

func ruleRefill(p *Prog, r *RuleResult) {
	top := p.Method("bitstream", "DefaultInputBitStream", "readFromInputStream")
	n := 0
	// the refill may be delegated to a helper: analyse the function (refill entry or one of its same-package
	// helpers) that actually reads the source
	f := top
	hasRead := func(g *ssa.Function) bool {
		found := false
		eachInstr(g, func(i ssa.Instruction) {
			if c := callOf(i); c != nil && (isPkgFunc(c, "io", "ReadFull") || isPkgFunc(c, "io", "ReadAtLeast") || (c.IsInvoke() && c.Method.Name() == "Read" && len(c.Args) == 1)) {
				found = true
			}
		})
		return found
	}
	if !hasRead(top) {
		for _, h := range p.helperClosure(top) {
			if hasRead(h) {
				f = h
				break
			}
		}
	}
	// every other method of the input bitstream that reads the underlying source itself is held to the same
	// obligations (a bulk path that bypasses the refill is a second refill)
	fns := []*ssa.Function{f}
	if tn := namedOf(top.Signature.Recv().Type()); tn != nil {
		for _, g := range p.ModFns {
			if g == f || g.Signature.Recv() == nil || g.Parent() != nil || namedOf(g.Signature.Recv().Type()) != tn || p.isForwarder(g) {
				continue
			}
			if hasRead(g) {
				fns = append(fns, g)
			}
		}
	}
	for _, f := range fns {
		fname := p.FnName(f)
		eachInstr(f, func(i ssa.Instruction) {
			c := callOf(i)
			if c == nil {
				return
			}
			if isPkgFunc(c, "io", "ReadFull") || isPkgFunc(c, "io", "ReadAtLeast") {
				n++
				r.ok(fname+" refills with io.ReadFull/ReadAtLeast", p.IPos(i))
				return
			}
			if c.IsInvoke() && c.Method.Name() == "Read" && len(c.Args) == 1 {
				if _, ok := c.Args[0].Type().Underlying().(*types.Slice); !ok {
					return
				}
				n++
				if !inCycle(i.Block()) {
					r.fail(fname+"#underlying.Read", p.IPos(i), "the buffer is refilled with a single Read of the underlying source: a short read (pipe, socket) leaves a partial 64-bit word in mid-stream, which every bulk read path treats as end of data")
					return
				}
				// the loop must be controlled by the byte count and the error of the Read
				cv := i.(ssa.Value)
				usesN, usesErr := false, false
				for _, ref := range *cv.Referrers() {
					if ex, ok := ref.(*ssa.Extract); ok {
						if ex.Index == 0 && len(*ex.Referrers()) > 0 {
							usesN = true
						}
						if ex.Index == 1 && len(*ex.Referrers()) > 0 {
							usesErr = true
						}
					}
				}
				// the loop must continue while the request is unsatisfied: some test in the loop compares the
				// accumulated byte count with the requested count
				loop := cycleOf(i.Block())
				sizeVals := map[ssa.Value]bool{}
				var grow func(v ssa.Value, d int)
				grow = func(v ssa.Value, d int) {
					if sizeVals[v] || d > 8 {
						return
					}
					sizeVals[v] = true
					if refs := v.Referrers(); refs != nil {
						for _, ref := range *refs {
							switch x := ref.(type) {
							case *ssa.Phi:
								grow(x, d+1)
							case *ssa.BinOp:
								if x.Op == token.ADD {
									grow(x, d+1)
								}
							case *ssa.Extract:
								if x.Index == 0 {
									grow(x, d+1)
								}
							}
						}
					}
				}
				grow(cv, 0)
				delete(sizeVals, cv)
				// the requested count: an integer parameter of the analysed function
				var countP ssa.Value
				for _, prm := range f.Params {
					if b, ok := prm.Type().Underlying().(*types.Basic); ok && b.Info()&types.IsInteger != 0 {
						countP = prm
					}
				}
				satisfied := false
				for lb := range loop {
					ifi := blockIf(lb)
					if ifi == nil {
						continue
					}
					var visit func(v ssa.Value, d int)
					visit = func(v ssa.Value, d int) {
						if d > 4 {
							return
						}
						switch x := v.(type) {
						case *ssa.BinOp:
							switch x.Op {
							case token.LSS, token.LEQ, token.GTR, token.GEQ, token.EQL, token.NEQ:
								if (sizeVals[x.X] && x.Y == countP) || (sizeVals[x.Y] && x.X == countP) {
									satisfied = true
								}
							}
						case *ssa.UnOp:
							visit(x.X, d+1)
						case *ssa.Phi:
							for _, e := range x.Edges {
								visit(e, d+1)
							}
						}
					}
					visit(ifi.Cond, 0)
				}
				// every exit of the refill loop is decided by the byte count reached or by an error; any other exit
				// (an alignment shortcut, a retry budget that does not set an error ...) can leave a partial word
				errVals := map[ssa.Value]bool{}
				var growE func(v ssa.Value, d int)
				growE = func(v ssa.Value, d int) {
					if errVals[v] || d > 8 {
						return
					}
					errVals[v] = true
					if refs := v.Referrers(); refs != nil {
						for _, ref := range *refs {
							if ph, ok := ref.(*ssa.Phi); ok {
								growE(ph, d+1)
							}
						}
					}
				}
				for _, ref := range *cv.Referrers() {
					if ex, ok := ref.(*ssa.Extract); ok && ex.Index == 1 {
						growE(ex, 0)
					}
				}
				strayExit := ""
				for lb := range loop {
					ifi := blockIf(lb)
					if ifi == nil {
						continue
					}
					leaves := false
					for _, sx := range lb.Succs {
						if !loop[sx] {
							leaves = true
						}
					}
					if !leaves {
						continue
					}
					atom, _ := condAtom(ifi.Cond)
					okExit := false
					if bo, ok := atom.(*ssa.BinOp); ok {
						if (sizeVals[bo.X] && bo.Y == countP) || (sizeVals[bo.Y] && bo.X == countP) {
							okExit = true
						}
						if x, _, ok := nilTest(ifi.Cond); ok && errVals[x] {
							okExit = true
						}
					}
					if !okExit {
						// an exit that goes straight to a return carrying a definite error is an error exit too
						// (the retry budget returning io.ErrNoProgress instead of storing it in the loop's error variable)
						allErr := true
						for _, sx := range lb.Succs {
							if loop[sx] {
								continue
							}
							ret, isRet := sx.Instrs[len(sx.Instrs)-1].(*ssa.Return)
							if !isRet {
								allErr = false
								continue
							}
							rv := rvals(ret)
							if len(rv) == 0 || !isErrType(rv[len(rv)-1].Type()) || retMayBeNil(ret, len(rv)-1) {
								allErr = false
							}
						}
						okExit = allErr
					}
					if !okExit {
						strayExit = p.IPos(ifi)
					}
				}
				// the error of each Read is looked at before the next Read: no way around the loop (or out of the
				// function) on which the value is neither tested, stored, returned nor carried into the loop's error variable
				if usesErr {
					var errEx ssa.Value
					for _, ref := range *cv.Referrers() {
						if ex, ok := ref.(*ssa.Extract); ok && ex.Index == 1 {
							errEx = ex
						}
					}
					if dropAt, dropped := errorDroppedOnSomePath(i, errEx); dropped {
						r.fail(fname+"#underlying.Read#error-dropped", p.IPos(dropAt), "there is a path from the underlying Read to the next Read (or to the end of the refill) on which the error it returned is neither tested nor kept: a source that delivers bytes together with an error, and does not repeat the error, has that error swallowed and the stream decodes as if nothing happened")
					} else {
						r.ok(fname+": the error of every underlying Read is examined or kept before the next Read", p.IPos(i))
					}
				}
				// a retry budget for reads that return (0, nil) counts *consecutive* empty reads: the counter goes back to 0
				// on the edge taken when bytes arrived (otherwise a slow but progressing source is cut off)
				budgetResetCheck(p, r, f, fname, cv, loop)
				if usesN && usesErr && satisfied && strayExit != "" {
					r.fail(fname+"#underlying.Read#stray-exit", strayExit, "the refill loop has an exit that is decided neither by the number of bytes obtained versus requested nor by an error of the source: after some sequence of short reads it stops early and leaves a partial 64-bit word in mid-stream")
				} else if usesN && usesErr && satisfied {
					r.ok(fname+" refills in a loop around the underlying Read until the requested count is reached or an error occurs", p.IPos(i))
				} else if usesN && usesErr {
					r.fail(fname+"#underlying.Read", p.IPos(i), "the refill loop is not controlled by a comparison of the bytes obtained with the bytes requested: it can stop after a short read and leave a partial 64-bit word in mid-stream")
				} else {
					r.fail(fname+"#underlying.Read", p.IPos(i), "refill loop ignores the byte count or the error of the underlying Read")
				}
			}
		})
	}
	r.floor(1, n, "underlying read sites in readFromInputStream")
}

// typeBits returns the bit size of a basic integer type (0 if unknown).
func typeBits(t types.Type) int {
	b, ok := t.Underlying().(*types.Basic)
	if !ok {
		return 0
	}
	switch b.Kind() {
	case types.Int8, types.Uint8:
		return 8
	case types.Int16, types.Uint16:
		return 16
	case types.Int32, types.Uint32:
		return 32
	case types.Int64, types.Uint64, types.Int, types.Uint, types.Uintptr:
		return 64
	}
	return 0
}

// hasherFields: fields of the task struct whose type is a pointer to a type of package hash with a Hash method.
func hasherFields(p *Prog, s *taskSide) []*types.Var {
	var out []*types.Var
	st := s.taskT.Underlying().(*types.Struct)
	for i := 0; i < st.NumFields(); i++ {
		f := st.Field(i)
		n := namedOf(f.Type())
		if n == nil || n.Obj().Pkg() == nil || n.Obj().Pkg().Path() != p.ModPath+"/hash" {
			continue
		}
		out = append(out, f)
	}
	return out
}

// hashCallOn: i is a call of method Hash on a value loaded from hasher field hf.
func hashCallOn(i ssa.Instruction, hf *types.Var) *ssa.Call {
	c, ok := i.(*ssa.Call)
	if !ok {
		return nil
	}
	o := calleeObj(&c.Call)
	if o == nil || o.Name() != "Hash" {
		return nil
	}
	var recv ssa.Value
	if c.Call.IsInvoke() {
		recv = c.Call.Value
	} else if len(c.Call.Args) > 0 {
		recv = c.Call.Args[0]
	}
	if recv == nil || fieldVarOfLoad(recv) != hf {
		return nil
	}
	return c
}

// stripWiden strips conversions that do not lose bits.
func stripWiden(v ssa.Value) ssa.Value {
	for {
		cv, ok := v.(*ssa.Convert)
		if !ok {
			return v
		}
		if typeBits(cv.Type()) == 0 || typeBits(cv.X.Type()) == 0 || typeBits(cv.Type()) < typeBits(cv.X.Type()) {
			return v
		}
		v = cv.X
	}
}

func ruleCksum(p *Prog, r *RuleResult) {
	// ---------------- decode ----------------
	s := resolveSide(p, "Reader")
	f := s.fn
	fname := p.FnName(f)
	var inv *ssa.Call
	eachInstr(f, func(i ssa.Instruction) {
		if c, ok := i.(*ssa.Call); ok {
			if o := calleeObj(&c.Call); o != nil && o.Name() == "Inverse" {
				if n := namedOf(o.Type().(*types.Signature).Recv().Type()); n != nil && n.Obj().Pkg().Path() == p.ModPath+"/transform" {
					inv = c
				}
			}
		}
	})
	if inv == nil {
		undecided("anchor unresolved: no call of transform Inverse in %s", fname)
	}
	// success edge of Inverse: nil test on extract #2
	var invOK *ssa.BasicBlock
	var invErr ssa.Value
	for _, ref := range *inv.Referrers() {
		if ex, ok := ref.(*ssa.Extract); ok && types.Identical(ex.Type(), types.Universe.Lookup("error").Type()) {
			invErr = ex
		}
	}
	for _, b := range f.Blocks {
		if ifi := blockIf(b); ifi != nil {
			if x, succ, ok := nilTest(ifi.Cond); ok && x == invErr && invErr != nil {
				invOK = b.Succs[1-succ]
			}
		}
	}
	if invOK == nil {
		r.fail(fname+"#inverse-error-test", p.IPos(inv), "the error of the inverse transform is not tested")
		return
	}
	dst := inv.Call.Args[len(inv.Call.Args)-1]
	errStores := map[ssa.Instruction]bool{}
	eachInstr(f, func(i ssa.Instruction) {
		if st, ok := i.(*ssa.Store); ok && fieldVarOfAddr(st.Addr) == s.errField && !isNilConst(st.Val) {
			errStores[i] = true
		}
	})
	hfs := hasherFields(p, s)
	if len(hfs) == 0 {
		undecided("no hasher fields in %s", s.taskT)
	}
	// header cell: Alloc whose stores are {0, ReadBits(w)} on the task-local stream
	headerWidths := func(v ssa.Value) map[int64]bool {
		u, ok := v.(*ssa.UnOp)
		if !ok || u.Op != token.MUL {
			return nil
		}
		cell, ok := u.X.(*ssa.Alloc)
		if !ok {
			return nil
		}
		ws := map[int64]bool{}
		for _, ref := range *cell.Referrers() {
			st, ok := ref.(*ssa.Store)
			if !ok || st.Addr != cell {
				continue
			}
			if isZeroConst(st.Val) {
				continue
			}
			c, ok := st.Val.(*ssa.Call)
			if !ok {
				return nil
			}
			if _, isOp := isBitstreamOp(p, &c.Call); !isOp || calleeObj(&c.Call).Name() != "ReadBits" {
				return nil
			}
			w, ok := constInt(c.Call.Args[len(c.Call.Args)-1])
			if !ok {
				return nil
			}
			ws[w] = true
		}
		return ws
	}
	equalEdges := map[edge]bool{}
	nHash := 0
	// the verification may have been extracted into a helper of decode (verifyChecksum(data, decoded, checksum)):
	// then the comparison obligations are checked inside the helper and the must-pass-through on its call.
	if vh, vcall := verifyHelper(p, s, f, inv, hfs); vh != nil {
		nHash += cksumViaHelper(p, r, s, f, inv, invOK, dst, errStores, hfs, vh, vcall, headerWidths)
		goto encodeSide
	}
	for _, hf := range hfs {
		var calls []*ssa.Call
		eachInstr(f, func(i ssa.Instruction) {
			if c := hashCallOn(i, hf); c != nil && instrReaches(inv, c) {
				calls = append(calls, c)
			}
		})
		key := fmt.Sprintf("%s#verify.%s", fname, hf.Name())
		if len(calls) == 0 {
			r.fail(key, p.IPos(inv), fmt.Sprintf("the decoded block is never hashed with %s after the inverse transform: damage is not detected", hf.Name()))
			continue
		}
		for _, hc := range calls {
			nHash++
			bits := typeBits(hc.Type())
			// data argument: slice of the Inverse destination
			arg := hc.Call.Args[len(hc.Call.Args)-1]
			okData := false
			if sl, ok := arg.(*ssa.Slice); ok && sl.X == dst {
				okData = true
			}
			if !okData {
				r.fail(key+"#data", p.IPos(hc), "the verification hash is not computed over the buffer the inverse transform wrote to")
				continue
			}
			found := false
			for _, ref := range *hc.Referrers() {
				bo, ok := ref.(*ssa.BinOp)
				if !ok || (bo.Op != token.EQL && bo.Op != token.NEQ) {
					continue
				}
				other := bo.Y
				if bo.Y == ssa.Value(hc) {
					other = bo.X
				}
				// header side: load of the header cell, optionally narrowed to the hash width
				hv := other
				if cv, ok := hv.(*ssa.Convert); ok && typeBits(cv.Type()) == bits {
					hv = cv.X
				}
				ws := headerWidths(hv)
				if ws == nil || !ws[int64(bits)] {
					continue
				}
				for _, rr := range *bo.Referrers() {
					ifi, ok := rr.(*ssa.If)
					if !ok {
						continue
					}
					atom, pos := condAtom(ifi.Cond)
					if atom != ssa.Value(bo) {
						continue
					}
					eqSucc := succFor(pos, bo.Op == token.EQL)
					mism := ifi.Block().Succs[1-eqSucc]
					if len(errStores) > 0 && allPathsThrough(f, mism, 0, errStores) {
						found = true
						equalEdges[edge{ifi.Block(), eqSucc}] = true
						r.ok(fmt.Sprintf("%s: %d-bit hash compared un-narrowed with the %d-bit header field; mismatch edge always sets the task error", key, bits, bits), p.IPos(ifi))
					} else {
						r.fail(key+"#mismatch-edge", p.IPos(ifi), "a checksum mismatch does not always set the task error: the damaged block is delivered as a success")
						found = true
					}
				}
			}
			if !found {
				r.fail(key+"#compare", p.IPos(hc), fmt.Sprintf("the %d-bit hash of the decoded block is not compared at full width with the value read from the block header (narrowed or missing comparison)", bits))
			}
		}
	}
	// must-pass-through: a decode task may end without an error only (a) because it saw the cancel value, (b) read
	// the end marker, (c) skipped an out-of-range block, or (d) passed the comparison of every hasher that is set.
	// For each hasher field: cutting the cancel / end-marker edges, the equal edges and the nil edge of the hasher's
	// tests, and avoiding the blocks that mark a skip or store an error, no return is reachable from the entry.
	{
		da := analyseDecode(p)
		for _, hf := range hfs {
			cut := map[edge]bool{}
			for e := range equalEdges {
				cut[e] = true
			}
			for _, e := range da.cancelEdge {
				cut[e] = true
			}
			for _, e := range da.endEdge {
				cut[e] = true
			}
			ntest := 0
			for _, b := range f.Blocks {
				if ifi := blockIf(b); ifi != nil {
					if x, succ, ok := nilTest(ifi.Cond); ok && fieldVarOfLoad(x) == hf && instrReaches(inv, ifi) {
						cut[edge{b, 1 - succ}] = true
						ntest++
					}
				}
			}
			avoid := map[*ssa.BasicBlock]bool{}
			for st := range errStores {
				avoid[st.Block()] = true
			}
			for _, st := range da.skipStores {
				avoid[st.Block()] = true
			}
			bad := false
			for b := range reach(f.Blocks[0], cut, avoid) {
				if b == f.Recover {
					continue
				}
				if ret, ok := b.Instrs[len(b.Instrs)-1].(*ssa.Return); ok {
					bad = true
					r.fail(fmt.Sprintf("%s#bypass.%s", fname, hf.Name()), p.IPos(ret), fmt.Sprintf("a decode task can finish without an error on a path that is neither cancel, end marker nor range skip and that does not pass the %s comparison although the hasher may be set: the checksum can be bypassed (a damaged block is delivered as a success)", hf.Name()))
					break
				}
			}
			if !bad {
				r.ok(fmt.Sprintf("%s: every clean exit that delivers a block passes the %s comparison or sees the hasher nil (%d nil tests)", fname, hf.Name(), ntest), p.IPos(inv))
			}
		}
	}

encodeSide:
	// ---------------- encode ----------------
	ws := resolveSide(p, "Writer")
	ef := ws.fn
	ename := p.FnName(ef)
	var fwd *ssa.Call
	eachInstr(ef, func(i ssa.Instruction) {
		if c, ok := i.(*ssa.Call); ok {
			if o := calleeObj(&c.Call); o != nil && o.Name() == "Forward" {
				fwd = c
			}
		}
	})
	if fwd == nil {
		undecided("anchor unresolved: no Forward call in %s", ename)
	}
	for _, hf := range hasherFields(p, ws) {
		key := fmt.Sprintf("%s#checksum.%s", ename, hf.Name())
		var hc *ssa.Call
		eachInstr(ef, func(i ssa.Instruction) {
			if c := hashCallOn(i, hf); c != nil {
				hc = c
			}
		})
		if hc == nil {
			// computed in a helper of encode? then the flow of its result into the header write is not followed here
			reloc := false
			for _, h := range p.helperClosure(ef) {
				eachInstr(h, func(i ssa.Instruction) {
					if hashCallOn(i, hf) != nil {
						reloc = true
					}
				})
			}
			if reloc {
				nHash++
				r.info(key+": the block hash is computed in a helper of encode; the clause 'the hash of the original block is what is written' is NOT DECIDED on this tree (relocated code)", p.Pos(ef.Pos()))
			} else {
				r.fail(key, p.Pos(ef.Pos()), "the block is never hashed on the encode side")
			}
			continue
		}
		nHash++
		if instrReaches(fwd, hc) {
			r.fail(key+"#order", p.IPos(hc), "the block hash is computed after the forward transform (on a buffer the transform may have consumed), not on the original data")
			continue
		}
		// hashed data: slice of the input buffer, the same value passed as src to Forward
		arg := hc.Call.Args[len(hc.Call.Args)-1]
		src := fwd.Call.Args[len(fwd.Call.Args)-2]
		base := func(v ssa.Value) ssa.Value {
			for {
				switch x := v.(type) {
				case *ssa.Slice:
					v = x.X
				case *ssa.Phi:
					// data may be re-assigned after append: take first edge that is a load
					v = x.Edges[0]
				default:
					return v
				}
			}
		}
		if base(arg) != base(src) {
			r.fail(key+"#data", p.IPos(hc), "the hash is not computed over the block handed to the forward transform")
			continue
		}
		bits := typeBits(hc.Type())
		// WriteBits(value, bits) with value derived (widening only) from hc
		wrote := false
		eachInstr(ef, func(i ssa.Instruction) {
			c, ok := i.(*ssa.Call)
			if !ok {
				return
			}
			if _, isOp := isBitstreamOp(p, &c.Call); !isOp || calleeObj(&c.Call).Name() != "WriteBits" {
				return
			}
			n := len(c.Call.Args)
			w, okw := constInt(c.Call.Args[n-1])
			if !okw {
				return
			}
			if !derivesFromWiden(c.Call.Args[n-2], hc, 0) {
				return
			}
			// guarded by hf != nil
			guarded := false
			for _, b := range ef.Blocks {
				if ifi := blockIf(b); ifi != nil {
					if x, succ, ok := nilTest(ifi.Cond); ok && fieldVarOfLoad(x) == hf && edgeDominates(ef, edge{b, succ}, c.Block()) {
						guarded = true
					}
				}
			}
			if !guarded {
				return
			}
			if int(w) == bits {
				wrote = true
				r.ok(fmt.Sprintf("%s: hash of the original block written with %d bits", key, bits), p.IPos(c))
			} else {
				r.fail(key+"#width", p.IPos(c), fmt.Sprintf("the %d-bit block hash is written with %d bits", bits, w))
				wrote = true
			}
		})
		if !wrote {
			r.fail(key+"#write", p.IPos(hc), "the block hash is never written to the block header under its hasher guard")
		}
	}
	r.floor(4, nHash, "hash call sites (2 decode + 2 encode)")
}

// derivesFromWiden: v is target, or a phi/widening-convert chain that includes target.
func derivesFromWiden(v ssa.Value, target ssa.Value, d int) bool {
	if d > 6 {
		return false
	}
	if v == target {
		return true
	}
	switch x := v.(type) {
	case *ssa.Convert:
		if typeBits(x.Type()) >= typeBits(x.X.Type()) && typeBits(x.X.Type()) > 0 {
			return derivesFromWiden(x.X, target, d+1)
		}
	case *ssa.Phi:
		for _, e := range x.Edges {
			if derivesFromWiden(e, target, d+1) {
				return true
			}
		}
	}
	return false
}

// errEdgeReturnsError: in the result scan of a processBlock, the non-nil edge of the test of a task's error leads
// only to returns that carry a non-nil error.
func errEdgeReturnsError(p *Prog, r *RuleResult, f *ssa.Function, errField *types.Var) {
	fname := p.FnName(f)
	n := 0
	for _, b := range f.Blocks {
		ifi := blockIf(b)
		if ifi == nil {
			continue
		}
		x, succ, ok := nilTest(ifi.Cond)
		if !ok || fieldVarOfLoad(x) != errField {
			continue
		}
		n++
		bad := false
		for rb := range reach(b.Succs[succ], nil, nil) {
			if rb == f.Recover {
				continue
			}
			if ret, ok := rb.Instrs[len(rb.Instrs)-1].(*ssa.Return); ok {
				ev := rvals(ret)[len(ret.Results)-1]
				nonNil := !mayBeNil(ev, 0)
				if !nonNil {
					// returning the tested value itself on its non-nil edge
					if stripConv(ev) == x || fieldVarOfLoad(stripConv(ev)) == errField {
						nonNil = true
					}
				}
				if !nonNil {
					bad = true
					r.fail(fname+"#task-error-swallowed", p.IPos(ret), "after a task reported an error, processBlock can still return without an error (the failed block's error is dropped; the caller sees a short success and then a clean end of stream)")
					break
				}
			}
		}
		if !bad {
			r.ok(fname+": the err != nil edge of the result scan reaches only error returns", p.IPos(ifi))
		}
	}
	if n == 0 {
		r.fail(fname+"#task-error-test", p.Pos(f.Pos()), "processBlock never tests the error of a task result")
	}
}

// verifyHelper: a helper of decode, called after Inverse, that contains the Hash calls of the hasher fields (none of
// which is called in decode itself).
func verifyHelper(p *Prog, s *taskSide, f *ssa.Function, inv *ssa.Call, hfs []*types.Var) (*ssa.Function, *ssa.Call) {
	inDecode := false
	eachInstr(f, func(i ssa.Instruction) {
		for _, hf := range hfs {
			if hashCallOn(i, hf) != nil {
				inDecode = true
			}
		}
	})
	if inDecode {
		return nil, nil
	}
	for _, h := range p.helperClosure(f) {
		has := false
		eachInstr(h, func(i ssa.Instruction) {
			for _, hf := range hfs {
				if hashCallOn(i, hf) != nil {
					has = true
				}
			}
		})
		if !has {
			continue
		}
		var call *ssa.Call
		eachInstr(f, func(i ssa.Instruction) {
			if c, ok := i.(*ssa.Call); ok && c.Call.StaticCallee() == h && instrReaches(inv, c) {
				call = c
			}
		})
		if call != nil {
			return h, call
		}
	}
	return nil, nil
}

func cksumViaHelper(p *Prog, r *RuleResult, s *taskSide, f *ssa.Function, inv *ssa.Call, invOK *ssa.BasicBlock, dst ssa.Value,
	errStores map[ssa.Instruction]bool, hfs []*types.Var, vh *ssa.Function, vcall *ssa.Call, headerWidths func(ssa.Value) map[int64]bool) int {
	fname, vname := p.FnName(f), p.FnName(vh)
	nHash := 0
	// bind parameters
	arg := func(prm ssa.Value) ssa.Value {
		for i, q := range vh.Params {
			if ssa.Value(q) == prm && i < len(vcall.Call.Args) {
				return vcall.Call.Args[i]
			}
		}
		return nil
	}
	baseOf := func(v ssa.Value) ssa.Value {
		for {
			if sl, ok := v.(*ssa.Slice); ok {
				v = sl.X
				continue
			}
			return v
		}
	}
	helperEqual := map[edge]bool{}
	for _, hf := range hfs {
		key := fmt.Sprintf("%s#verify.%s", vname, hf.Name())
		var calls []*ssa.Call
		eachInstr(vh, func(i ssa.Instruction) {
			if c := hashCallOn(i, hf); c != nil {
				calls = append(calls, c)
			}
		})
		if len(calls) == 0 {
			r.fail(key, p.IPos(vcall), fmt.Sprintf("the decoded block is never hashed with %s: damage is not detected", hf.Name()))
			continue
		}
		for _, hc := range calls {
			nHash++
			bits := typeBits(hc.Type())
			dataPrm := baseOf(hc.Call.Args[len(hc.Call.Args)-1])
			a := arg(dataPrm)
			if a == nil || baseOf(a) != baseOf(dst) {
				r.fail(key+"#data", p.IPos(hc), "the verification hash is not computed over the buffer the inverse transform wrote to")
				continue
			}
			found := false
			for _, ref := range *hc.Referrers() {
				bo, ok := ref.(*ssa.BinOp)
				if !ok || (bo.Op != token.EQL && bo.Op != token.NEQ) {
					continue
				}
				other := bo.Y
				if bo.Y == ssa.Value(hc) {
					other = bo.X
				}
				hv := other
				if cv, ok := hv.(*ssa.Convert); ok && typeBits(cv.Type()) == bits {
					hv = cv.X
				}
				ha := arg(hv)
				if ha == nil {
					continue
				}
				ws := headerWidths(ha)
				if ws == nil || !ws[int64(bits)] {
					continue
				}
				for _, rr := range *bo.Referrers() {
					ifi, ok := rr.(*ssa.If)
					if !ok {
						continue
					}
					atom, pos := condAtom(ifi.Cond)
					if atom != ssa.Value(bo) {
						continue
					}
					eqSucc := succFor(pos, bo.Op == token.EQL)
					mism := ifi.Block().Succs[1-eqSucc]
					okErr := true
					for rb := range reach(mism, nil, nil) {
						if ret, ok := rb.Instrs[len(rb.Instrs)-1].(*ssa.Return); ok && rb != vh.Recover && retMayBeNil(ret, len(ret.Results)-1) {
							okErr = false
						}
					}
					found = true
					if okErr {
						helperEqual[edge{ifi.Block(), eqSucc}] = true
						r.ok(fmt.Sprintf("%s: %d-bit hash compared un-narrowed with the %d-bit header field; a mismatch returns an error", key, bits, bits), p.IPos(ifi))
					} else {
						r.fail(key+"#mismatch-edge", p.IPos(ifi), "a checksum mismatch does not always make the verification helper return an error")
					}
				}
			}
			if !found {
				r.fail(key+"#compare", p.IPos(hc), fmt.Sprintf("the %d-bit hash of the decoded block is not compared at full width with the value read from the block header (narrowed or missing comparison)", bits))
			}
		}
	}
	// inside the helper: a nil return is reachable only through an equal edge or with the hasher nil
	for _, hf := range hfs {
		cut := map[edge]bool{}
		for e := range helperEqual {
			cut[e] = true
		}
		for _, b := range vh.Blocks {
			if ifi := blockIf(b); ifi != nil {
				if x, succ, ok := nilTest(ifi.Cond); ok && fieldVarOfLoad(x) == hf {
					cut[edge{b, 1 - succ}] = true
				}
			}
		}
		bad := false
		for b := range reach(vh.Blocks[0], cut, nil) {
			if ret, ok := b.Instrs[len(b.Instrs)-1].(*ssa.Return); ok && b != vh.Recover && retMayBeNil(ret, len(ret.Results)-1) {
				bad = true
				r.fail(fmt.Sprintf("%s#bypass.%s", vname, hf.Name()), p.IPos(ret), fmt.Sprintf("the verification helper can report success without passing the %s comparison although the hasher may be set", hf.Name()))
				break
			}
		}
		if !bad {
			r.ok(fmt.Sprintf("%s: success is returned only after the %s comparison or with the hasher nil", vname, hf.Name()), p.Pos(vh.Pos()))
		}
	}
	// in decode: the helper's verdict cannot be bypassed and its error is stored
	ifi, succ, ok := errEdgeOf(vcall)
	if !ok {
		r.fail(fname+"#verify-result", p.IPos(vcall), "the result of the checksum verification is not tested")
		return nHash
	}
	if len(errStores) == 0 || !allPathsThrough(f, ifi.Block().Succs[succ], 0, errStores) {
		r.fail(fname+"#verify-result", p.IPos(ifi), "a failed checksum verification does not always set the task error")
	} else {
		r.ok(fname+": a failed verification always sets the task error", p.IPos(ifi))
	}
	cut := map[edge]bool{{ifi.Block(), 1 - succ}: true}
	avoid := map[*ssa.BasicBlock]bool{}
	for st := range errStores {
		avoid[st.Block()] = true
	}
	bad := false
	for b := range reach(invOK, cut, avoid) {
		if ret, ok := b.Instrs[len(b.Instrs)-1].(*ssa.Return); ok && b != f.Recover {
			bad = true
			r.fail(fname+"#bypass", p.IPos(ret), "a clean exit of decode after the inverse transform is reachable without passing the checksum verification")
			break
		}
	}
	if !bad {
		r.ok(fname+": every clean exit after Inverse passes the verification helper", p.IPos(vcall))
	}
	return nHash
}

// errorDroppedOnSomePath: from call (whose error result is errv) there is a path back to the call, or to a return,
// on which errv is not used: not by an instruction (test, store, return, call argument, interface conversion) and
// not by being the incoming value of a phi on the edge taken. Returns the position where the unexamined path ends.
func errorDroppedOnSomePath(call ssa.Instruction, errv ssa.Value) (ssa.Instruction, bool) {
	if errv == nil {
		return nil, false
	}
	useInstr := map[ssa.Instruction]bool{}
	for _, ref := range *errv.Referrers() {
		if _, isPhi := ref.(*ssa.Phi); isPhi {
			continue
		}
		if _, isDbg := ref.(*ssa.DebugRef); isDbg {
			continue
		}
		// a comparison feeds an If: the If's block is where it is examined
		useInstr[ref] = true
	}
	carried := func(from, to *ssa.BasicBlock) bool {
		for _, in := range to.Instrs {
			ph, ok := in.(*ssa.Phi)
			if !ok {
				break
			}
			for pi, pr := range to.Preds {
				if pr == from && ph.Edges[pi] == errv {
					return true
				}
			}
		}
		return false
	}
	type st struct {
		b   *ssa.BasicBlock
		idx int
	}
	start := st{call.Block(), instrIndex(call) + 1}
	seen := map[*ssa.BasicBlock]bool{}
	var dfs func(s st) (ssa.Instruction, bool)
	dfs = func(s st) (ssa.Instruction, bool) {
		for k := s.idx; k < len(s.b.Instrs); k++ {
			in := s.b.Instrs[k]
			if useInstr[in] {
				return nil, false
			}
			if in == call {
				return in, true
			}
			if ret, ok := in.(*ssa.Return); ok {
				return ret, true
			}
		}
		for _, sc := range s.b.Succs {
			if carried(s.b, sc) {
				continue
			}
			if sc == call.Block() {
				// re-entering the block of the call: scan up to the call
				hit := false
				for _, in := range sc.Instrs {
					if useInstr[in] {
						hit = true
						break
					}
					if in == call {
						return in, true
					}
				}
				if hit {
					continue
				}
			}
			if seen[sc] {
				continue
			}
			seen[sc] = true
			if pos, bad := dfs(st{sc, 0}); bad {
				return pos, true
			}
		}
		return nil, false
	}
	return dfs(start)
}

// budgetResetCheck: see the call site in ruleRefill.
func budgetResetCheck(p *Prog, r *RuleResult, f *ssa.Function, fname string, cv ssa.Value, loop map[*ssa.BasicBlock]bool) {
	var nEx ssa.Value
	for _, ref := range *cv.Referrers() {
		if ex, ok := ref.(*ssa.Extract); ok && ex.Index == 0 {
			nEx = ex
		}
	}
	if nEx == nil {
		return
	}
	var progress []edge
	for lb := range loop {
		ifi := blockIf(lb)
		if ifi == nil {
			continue
		}
		atom, pos := condAtom(ifi.Cond)
		bo, ok := atom.(*ssa.BinOp)
		if !ok || stripConv(bo.X) != nEx {
			continue
		}
		c, okc := constInt(bo.Y)
		if !okc {
			continue
		}
		switch {
		case bo.Op == token.GTR && c == 0, bo.Op == token.NEQ && c == 0, bo.Op == token.GEQ && c == 1:
			progress = append(progress, edge{lb, succFor(pos, true)})
		case bo.Op == token.EQL && c == 0, bo.Op == token.LEQ && c == 0, bo.Op == token.LSS && c == 1:
			progress = append(progress, edge{lb, succFor(pos, false)})
		}
	}
	if len(progress) == 0 {
		return
	}
	done := map[ssa.Value]bool{}
	var blocks []*ssa.BasicBlock
	for lb := range loop {
		blocks = append(blocks, lb)
	}
	sort.Slice(blocks, func(i, j int) bool { return blocks[i].Index < blocks[j].Index })
	for _, lb := range blocks {
		for _, in := range lb.Instrs {
			ph, ok := in.(*ssa.Phi)
			if !ok {
				break
			}
			if done[ph] {
				continue
			}
			fam := map[ssa.Value]bool{}
			var growF func(v ssa.Value, d int)
			growF = func(v ssa.Value, d int) {
				if v == nil || fam[v] || d > 8 {
					return
				}
				switch x := v.(type) {
				case *ssa.Phi:
					fam[v] = true
					for _, e := range x.Edges {
						growF(e, d+1)
					}
				case *ssa.BinOp:
					if x.Op == token.ADD {
						if c, ok := constInt(x.Y); ok && c == 1 {
							fam[v] = true
							growF(x.X, d+1)
						}
					}
				}
			}
			growF(ph, 0)
			for v := range fam {
				done[v] = true
			}
			selfInc, budget := false, false
			for v := range fam {
				if add, ok := v.(*ssa.BinOp); ok && fam[add.X] {
					selfInc = true
				}
				if refs := v.Referrers(); refs != nil {
					for _, ref := range *refs {
						if cmp, ok := ref.(*ssa.BinOp); ok && (cmp.Op == token.GEQ || cmp.Op == token.GTR || cmp.Op == token.EQL) {
							if c, ok := constInt(cmp.Y); ok && c >= 2 && cmp.X == v {
								budget = true
							}
						}
					}
				}
			}
			if !selfInc || !budget {
				continue
			}
			reset := false
			for v := range fam {
				p2, ok := v.(*ssa.Phi)
				if !ok {
					continue
				}
				for pi, e := range p2.Edges {
					if c, ok := constInt(e); ok && c == 0 {
						pred := p2.Block().Preds[pi]
						for _, pe := range progress {
							if edgeDominates(f, pe, pred) || (pe.from == pred && pred.Succs[pe.succ] == p2.Block()) {
								reset = true
							}
						}
					}
				}
			}
			if reset {
				r.ok(fname+": the empty-read budget counts consecutive empty reads (reset when bytes arrive)", p.IPos(ph))
			} else {
				r.fail(fname+"#underlying.Read#budget-not-reset", p.IPos(ph), "the counter of empty reads that ends the refill with io.ErrNoProgress is not reset when a read delivers bytes: it counts all empty reads of a refill, so a source that delivers small pieces with occasional (0, nil) results - legal for an io.Reader - is cut off although it makes progress")
			}
			return
		}
	}
}

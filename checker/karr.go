package main

// Intraprocedural affine-equality analysis of the methods of one struct type over go/ssa, with
// inlining of same-receiver helper methods and modular use of specifications for the exported
// counter-advancing operations. Used by R-BITCOUNT.
//
// Model (stated in the evidence as assumptions):
//   A1  integer conversions and arithmetic do not wrap (int/uint/int64 are treated as mathematical integers);
//   A2  the integer fields of the receiver are only written through the receiver inside its own methods
//       (checked: the struct type is unexported-field only and no FieldAddr of it escapes a load/store);
//   A3  calls that do not have the receiver as their receiver (sink/source, copy, encoding/binary) do not
//       change the receiver's integer fields.
// Inequality guards are ignored (sound over-approximation); equality guards and "unsigned <= 0" refine.

import (
	"fmt"
	"os"
	"go/token"
	"go/types"
	"sort"

	"golang.org/x/tools/go/ssa"
)

type kvalKey struct {
	ctx int
	v   ssa.Value
	idx int
}

type kspec struct {
	bitsParam int  // index into Params (incl. receiver) holding the bit count; -1: constant
	bitsConst int64
	retIsBits bool
}

type kret struct {
	ret *ssa.Return
	st  *space
	ctx int
}

type karr struct {
	p         *Prog
	T         *types.Named
	st        *types.Struct
	fieldVar  map[int]int
	entryVar  map[int]int
	nvars     int
	free      []int
	vals      map[kvalKey]int
	byCtx     map[int][]kvalKey
	nextCtx   int
	specs     map[string]kspec
	G         lin
	haveG     bool
	stack     []*ssa.Function
	notes     map[string]bool
	unsup     map[string]bool
	steps     int
	forks     []*space
	benefit   bool // unknown values are taken as 0 instead of free (used only to classify a failed proof)
}

func isIntType(t types.Type) bool {
	b, ok := t.Underlying().(*types.Basic)
	return ok && b.Info()&types.IsInteger != 0
}

// error values are tracked by their nil-ness: 0 = nil, 1 = non-nil
func isErrT(t types.Type) bool { return types.Identical(t, errorType) }

func tracked(t types.Type) bool { return isIntType(t) || isErrT(t) }

// structInts: the integer fields of a plain struct value type (snapshot structs); nil for anything else
func (k *karr) structInts(t types.Type) []int {
	n := namedOf(t)
	if n != nil && n.Obj() == k.T.Obj() {
		return nil
	}
	if _, isPtr := t.Underlying().(*types.Pointer); isPtr {
		return nil
	}
	st, ok := t.Underlying().(*types.Struct)
	if !ok {
		return nil
	}
	var out []int
	for i := 0; i < st.NumFields(); i++ {
		if isIntType(st.Field(i).Type()) {
			out = append(out, i)
		}
	}
	return out
}

const kStructBase = 100

func localStructCell(a *ssa.Alloc) bool {
	for _, r := range *a.Referrers() {
		switch x := r.(type) {
		case *ssa.Store:
			if x.Addr != ssa.Value(a) {
				return false
			}
		case *ssa.UnOp:
			if x.Op != token.MUL {
				return false
			}
		case *ssa.FieldAddr:
			for _, rr := range *x.Referrers() {
				switch y := rr.(type) {
				case *ssa.Store:
					if y.Addr != ssa.Value(x) {
						return false
					}
				case *ssa.UnOp:
				case *ssa.DebugRef:
				default:
					return false
				}
			}
		case *ssa.DebugRef:
		default:
			return false
		}
	}
	return true
}

// copyStruct: dst.(i) := src.(i) for every integer field
func (k *karr) copyStruct(s *space, dctx int, dst ssa.Value, sctx int, src ssa.Value, fields []int) {
	for _, i := range fields {
		if x, ok := k.vals[kvalKey{sctx, src, kStructBase + i}]; ok {
			k.setVal(s, dctx, dst, kStructBase+i, linVar(x), true)
		} else {
			k.setVal(s, dctx, dst, kStructBase+i, lin{}, false)
		}
	}
}

func isUnsigned(t types.Type) bool {
	b, ok := t.Underlying().(*types.Basic)
	return ok && b.Info()&types.IsUnsigned != 0
}

func newKarr(p *Prog, T *types.Named) *karr {
	k := &karr{p: p, T: T, fieldVar: map[int]int{}, entryVar: map[int]int{}, vals: map[kvalKey]int{}, byCtx: map[int][]kvalKey{},
		specs: map[string]kspec{}, notes: map[string]bool{}, unsup: map[string]bool{}}
	k.st, _ = T.Underlying().(*types.Struct)
	if k.st != nil {
		for i := 0; i < k.st.NumFields(); i++ {
			if isIntType(k.st.Field(i).Type()) {
				k.fieldVar[i] = k.newVar()
			}
		}
		for i := range k.fieldVar {
			k.entryVar[i] = k.newVar()
		}
	}
	return k
}

func (k *karr) newVar() int {
	if n := len(k.free); n > 0 {
		v := k.free[n-1]
		k.free = k.free[:n-1]
		return v
	}
	k.nvars++
	return k.nvars - 1
}

func (k *karr) varOf(ctx int, v ssa.Value, idx int) int {
	key := kvalKey{ctx, v, idx}
	if x, ok := k.vals[key]; ok {
		return x
	}
	x := k.newVar()
	k.vals[key] = x
	k.byCtx[ctx] = append(k.byCtx[ctx], key)
	return x
}

func (k *karr) releaseCtx(ctx int, s *space) {
	for _, key := range k.byCtx[ctx] {
		x := k.vals[key]
		if s != nil && !s.bot {
			s.grow(k.nvars)
			s.forget(x)
		}
		delete(k.vals, key)
		k.free = append(k.free, x)
	}
	delete(k.byCtx, ctx)
}

func (k *karr) sortedFields() []int {
	var fs []int
	for i := range k.fieldVar {
		fs = append(fs, i)
	}
	sort.Ints(fs)
	return fs
}

// entryState: every field free, entry copies equal to the fields
func (k *karr) entryState() *space {
	s := newSpace(k.nvars)
	for _, i := range k.sortedFields() {
		s.havoc(k.fieldVar[i])
		s.assign(k.entryVar[i], linVar(k.fieldVar[i]))
	}
	return s
}

// lx: linear expression of an integer SSA value in context ctx
func (k *karr) lx(ctx int, v ssa.Value) (lin, bool) {
	if c, ok := v.(*ssa.Const); ok {
		if c.Value == nil && isErrT(c.Type()) {
			return linConst(0), true
		}
		if c.Value == nil || !isIntType(c.Type()) {
			return lin{}, false
		}
		if i, ok := constInt(c); ok {
			if i > 1<<40 || i < -(1<<40) {
				return lin{}, false
			}
			return linConst(i), true
		}
		return lin{}, false
	}
	if !tracked(v.Type()) {
		return lin{}, false
	}
	if x, ok := k.vals[kvalKey{ctx, v, -1}]; ok {
		return linVar(x), true
	}
	return lin{}, false
}

func (k *karr) isThisField(this ssa.Value, addr ssa.Value) (int, bool) {
	fa, ok := addr.(*ssa.FieldAddr)
	if !ok || fa.X != this {
		return 0, false
	}
	if _, ok := k.fieldVar[fa.Field]; !ok {
		return 0, false
	}
	return fa.Field, true
}

func localIntCell(a *ssa.Alloc) bool {
	if !isIntType(derefType(a.Type())) {
		return false
	}
	for _, r := range *a.Referrers() {
		switch x := r.(type) {
		case *ssa.Store:
			if x.Addr != ssa.Value(a) {
				return false
			}
		case *ssa.UnOp:
			if x.Op != token.MUL {
				return false
			}
		case *ssa.DebugRef:
		default:
			return false
		}
	}
	return true
}

func (k *karr) setVal(s *space, ctx int, v ssa.Value, idx int, e lin, ok bool) {
	x := k.varOf(ctx, v, idx)
	s.grow(k.nvars)
	if ok {
		s.assign(x, e)
	} else {
		k.unknown(s, x)
	}
}

func (k *karr) unknown(s *space, x int) {
	if k.benefit {
		s.forget(x)
		s.markTaint(x)
	} else {
		s.havoc(x)
	}
}

func escapesBlock(v ssa.Value, b *ssa.BasicBlock) bool {
	refs := v.Referrers()
	if refs == nil {
		return true
	}
	for _, r := range *refs {
		if r.Block() != b {
			return true
		}
		if _, ok := r.(*ssa.Phi); ok {
			return true
		}
	}
	return false
}

// analyse runs the fixpoint over fn starting from `in` (parameters already bound) and returns the states at its returns.
func (k *karr) analyse(fn *ssa.Function, ctx int, in *space, this ssa.Value) []kret {
	if len(fn.Blocks) == 0 {
		k.unsup["no body: "+k.p.FnName(fn)] = true
		return nil
	}
	k.stack = append(k.stack, fn)
	defer func() { k.stack = k.stack[:len(k.stack)-1] }()
	ins := make([]*space, len(fn.Blocks))
	for i := range ins {
		ins[i] = botSpace(k.nvars)
	}
	ins[0] = in
	work := []int{0}
	inWork := map[int]bool{0: true}
	rets := map[*ssa.Return]*space{}
	for len(work) > 0 {
		// lowest index first: roughly reverse post-order for go/ssa block numbering
		sort.Ints(work)
		bi := work[0]
		work = work[1:]
		inWork[bi] = false
		b := fn.Blocks[bi]
		k.steps++
		if k.steps > 20000 {
			k.unsup["iteration budget exhausted in "+k.p.FnName(fn)] = true
			return nil
		}
		s := ins[bi].clone()
		s.grow(k.nvars)
		if s.bot {
			continue
		}
		if karrTrace && k.haveG && len(k.stack) <= 2 {
			t := k.newVar()
			s.grow(k.nvars)
			s.assign(t, k.G.minus(k.entryG()))
			var over []int
			for key, v := range k.vals {
				if key.ctx == ctx {
					over = append(over, v)
				}
			}
			sort.Ints(over)
			e, ok := s.express(t, over)
			pos := "-"
			for _, in := range b.Instrs {
				if in.Pos().IsValid() {
					pos = k.p.IPos(in)
					break
				}
			}
			for _, fi := range k.sortedFields() {
				if c, okc := s.constOn(linVar(k.fieldVar[fi])); okc {
					pos += fmt.Sprintf(" [%s=%s]", k.fieldName(fi), c.String())
				}
			}
			if ok {
				fmt.Fprintf(os.Stderr, "TRACE %s b%d %s dim=%d  G-G0 = %s\n", fn.Name(), bi, pos, s.dim(), k.linStringV(e))
			} else {
				fmt.Fprintf(os.Stderr, "TRACE %s b%d %s dim=%d  G-G0 LOST\n", fn.Name(), bi, pos, s.dim())
			}
			s.forget(t)
			k.free = append(k.free, t)
		}
		var local []ssa.Value
		for _, in := range b.Instrs {
			if v, ok := in.(ssa.Value); ok {
				if _, isPhi := in.(*ssa.Phi); !isPhi {
					local = append(local, v)
				}
			}
		}
		last := b.Instrs[len(b.Instrs)-1]
		// finish: what happens with a state that reached the end of the block
		finish := func(s *space) {
			if s.bot {
				return
			}
			if r, ok := last.(*ssa.Return); ok {
				c := s.clone()
				if old, ok := rets[r]; ok {
					old.join(c)
				} else {
					rets[r] = c
				}
				return
			}
			if _, ok := last.(*ssa.Panic); ok {
				return
			}
			// drop block-local values
			drop := func(es *space) {
				for _, v := range local {
					if escapesBlock(v, b) {
						continue
					}
					for _, idx := range []int{-1, 0, 1, 2} {
						if x, ok := k.vals[kvalKey{ctx, v, idx}]; ok {
							es.forget(x)
						}
					}
				}
			}
			seen := map[*ssa.BasicBlock]int{}
			for si, succ := range b.Succs {
				es := s.clone()
				if ifi, ok := last.(*ssa.If); ok {
					k.refine(ctx, es, ifi.Cond, si == 0)
					if es.bot {
						continue
					}
					if e, ok := k.unitLoopExit(ctx, this, b, ifi, si); ok {
						es.meet(e)
						if es.bot {
							continue
						}
					} else if k.benefit {
						k.taintLoopExitGuard(ctx, this, es, b, ifi, si)
					}
				}
				// which predecessor slot of succ is this edge
				occ := seen[succ]
				seen[succ]++
				pi := -1
				for i, pr := range succ.Preds {
					if pr == b {
						if occ == 0 {
							pi = i
							break
						}
						occ--
					}
				}
				var xs []int
				var es2 []lin
				var hv []int
				for _, in := range succ.Instrs {
					ph, ok := in.(*ssa.Phi)
					if !ok {
						break
					}
					if !tracked(ph.Type()) {
						continue
					}
					x := k.varOf(ctx, ph, -1)
					if e, ok := k.lx(ctx, ph.Edges[pi]); ok {
						xs = append(xs, x)
						es2 = append(es2, e)
					} else {
						hv = append(hv, x)
					}
				}
				es.grow(k.nvars)
				es.assignMany(xs, es2)
				for _, x := range hv {
					k.unknown(es, x)
				}
				drop(es)
				if ins[succ.Index].join(es) {
					if !inWork[succ.Index] {
						inWork[succ.Index] = true
						work = append(work, succ.Index)
					}
				}
			}
		}
		// run: transfer the instructions from index i on; a call whose callee has distinguishable outcomes
		// (error nil / non-nil) forks the state so that the test that follows can tell them apart
		var run func(s *space, i int, depth int)
		run = func(s *space, i int, depth int) {
			for ; i < len(b.Instrs); i++ {
				in := b.Instrs[i]
				if _, ok := in.(*ssa.Phi); ok {
					continue
				}
				k.forks = nil
				k.transfer(fn, ctx, this, s, in)
				forks := k.forks
				k.forks = nil
				if depth < 4 {
					for _, f := range forks {
						f.grow(k.nvars)
						run(f, i+1, depth+1)
					}
				} else {
					for _, f := range forks {
						s.grow(k.nvars)
						f.grow(k.nvars)
						s.join(f)
					}
				}
				if s.bot {
					return
				}
			}
			finish(s)
		}
		run(s, 0, 0)
	}
	var out []kret
	for r, s := range rets {
		out = append(out, kret{r, s, ctx})
	}
	sort.Slice(out, func(i, j int) bool { return out[i].ret.Pos() < out[j].ret.Pos() })
	return out
}

func (k *karr) refine(ctx int, s *space, cond ssa.Value, onTrue bool) {
	for {
		u, ok := cond.(*ssa.UnOp)
		if !ok || u.Op != token.NOT {
			break
		}
		cond = u.X
		onTrue = !onTrue
	}
	bo, ok := cond.(*ssa.BinOp)
	if !ok {
		return
	}
	if isErrT(bo.X.Type()) && (bo.Op == token.EQL || bo.Op == token.NEQ) {
		v := bo.X
		if isNilConst(v) {
			v = bo.Y
		} else if !isNilConst(bo.Y) {
			return
		}
		e, ok := k.lx(ctx, v)
		if !ok {
			return
		}
		if k.benefit && s.tainted(e) {
			return
		}
		if (bo.Op == token.EQL) == onTrue {
			s.meet(e)
		} else {
			s.meet(e.minus(linConst(1)))
		}
		return
	}
	if !isIntType(bo.X.Type()) {
		return
	}
	lxv, ok1 := k.lx(ctx, bo.X)
	lyv, ok2 := k.lx(ctx, bo.Y)
	if !ok1 || !ok2 {
		return
	}
	eq := false
	switch bo.Op {
	case token.EQL:
		eq = onTrue
	case token.NEQ:
		eq = !onTrue
	default:
		// x <= 0, x < 1, !(x > 0), !(x >= 1): for unsigned x this is x == 0 by type; for a signed x it is x == 0
		// under assumption A4 (a residual counter that is tested "> 0" is never negative)
		{
			cy, yc := constInt(bo.Y)
			cx, xc := constInt(bo.X)
			switch {
			case yc && bo.Op == token.LEQ && cy == 0, yc && bo.Op == token.LSS && cy == 1:
				eq = onTrue
				lyv = linConst(0)
			case yc && bo.Op == token.GTR && cy == 0, yc && bo.Op == token.GEQ && cy == 1:
				eq = !onTrue
				lyv = linConst(0)
			case xc && bo.Op == token.GEQ && cx == 0, xc && bo.Op == token.GTR && cx == 1:
				eq = onTrue
				lxv = linConst(0)
			case xc && bo.Op == token.LSS && cx == 0, xc && bo.Op == token.LEQ && cx == 1:
				eq = !onTrue
				lxv = linConst(0)
			}
		}
	}
	if eq {
		if k.benefit && (s.tainted(lxv) || s.tainted(lyv)) {
			return
		}
		s.meet(lxv.minus(lyv))
	}
}

func (k *karr) havocFields(s *space) {
	for _, i := range k.sortedFields() {
		s.havoc(k.fieldVar[i])
	}
}

func (k *karr) transfer(fn *ssa.Function, ctx int, this ssa.Value, s *space, ins ssa.Instruction) {
	switch x := ins.(type) {
	case *ssa.Store:
		if f, ok := k.isThisField(this, x.Addr); ok {
			e, ok := k.lx(ctx, x.Val)
			s.grow(k.nvars)
			if ok {
				s.assign(k.fieldVar[f], e)
			} else {
				k.unknown(s, k.fieldVar[f])
			}
			return
		}
		if a, ok := x.Addr.(*ssa.Alloc); ok && localIntCell(a) {
			e, ok := k.lx(ctx, x.Val)
			k.setVal(s, ctx, a, -2, e, ok)
			return
		}
		// snapshot structs held in local cells
		if a, ok := x.Addr.(*ssa.Alloc); ok {
			if fs := k.structInts(derefType(a.Type())); fs != nil && localStructCell(a) {
				k.copyStruct(s, ctx, a, ctx, x.Val, fs)
			}
			return
		}
		if fa, ok := x.Addr.(*ssa.FieldAddr); ok {
			if a, ok := fa.X.(*ssa.Alloc); ok && k.structInts(derefType(a.Type())) != nil && localStructCell(a) {
				if isIntType(x.Val.Type()) {
					e, ok := k.lx(ctx, x.Val)
					k.setVal(s, ctx, a, kStructBase+fa.Field, e, ok)
				}
				return
			}
			// a store through another pointer to the receiver's type (the receiver handed to a helper as an argument)
			if fa.X == this {
				return // handled by isThisField above when the field is tracked
			}
		}
		return
	case *ssa.RunDefers:
		return // the deferred calls were classified where they were registered
	case *ssa.Defer:
		// a deferred call that does not receive the receiver cannot touch its fields (A3)
		touches := false
		for _, a := range x.Call.Args {
			if a == this {
				touches = true
			}
		}
		if mc, ok := x.Call.Value.(*ssa.MakeClosure); ok {
			for _, b := range mc.Bindings {
				if b == this {
					touches = true
				}
			}
		}
		if !touches {
			return
		}
		k.unsup[fmt.Sprintf("%T in %s", ins, k.p.FnName(fn))] = true
		k.havocFields(s)
		return
	case *ssa.MakeClosure:
		for _, b := range x.Bindings {
			if b == this {
				k.unsup[fmt.Sprintf("closure over the receiver in %s", k.p.FnName(fn))] = true
				k.havocFields(s)
			}
		}
		return
	case *ssa.Go, *ssa.Select:
		k.unsup[fmt.Sprintf("%T in %s", ins, k.p.FnName(fn))] = true
		k.havocFields(s)
		return
	case *ssa.Call:
		k.call(fn, ctx, this, s, x)
		return
	}
	v, ok := ins.(ssa.Value)
	if !ok {
		return
	}
	if fs := k.structInts(v.Type()); fs != nil {
		switch x := ins.(type) {
		case *ssa.UnOp:
			if a, ok := x.X.(*ssa.Alloc); ok && x.Op == token.MUL && localStructCell(a) {
				k.copyStruct(s, ctx, v, ctx, a, fs)
				return
			}
		}
		for _, i := range fs {
			k.setVal(s, ctx, v, kStructBase+i, lin{}, false)
		}
		return
	}
	if al, ok := ins.(*ssa.Alloc); ok {
		if fs := k.structInts(derefType(al.Type())); fs != nil && localStructCell(al) {
			for _, i := range fs {
				k.setVal(s, ctx, al, kStructBase+i, linConst(0), true)
			}
		}
		return
	}
	if tup, ok := v.Type().(*types.Tuple); ok {
		// non-call tuple (Next, TypeAssert commaok, Lookup commaok, select): components unknown
		for i := 0; i < tup.Len(); i++ {
			if tracked(tup.At(i).Type()) {
				k.setVal(s, ctx, v, i, lin{}, false)
			}
		}
		return
	}
	if isErrT(v.Type()) {
		switch x := ins.(type) {
		case *ssa.MakeInterface:
			k.setVal(s, ctx, v, -1, linConst(1), true)
		case *ssa.ChangeInterface:
			a, ok := k.lx(ctx, x.X)
			k.setVal(s, ctx, v, -1, a, ok)
		case *ssa.Extract:
			if t, ok := k.vals[kvalKey{ctx, x.Tuple, x.Index}]; ok {
				k.setVal(s, ctx, v, -1, linVar(t), true)
			} else {
				k.setVal(s, ctx, v, -1, lin{}, false)
			}
		default:
			k.setVal(s, ctx, v, -1, lin{}, false)
		}
		return
	}
	if !isIntType(v.Type()) {
		return
	}
	switch x := ins.(type) {
	case *ssa.BinOp:
		a, ok1 := k.lx(ctx, x.X)
		b, ok2 := k.lx(ctx, x.Y)
		switch x.Op {
		case token.ADD:
			if ok1 && ok2 {
				k.setVal(s, ctx, v, -1, a.plus(b), true)
				return
			}
		case token.SUB:
			if ok1 && ok2 {
				k.setVal(s, ctx, v, -1, a.minus(b), true)
				return
			}
		case token.MUL:
			if ok1 && ok2 {
				if len(a.co) == 0 {
					k.setVal(s, ctx, v, -1, b.scale(a.c), true)
					return
				}
				if len(b.co) == 0 {
					k.setVal(s, ctx, v, -1, a.scale(b.c), true)
					return
				}
			}
		case token.SHL:
			if ok1 && ok2 && len(b.co) == 0 && b.c.d == 1 && b.c.n >= 0 && b.c.n < 40 {
				k.setVal(s, ctx, v, -1, a.scale(qi(1<<uint(b.c.n))), true)
				return
			}
		}
		k.setVal(s, ctx, v, -1, lin{}, false)
	case *ssa.UnOp:
		switch x.Op {
		case token.SUB:
			if a, ok := k.lx(ctx, x.X); ok {
				k.setVal(s, ctx, v, -1, a.scale(qi(-1)), true)
				return
			}
		case token.MUL:
			if f, ok := k.isThisField(this, x.X); ok {
				k.setVal(s, ctx, v, -1, linVar(k.fieldVar[f]), true)
				return
			}
			if fa, ok := x.X.(*ssa.FieldAddr); ok {
				if a, ok := fa.X.(*ssa.Alloc); ok && localStructCell(a) {
					if c, ok := k.vals[kvalKey{ctx, a, kStructBase + fa.Field}]; ok {
						k.setVal(s, ctx, v, -1, linVar(c), true)
						return
					}
				}
			}
			if a, ok := x.X.(*ssa.Alloc); ok && localIntCell(a) {
				if c, ok := k.vals[kvalKey{ctx, a, -2}]; ok {
					k.setVal(s, ctx, v, -1, linVar(c), true)
					return
				}
			}
		}
		k.setVal(s, ctx, v, -1, lin{}, false)
	case *ssa.Field:
		if c, ok := k.vals[kvalKey{ctx, x.X, kStructBase + x.Field}]; ok {
			k.setVal(s, ctx, v, -1, linVar(c), true)
			return
		}
		k.setVal(s, ctx, v, -1, lin{}, false)
	case *ssa.Convert:
		a, ok := k.lx(ctx, x.X)
		k.setVal(s, ctx, v, -1, a, ok)
	case *ssa.ChangeType:
		a, ok := k.lx(ctx, x.X)
		k.setVal(s, ctx, v, -1, a, ok)
	case *ssa.Extract:
		if c, ok := x.Tuple.(*ssa.Call); ok {
			if t, ok := k.vals[kvalKey{ctx, c, x.Index}]; ok {
				k.setVal(s, ctx, v, -1, linVar(t), true)
				return
			}
		}
		if t, ok := k.vals[kvalKey{ctx, x.Tuple, x.Index}]; ok {
			k.setVal(s, ctx, v, -1, linVar(t), true)
			return
		}
		k.setVal(s, ctx, v, -1, lin{}, false)
	default:
		k.setVal(s, ctx, v, -1, lin{}, false)
	}
}

func (k *karr) setResultsUnknown(s *space, ctx int, c *ssa.Call) {
	if tup, ok := c.Type().(*types.Tuple); ok {
		for i := 0; i < tup.Len(); i++ {
			if tracked(tup.At(i).Type()) {
				k.setVal(s, ctx, c, i, lin{}, false)
			}
		}
		return
	}
	if tracked(c.Type()) {
		k.setVal(s, ctx, c, -1, lin{}, false)
	}
}

func (k *karr) call(fn *ssa.Function, ctx int, this ssa.Value, s *space, c *ssa.Call) {
	if b, ok := c.Call.Value.(*ssa.Builtin); ok {
		if b.Name() == "len" && isIntType(c.Type()) {
			if sl, ok := c.Call.Args[0].(*ssa.Slice); ok && sl.High != nil {
				hi, ok1 := k.lx(ctx, sl.High)
				lo, ok2 := linConst(0), true
				if sl.Low != nil {
					lo, ok2 = k.lx(ctx, sl.Low)
				}
				if ok1 && ok2 {
					k.setVal(s, ctx, c, -1, hi.minus(lo), true)
					return
				}
			}
		}
		k.setResultsUnknown(s, ctx, c)
		return
	}
	callee := c.Call.StaticCallee()
	sameRecv := false
	thisIdx := -1
	if !c.Call.IsInvoke() {
		for j, a := range c.Call.Args {
			if a == this {
				thisIdx = j
			}
		}
	}
	if callee != nil && callee.Blocks != nil && thisIdx >= 0 && FnPkg(callee) == FnPkg(fn) {
		sameRecv = true
	}
	if !sameRecv && thisIdx >= 0 {
		// the receiver escapes into code that is not analysed: its fields may change
		k.unsup["receiver passed to "+fmt.Sprint(c.Call.Value)] = true
		k.havocFields(s)
		k.setResultsUnknown(s, ctx, c)
		return
	}
	if !sameRecv {
		// A3
		if isErrT(c.Type()) && (isPkgFunc(&c.Call, "errors", "New") || isPkgFunc(&c.Call, "fmt", "Errorf")) {
			k.setVal(s, ctx, c, -1, linConst(1), true)
			return
		}
		k.setResultsUnknown(s, ctx, c)
		return
	}
	isMethodOfT := false
	if callee.Signature.Recv() != nil && thisIdx == 0 {
		if n := namedOf(callee.Signature.Recv().Type()); n != nil && n.Obj() == k.T.Obj() {
			isMethodOfT = true
		}
	}
	if sp, ok := k.specs[callee.Name()]; ok && k.haveG && isMethodOfT {
		bitsL := linConst(sp.bitsConst)
		okb := true
		if sp.bitsParam >= 0 {
			bitsL, okb = k.lx(ctx, c.Call.Args[sp.bitsParam])
		}
		if !okb {
			k.havocFields(s)
			k.setResultsUnknown(s, ctx, c)
			return
		}
		t := k.newVar()
		s.grow(k.nvars)
		s.assign(t, k.G.plus(bitsL))
		wasTainted := s.tainted(k.G.plus(bitsL))
		k.havocFields(s)
		s.meet(k.G.minus(linVar(t)))
		if wasTainted {
			// the counter was already uncertain before the call: it stays so
			for v := range k.G.co {
				s.markTaint(v)
			}
		}
		s.forget(t)
		k.free = append(k.free, t)
		if sp.retIsBits && isIntType(c.Type()) {
			k.setVal(s, ctx, c, -1, bitsL, true)
		} else {
			k.setResultsUnknown(s, ctx, c)
		}
		k.notes["spec of "+callee.Name()+" used at a call site"] = true
		return
	}
	for _, f := range k.stack {
		if f == callee {
			k.unsup["recursion through "+k.p.FnName(callee)] = true
			k.havocFields(s)
			k.setResultsUnknown(s, ctx, c)
			return
		}
	}
	if len(k.stack) > 8 {
		k.unsup["inlining depth at "+k.p.FnName(callee)] = true
		k.havocFields(s)
		k.setResultsUnknown(s, ctx, c)
		return
	}
	// inline
	k.nextCtx++
	cctx := k.nextCtx
	var xs []int
	var es []lin
	var hv []int
	var structBinds [][2]ssa.Value
	for i, prm := range callee.Params {
		if fs := k.structInts(prm.Type()); fs != nil {
			structBinds = append(structBinds, [2]ssa.Value{prm, c.Call.Args[i]})
			continue
		}
		if !tracked(prm.Type()) {
			continue
		}
		x := k.varOf(cctx, prm, -1)
		if e, ok := k.lx(ctx, c.Call.Args[i]); ok {
			xs = append(xs, x)
			es = append(es, e)
		} else {
			hv = append(hv, x)
		}
	}
	in := s.clone()
	in.grow(k.nvars)
	in.assignMany(xs, es)
	for _, x := range hv {
		k.unknown(in, x)
	}
	for _, sb := range structBinds {
		k.copyStruct(in, cctx, sb[0], ctx, sb[1], k.structInts(sb[0].Type()))
	}
	nu := len(k.unsup)
	rets := k.analyse(callee, cctx, in, callee.Params[thisIdx])
	if len(rets) == 0 && len(k.unsup) > nu {
		k.releaseCtx(cctx, s)
		k.havocFields(s)
		k.setResultsUnknown(s, ctx, c)
		return
	}
	out := botSpace(k.nvars)
	outErr := botSpace(k.nvars)
	for _, r := range rets {
		rs := r.st
		rs.grow(k.nvars)
		ops := rvals(r.ret)
		target := out
		if n := len(ops); n > 0 && isErrT(ops[n-1].Type()) {
			if e, ok := k.lx(cctx, ops[n-1]); ok {
				if c, isC := rs.constOn(e); !isC || !c.zero() {
					target = outErr
				}
			} else {
				target = outErr
			}
		}
		if len(ops) == 1 && k.structInts(ops[0].Type()) != nil {
			k.copyStruct(rs, ctx, c, cctx, ops[0], k.structInts(ops[0].Type()))
		} else if len(ops) == 1 && tracked(ops[0].Type()) {
			e, ok := k.lx(cctx, ops[0])
			k.setVal(rs, ctx, c, -1, e, ok)
		} else if len(ops) > 1 {
			for i, o := range ops {
				if tracked(o.Type()) {
					e, ok := k.lx(cctx, o)
					k.setVal(rs, ctx, c, i, e, ok)
				}
			}
		}
		rs.grow(k.nvars)
		target.grow(k.nvars)
		target.join(rs)
	}
	if out.bot {
		out, outErr = outErr, out
	}
	if !outErr.bot {
		outErr.grow(k.nvars)
		for _, key := range k.byCtx[cctx] {
			outErr.forget(k.vals[key])
		}
		k.forks = append(k.forks, outErr)
	}
	k.releaseCtx(cctx, out)
	*s = *out
	s.grow(k.nvars)
}

// deriveG: the counter functional is whatever the accessor method returns, as an affine form of the receiver's fields
func (k *karr) deriveG(accessor *ssa.Function) bool {
	k.nextCtx++
	ctx := k.nextCtx
	in := k.entryState()
	rets := k.analyse(accessor, ctx, in, accessor.Params[0])
	defer k.releaseCtx(ctx, nil)
	if len(rets) != 1 {
		return false
	}
	ops := rvals(rets[0].ret)
	if len(ops) != 1 {
		return false
	}
	e, ok := k.lx(ctx, ops[0])
	if !ok {
		return false
	}
	// express the returned value over the field variables
	t := k.newVar()
	st := rets[0].st
	st.grow(k.nvars)
	st.assign(t, e)
	var over []int
	for _, i := range k.sortedFields() {
		over = append(over, k.fieldVar[i])
	}
	g, ok := st.express(t, over)
	k.free = append(k.free, t)
	if !ok || len(g.co) == 0 {
		return false
	}
	k.G = g
	k.haveG = true
	return true
}

func (k *karr) fieldName(i int) string { return k.st.Field(i).Name() }

func (k *karr) linString(e lin) string {
	name := map[int]string{}
	for i, v := range k.fieldVar {
		name[v] = k.fieldName(i)
	}
	for i, v := range k.entryVar {
		name[v] = k.fieldName(i) + "@entry"
	}
	var vs []int
	for v := range e.co {
		vs = append(vs, v)
	}
	sort.Ints(vs)
	out := ""
	for _, v := range vs {
		n, ok := name[v]
		if !ok {
			n = fmt.Sprintf("v%d", v)
		}
		out += fmt.Sprintf(" %+s*%s", e.co[v].String(), n)
	}
	if !e.c.zero() || out == "" {
		out += " " + e.c.String()
	}
	return out
}

// entryG: G evaluated over the entry copies of the fields
func (k *karr) entryG() lin {
	r := lin{c: k.G.c, co: map[int]q{}}
	for i, v := range k.fieldVar {
		if c, ok := k.G.co[v]; ok {
			r.co[k.entryVar[i]] = c
		}
	}
	return r
}

// unitLoopExit (assumption A5): b is the header of a counting loop "for x <= y" / "for x < y" whose counter x is
// advanced by exactly one on every iteration and whose bound y is not written in the loop; on the exit edge x is taken
// to be y+1 (resp. y), i.e. the loop is assumed to be entered at or below its bound. Returns the equality to meet with.
func (k *karr) unitLoopExit(ctx int, this ssa.Value, b *ssa.BasicBlock, ifi *ssa.If, si int) (lin, bool) {
	if os.Getenv("KZ_NO_A5") != "" { // self-test of the safety net only
		return lin{}, false
	}
	cond := ifi.Cond
	neg := false
	for {
		u, ok := cond.(*ssa.UnOp)
		if !ok || u.Op != token.NOT {
			break
		}
		cond = u.X
		neg = !neg
	}
	bo, ok := cond.(*ssa.BinOp)
	if !ok || !isIntType(bo.X.Type()) {
		return lin{}, false
	}
	op := bo.Op
	if neg {
		op = negateOp(op)
	}
	// which successor stays in the loop: the condition may be compiled with its branches swapped (`for !(a > b)`)
	bodyIdx := -1
	for k, sc := range b.Succs {
		if reach(sc, nil, nil)[b] {
			if bodyIdx >= 0 {
				return lin{}, false // both successors stay in the loop
			}
			bodyIdx = k
		}
	}
	if bodyIdx < 0 || si == bodyIdx {
		return lin{}, false
	}
	if bodyIdx == 1 {
		op = negateOp(op)
	}
	// the loop continues while "x <= y" (or "x < y"), written in any of its spellings
	x, y := bo.X, bo.Y
	strict := false
	switch op {
	case token.LEQ:
	case token.LSS:
		strict = true
	case token.GEQ:
		x, y = y, x
	case token.GTR:
		x, y = y, x
		strict = true
	default:
		return lin{}, false
	}
	body, exit := b.Succs[bodyIdx], b.Succs[1-bodyIdx]
	// loop membership
	fromBody := reach(body, nil, nil)
	if !fromBody[b] || reach(exit, nil, nil)[b] && false {
		return lin{}, false
	}
	inLoop := map[*ssa.BasicBlock]bool{b: true}
	for blk := range fromBody {
		if reach(blk, nil, nil)[b] {
			inLoop[blk] = true
		}
	}
	if inLoop[exit] {
		return lin{}, false
	}
	var latches []*ssa.BasicBlock
	for _, pr := range b.Preds {
		if inLoop[pr] {
			latches = append(latches, pr)
		}
	}
	if len(latches) == 0 {
		return lin{}, false
	}
	// no same-receiver calls inside the loop
	fieldOfLoad := func(v ssa.Value) (int, bool) {
		u, ok := v.(*ssa.UnOp)
		if !ok || u.Op != token.MUL {
			return 0, false
		}
		return k.isThisField(this, u.X)
	}
	stores := map[int][]*ssa.Store{}
	for blk := range inLoop {
		for _, in := range blk.Instrs {
			switch c := in.(type) {
			case *ssa.Call:
				if cal := c.Call.StaticCallee(); cal != nil && len(c.Call.Args) > 0 && c.Call.Args[0] == this {
					return lin{}, false
				}
			case *ssa.Store:
				if f, ok := k.isThisField(this, c.Addr); ok {
					stores[f] = append(stores[f], c)
				}
			}
		}
	}
	stepOK := false
	if f, ok := fieldOfLoad(x); ok {
		if len(stores[f]) == 1 {
			st := stores[f][0]
			if add, ok := st.Val.(*ssa.BinOp); ok && add.Op == token.ADD {
				if f2, ok := fieldOfLoad(add.X); ok && f2 == f {
					if c, ok := constInt(add.Y); ok && c == 1 {
						stepOK = true
						for _, l := range latches {
							if !st.Block().Dominates(l) {
								stepOK = false
							}
						}
					}
				}
			}
		}
	} else if ph, ok := x.(*ssa.Phi); ok && ph.Block() == b {
		stepOK = true
		for i, pr := range b.Preds {
			if !inLoop[pr] {
				continue
			}
			add, ok := ph.Edges[i].(*ssa.BinOp)
			if !ok || add.Op != token.ADD || add.X != ssa.Value(ph) {
				stepOK = false
				break
			}
			if c, ok := constInt(add.Y); !ok || c != 1 {
				stepOK = false
			}
		}
	}
	if !stepOK {
		return lin{}, false
	}
	// bound not written in the loop
	if f, ok := fieldOfLoad(y); ok {
		if len(stores[f]) > 0 {
			return lin{}, false
		}
	} else if _, isConst := y.(*ssa.Const); !isConst {
		if yi, ok := y.(ssa.Instruction); ok && inLoop[yi.Block()] {
			return lin{}, false
		}
	}
	lxv, ok1 := k.lx(ctx, x)
	lyv, ok2 := k.lx(ctx, y)
	if !ok1 || !ok2 {
		return lin{}, false
	}
	k.notes["A5 used: a unit-step counting loop is taken to exit exactly at its bound"] = true
	e := lxv.minus(lyv)
	if !strict {
		e = e.minus(linConst(1))
	}
	return e, true
}

func (k *karr) varName(x int) string {
	for i, v := range k.fieldVar {
		if v == x {
			return k.fieldName(i)
		}
	}
	for i, v := range k.entryVar {
		if v == x {
			return k.fieldName(i) + "@entry"
		}
	}
	for key, v := range k.vals {
		if v == x {
			n := key.v.Name()
			if in, ok := key.v.(ssa.Instruction); ok {
				n += "@" + k.p.IPos(in)
			}
			return fmt.Sprintf("c%d:%s[%d]", key.ctx, n, key.idx)
		}
	}
	return fmt.Sprintf("v%d", x)
}

// explain: the directions of s along which e varies
func (k *karr) explain(s *space, e lin) string {
	out := fmt.Sprintf("at point: %s;", s.evalP(e).String())
	for _, row := range s.rows {
		c := evalDir(row, e)
		if c.zero() {
			continue
		}
		out += " dir{"
		for j, x := range row {
			if !x.zero() {
				out += fmt.Sprintf(" %s*%s", x.String(), k.varName(j))
			}
		}
		out += " } -> " + c.String() + ";"
	}
	return out
}

var karrTrace = os.Getenv("KZ_KARR_TRACE") != ""

func (k *karr) linStringV(e lin) string {
	var vs []int
	for v := range e.co {
		vs = append(vs, v)
	}
	sort.Ints(vs)
	out := ""
	for _, v := range vs {
		out += fmt.Sprintf(" %s*%s", e.co[v].String(), k.varName(v))
	}
	return out + " + " + e.c.String()
}

// taintLoopExitGuard (benefit mode only): the edge leaves a loop under an ordering guard that was not summarised (not a
// unit-step counting loop). Whatever the proof needs from that guard is missing, so a failure that involves the compared
// quantities is not definite: they are marked as depending on an unknown.
func (k *karr) taintLoopExitGuard(ctx int, this ssa.Value, es *space, b *ssa.BasicBlock, ifi *ssa.If, si int) {
	cond := ifi.Cond
	for {
		u, ok := cond.(*ssa.UnOp)
		if !ok || u.Op != token.NOT {
			break
		}
		cond = u.X
	}
	bo, ok := cond.(*ssa.BinOp)
	if !ok || !isIntType(bo.X.Type()) {
		return
	}
	switch bo.Op {
	case token.LSS, token.LEQ, token.GTR, token.GEQ:
	default:
		return
	}
	// is this a loop exit: b is in a cycle and the successor taken is not
	succ := b.Succs[si]
	if !reach(b.Succs[1-si], nil, nil)[b] || reach(succ, nil, nil)[b] {
		return
	}
	// only for loops that look like unit-step counting loops (a compared quantity moves by exactly one somewhere in the
	// loop): those are the loops whose exit value the proofs rely on (A5); a loop with another stride (the padding loop of
	// Close, the word loops of the array operations) never gets its exit value from the guard, so nothing is missing
	inLoop := map[*ssa.BasicBlock]bool{b: true}
	for blk := range reach(b.Succs[1-si], nil, nil) {
		if reach(blk, nil, nil)[b] {
			inLoop[blk] = true
		}
	}
	unitStep := func(v ssa.Value) bool {
		isOne := func(x ssa.Value) bool {
			c, ok := constInt(x)
			return ok && (c == 1 || c == -1)
		}
		if u, ok := v.(*ssa.UnOp); ok && u.Op == token.MUL {
			if f, ok := k.isThisField(this, u.X); ok {
				for blk := range inLoop {
					for _, in := range blk.Instrs {
						if st, ok := in.(*ssa.Store); ok {
							if f2, ok := k.isThisField(this, st.Addr); ok && f2 == f {
								if add, ok := st.Val.(*ssa.BinOp); ok && (add.Op == token.ADD || add.Op == token.SUB) && isOne(add.Y) {
									return true
								}
							}
						}
					}
				}
			}
		}
		if ph, ok := v.(*ssa.Phi); ok {
			for _, e := range ph.Edges {
				if add, ok := e.(*ssa.BinOp); ok && (add.Op == token.ADD || add.Op == token.SUB) && isOne(add.Y) && inLoop[add.Block()] {
					return true
				}
			}
		}
		return false
	}
	if !unitStep(bo.X) && !unitStep(bo.Y) {
		return
	}
	for _, v := range []ssa.Value{bo.X, bo.Y} {
		if x, ok := k.vals[kvalKey{ctx, v, -1}]; ok {
			es.markTaint(x)
		}
		if u, ok := v.(*ssa.UnOp); ok && u.Op == token.MUL {
			if f, ok := k.isThisField(this, u.X); ok {
				es.markTaint(k.fieldVar[f])
			}
		}
	}
}

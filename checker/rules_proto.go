package main

import (
	"fmt"
	"go/token"
	"go/types"
	"strings"

	"golang.org/x/tools/go/ssa"
)

// ---------------------------------------------------------------------------------------
// Hand-off protocol of the block tasks: R-TOKEN, R-CANCEL, R-POISON
// ---------------------------------------------------------------------------------------

// taskSide is the resolved anatomy of one direction (encode or decode) of the stream layer.
type taskSide struct {
	name     string        // "encode" / "decode"
	owner    string        // "Writer" / "Reader"
	parent   *ssa.Function // (*Writer).processBlock / (*Reader).processBlock
	gos      []*ssa.Go
	fn       *ssa.Function // task method launched by go
	deferred *ssa.Function // closure deferred at entry of fn
	taskT    *types.Named
	counter  *types.Var // field of type *int32 (shared block counter)
	curID    *types.Var // field of type int32 (this task's block id)
	stream   *types.Var // field of interface type kanzi.{Input,Output}BitStream
	wg       *types.Var // field of type *sync.WaitGroup
	resT     *types.Named
	errField *types.Var // field of the result struct holding the error
	cancelConst int64
	prog        *Prog
	lifted      map[ssa.Instruction]bool // helper calls standing for the sites they contain
	bind        map[*ssa.Parameter]ssa.Value // while analysing a helper: its parameters -> arguments of the call site
	entry         *ssa.Function // processBlock itself (parent is the function that launches the tasks: the same, or a helper)
	parentCounter *types.Var // field of Writer/Reader whose address is handed to the tasks as shared counter
	skippedF, dataF, decodedF *types.Var // fields of the decode result (nil on the encode side)
}

// unbind replaces a helper parameter by the argument of the call site under analysis.
func (s *taskSide) unbind(v ssa.Value) ssa.Value {
	for k := 0; k < 4; k++ {
		pr, ok := v.(*ssa.Parameter)
		if !ok || s.bind == nil {
			return v
		}
		a, ok := s.bind[pr]
		if !ok {
			return v
		}
		v = a
	}
	return v
}

func fieldVarOfLoad(v ssa.Value) *types.Var {
	u, ok := v.(*ssa.UnOp)
	if !ok || u.Op != token.MUL {
		return nil
	}
	return fieldVarOfAddr(u.X)
}

func fieldVarOfAddr(v ssa.Value) *types.Var {
	fa, ok := v.(*ssa.FieldAddr)
	if !ok {
		return nil
	}
	st, ok := derefType(fa.X.Type()).Underlying().(*types.Struct)
	if !ok {
		return nil
	}
	return st.Field(fa.Field)
}

// isAtomic matches the sync/atomic functions named (LoadInt32, StoreInt32, SwapInt32, AddInt32, CompareAndSwapInt32)
// and the equivalent methods of the typed atomics (atomic.Int32.Load/Store/Swap/Add/CompareAndSwap): in both forms
// argument 0 is the address of the word.
func isAtomic(c *ssa.CallCommon, names ...string) bool {
	for _, n := range names {
		if isPkgFunc(c, "sync/atomic", n) {
			return true
		}
		m := strings.TrimSuffix(strings.TrimSuffix(n, "Int32"), "Int64")
		if !c.IsInvoke() && isMethodNamed(c, "sync/atomic", "", m) {
			return true
		}
	}
	return false
}

// isInt32Word: int32 or atomic.Int32.
func isInt32Word(t types.Type) bool {
	if b, ok := t.Underlying().(*types.Basic); ok && b.Kind() == types.Int32 {
		return true
	}
	if n := namedOf(t); n != nil && n.Obj().Pkg() != nil && n.Obj().Pkg().Path() == "sync/atomic" && n.Obj().Name() == "Int32" {
		return true
	}
	return false
}

func callOf(i ssa.Instruction) *ssa.CallCommon {
	if ci, ok := i.(ssa.CallInstruction); ok {
		return ci.Common()
	}
	return nil
}

func resolveSide(p *Prog, owner string) *taskSide {
	s := &taskSide{owner: owner, prog: p, cancelConst: cancelValue(p), lifted: map[ssa.Instruction]bool{}}
	s.entry = p.Method("io", owner, "processBlock")
	s.parent = s.entry
	eachInstr(s.parent, func(i ssa.Instruction) {
		if g, ok := i.(*ssa.Go); ok {
			s.gos = append(s.gos, g)
		}
	})
	if len(s.gos) == 0 {
		// "launch one batch and wait" may have been extracted: the launcher is the one same-package helper of
		// processBlock that contains the go statements; processBlock stays the entry (cancel test, result scan)
		var launchers []*ssa.Function
		for _, h := range p.helperClosure(s.entry) {
			n := 0
			eachInstr(h, func(i ssa.Instruction) {
				if _, ok := i.(*ssa.Go); ok {
					n++
				}
			})
			if n > 0 && h.Parent() == nil {
				launchers = append(launchers, h)
			}
		}
		if len(launchers) == 1 {
			s.parent = launchers[0]
			eachInstr(s.parent, func(i ssa.Instruction) {
				if g, ok := i.(*ssa.Go); ok {
					s.gos = append(s.gos, g)
				}
			})
		}
	}
	if len(s.gos) == 0 {
		undecided("anchor unresolved: no go statement in io.%s.processBlock (or in exactly one helper of it)", owner)
	}
	if s.parent != s.entry {
		// the recognised helper shape is "launch one batch and wait": the helper that starts the tasks also joins them.
		// A helper that only starts them (Wait stays in the caller) splits the obligations of most protocol rules over
		// two functions; that shape is not modelled, and saying so is better than judging half a function.
		hasWait := false
		eachInstr(s.parent, func(i ssa.Instruction) {
			if c := callOf(i); c != nil && isMethodNamed(c, "sync", "WaitGroup", "Wait") {
				hasWait = true
			}
		})
		if !hasWait {
			undecided("io.%s: the go statements of a batch are in %s but the WaitGroup.Wait is not: launch structure not recognised (start and join of a batch in different functions)", owner, s.parent.Name())
		}
	}
	for _, g := range s.gos {
		f := g.Call.StaticCallee()
		if f == nil || f.Blocks == nil {
			undecided("io.%s.processBlock: go statement with a non-static callee", owner)
		}
		if s.fn != nil && s.fn != f {
			undecided("io.%s.processBlock launches two different task functions", owner)
		}
		s.fn = f
	}
	s.name = s.fn.Name()
	if s.fn.Signature.Recv() == nil {
		undecided("task function %s is not a method", s.fn)
	}
	s.taskT = namedOf(s.fn.Signature.Recv().Type())
	if s.taskT == nil {
		undecided("task receiver type of %s not a named struct", s.fn)
	}
	st, ok := s.taskT.Underlying().(*types.Struct)
	if !ok {
		undecided("task type %s is not a struct", s.taskT)
	}
	var idCands, ctrCands []*types.Var
	for i := 0; i < st.NumFields(); i++ {
		f := st.Field(i)
		switch t := f.Type().(type) {
		case *types.Pointer:
			if isInt32Word(t.Elem()) {
				ctrCands = append(ctrCands, f)
			}
			if n := namedOf(t.Elem()); n != nil && n.Obj().Pkg() != nil && n.Obj().Pkg().Path() == "sync" && n.Obj().Name() == "WaitGroup" {
				s.wg = f
			}
		case *types.Basic:
			if t.Kind() == types.Int32 {
				idCands = append(idCands, f)
			}
		}
		if n := namedOf(f.Type()); n != nil && types.IsInterface(n) && n.Obj().Pkg() != nil && n.Obj().Pkg().Path() == p.ModPath &&
			(n.Obj().Name() == "InputBitStream" || n.Obj().Name() == "OutputBitStream") {
			if s.stream != nil {
				undecided("task type %s has two bitstream fields", s.taskT)
			}
			s.stream = f
		}
	}
	switch len(ctrCands) {
	case 0:
	case 1:
		s.counter = ctrCands[0]
	default:
		// several *int32 fields: the hand-off counter is the one that is compared with (or CAS-ed from) an int32 field
		var hits []*types.Var
		for _, c := range ctrCands {
			for _, idc := range idCands {
				if comparedWithCounter(s.fn, idc, c) {
					hits = append(hits, c)
					break
				}
			}
		}
		if len(hits) != 1 {
			undecided("task type %s has %d *int32 fields and %d of them are compared with a task id", s.taskT, len(ctrCands), len(hits))
		}
		s.counter = hits[0]
	}
	switch len(idCands) {
	case 0:
	case 1:
		s.curID = idCands[0]
	default:
		// several int32 fields: the task's own id is the one that is compared with the shared counter
		var hits []*types.Var
		for _, c := range idCands {
			if comparedWithCounter(s.fn, c, s.counter) {
				hits = append(hits, c)
			}
		}
		if len(hits) != 1 {
			undecided("task type %s has %d int32 fields and %d of them are compared for equality with the shared counter", s.taskT, len(idCands), len(hits))
		}
		s.curID = hits[0]
	}
	if s.counter == nil || s.curID == nil || s.stream == nil || s.wg == nil {
		undecided("task type %s: cannot identify counter/id/stream/wg fields", s.taskT)
	}
	// deferred handler: a defer of a closure or of a static function/method that calls recover()
	eachInstr(s.fn, func(i ssa.Instruction) {
		if d, ok := i.(*ssa.Defer); ok {
			if cf := deferredTarget(d); cf != nil && cf.Blocks != nil && containsRecover(cf) {
				s.deferred = cf
			}
		}
	})
	// result struct: type of the second parameter (pointer to struct with an error-ish field)
	if len(s.fn.Params) >= 2 {
		s.resT = namedOf(s.fn.Params[1].Type())
		if s.resT != nil {
			if rst, ok := s.resT.Underlying().(*types.Struct); ok {
				for i := 0; i < rst.NumFields(); i++ {
					f := rst.Field(i)
					if isErrorish(f.Type()) {
						s.errField = f
						break
					}
				}
			}
		}
	}
	if s.errField == nil {
		undecided("task function %s: cannot identify result error field", s.fn)
	}
	// the parent's counter field: the address stored into the task's counter pointer
	for _, bf := range append([]*ssa.Function{s.entry}, p.helperClosure(s.entry)...) {
		eachInstr(bf, func(i ssa.Instruction) {
			if st, ok := i.(*ssa.Store); ok && fieldVarOfAddr(st.Addr) == s.counter {
				if fv := fieldVarOfAddr(st.Val); fv != nil {
					s.parentCounter = fv
				}
			}
		})
	}
	// decode result fields, resolved by type / data flow rather than by name
	if rst, ok := s.resT.Underlying().(*types.Struct); ok {
		var bools, slices []*types.Var
		for i := 0; i < rst.NumFields(); i++ {
			f := rst.Field(i)
			if isBool(f.Type()) {
				bools = append(bools, f)
			}
			if isByteSlice(f.Type()) {
				slices = append(slices, f)
			}
			if f.Name() == "decoded" {
				s.decodedF = f
			}
		}
		if len(bools) == 1 {
			s.skippedF = bools[0]
		}
		if len(slices) == 1 {
			s.dataF = slices[0]
		}
		// decoded: the int field the exit handler fills from the cell that receives the transform's output length
		if s.deferred != nil {
			var cell ssa.Value
			eachInstr(s.fn, func(i ssa.Instruction) {
				st, ok := i.(*ssa.Store)
				if !ok {
					return
				}
				v := stripConv(st.Val)
				if ex, ok := v.(*ssa.Extract); ok {
					if c, ok := ex.Tuple.(*ssa.Call); ok {
						if o := calleeObj(&c.Call); o != nil && o.Name() == "Inverse" {
							cell = st.Addr
						}
					}
				}
			})
			if cell != nil {
				eachInstr(s.deferred, func(i ssa.Instruction) {
					st, ok := i.(*ssa.Store)
					if !ok {
						return
					}
					fv := fieldVarOfAddr(st.Addr)
					if fv == nil {
						return
					}
					if u, ok := st.Val.(*ssa.UnOp); ok && u.Op == token.MUL {
						if bindingOf(s.fn, s.deferred, u.X) == cell {
							s.decodedF = fv
						}
					}
				})
			}
		}
	}
	return s
}

var errorIface = types.Universe.Lookup("error").Type().Underlying().(*types.Interface)

func isErrorish(t types.Type) bool {
	if types.Implements(t, errorIface) {
		return true
	}
	if _, ok := t.Underlying().(*types.Pointer); !ok {
		return types.Implements(types.NewPointer(t), errorIface) && false
	}
	return false
}

func containsRecover(f *ssa.Function) bool {
	found := false
	eachInstr(f, func(i ssa.Instruction) {
		if c := callOf(i); c != nil {
			if b, ok := c.Value.(*ssa.Builtin); ok && b.Name() == "recover" {
				found = true
			}
		}
	})
	return found
}

func (s *taskSide) isCounterPtr(v ssa.Value) bool { return fieldVarOfLoad(s.unbind(v)) == s.counter }
func (s *taskSide) isCurID(v ssa.Value) bool      { return fieldVarOfLoad(s.unbind(v)) == s.curID }

// isCurMinus1 matches `cur - 1`.
func (s *taskSide) isCurMinus1(v ssa.Value) bool {
	b, ok := v.(*ssa.BinOp)
	if !ok || b.Op != token.SUB {
		return false
	}
	c, ok := constInt(b.Y)
	return ok && c == 1 && s.isCurID(b.X)
}

// counterLoad matches atomic.LoadInt32(counter).
func (s *taskSide) counterLoad(v ssa.Value) bool {
	c, ok := v.(*ssa.Call)
	if !ok {
		return false
	}
	return isAtomic(&c.Call, "LoadInt32") && len(c.Call.Args) == 1 && s.isCounterPtr(c.Call.Args[0])
}

// acquireEdges returns the edges on which `Load(counter) == cur-1` holds, in f itself or through a turn-predicate helper.
func (s *taskSide) acquireEdges(f *ssa.Function) []edge {
	out := s.acquireEdgesLocal(f)
	acq, _ := s.predicateEdges(f, s.cancelConst)
	return append(out, acq...)
}

// cancelEdges: edges taken when the counter holds the cancel value, in f itself or through a turn-predicate helper.
func (s *taskSide) cancelEdges(f *ssa.Function) []edge {
	out := s.cancelEdgesLocal(f, s.cancelConst)
	_, can := s.predicateEdges(f, s.cancelConst)
	return append(out, can...)
}

func (s *taskSide) acquireEdgesLocal(f *ssa.Function) []edge {
	var out []edge
	for _, b := range f.Blocks {
		ifi := blockIf(b)
		if ifi == nil {
			continue
		}
		atom, pos := condAtom(ifi.Cond)
		bo, ok := atom.(*ssa.BinOp)
		if !ok || (bo.Op != token.EQL && bo.Op != token.NEQ) {
			continue
		}
		match := (s.counterLoad(bo.X) && s.isCurMinus1(bo.Y)) || (s.counterLoad(bo.Y) && s.isCurMinus1(bo.X))
		if !match {
			// accept load+1 == cur
			plus1 := func(v ssa.Value) bool {
				a, ok := v.(*ssa.BinOp)
				if !ok || a.Op != token.ADD {
					return false
				}
				c, ok := constInt(a.Y)
				return ok && c == 1 && s.counterLoad(a.X)
			}
			match = (plus1(bo.X) && s.isCurID(bo.Y)) || (plus1(bo.Y) && s.isCurID(bo.X))
		}
		if !match {
			continue
		}
		out = append(out, edge{b, succFor(pos, bo.Op == token.EQL)})
	}
	return out
}

// sharedUses lists the instructions in f that use the shared bitstream loaded from the task struct, plus the calls to
// same-package helpers that (transitively) use it (recorded in s.lifted).
func (s *taskSide) sharedUses(f *ssa.Function) []ssa.Instruction {
	var out []ssa.Instruction
	eachInstr(f, func(i ssa.Instruction) {
		v, ok := i.(ssa.Value)
		if !ok || fieldVarOfLoad(v) != s.stream {
			return
		}
		for _, ref := range *v.Referrers() {
			out = append(out, ref)
		}
	})
	isUse := func(i ssa.Instruction) bool {
		c := callOf(i)
		return c != nil && c.IsInvoke() && fieldVarOfLoad(c.Value) == s.stream
	}
	memo := map[*ssa.Function]int{}
	eachInstr(f, func(i ssa.Instruction) {
		if h := helperCallee(i, FnPkg(f)); h != nil && h != f && s.prog.containsDeep(h, isUse, memo) {
			s.lifted[i] = true
			out = append(out, i)
		}
	})
	return out
}

// counterWrites lists atomic writes (Store/Swap/Add/CAS) to the counter in f, plus any non-atomic store through it.
func (s *taskSide) counterWrites(f *ssa.Function) []ssa.Instruction {
	var out []ssa.Instruction
	eachInstr(f, func(i ssa.Instruction) {
		if s.isCounterWrite(i) {
			out = append(out, i)
		}
	})
	return out
}

func (s *taskSide) isCounterWrite(i ssa.Instruction) bool {
	if c := callOf(i); c != nil {
		if isAtomic(c, "StoreInt32", "SwapInt32", "AddInt32", "CompareAndSwapInt32") && len(c.Args) > 0 && s.isCounterPtr(c.Args[0]) {
			return true
		}
	}
	if st, ok := i.(*ssa.Store); ok && s.isCounterPtr(st.Addr) {
		return true
	}
	return false
}

// counterWritesLifted: counter writes of f plus calls of f to helpers that contain one.
func (s *taskSide) counterWritesLifted(f *ssa.Function) []ssa.Instruction {
	d, v := s.prog.liftedSites(f, s.isCounterWrite)
	return append(d, v...)
}

func describeCall(p *Prog, i ssa.Instruction) string {
	if c := callOf(i); c != nil {
		if c.IsInvoke() {
			return c.Method.Name()
		}
		if f := c.StaticCallee(); f != nil {
			return p.FnName(f)
		}
		if b, ok := c.Value.(*ssa.Builtin); ok {
			return b.Name()
		}
	}
	return fmt.Sprintf("%T", i)
}

// ordinalKey builds a line-free construct key: fn#what#k where k counts equal (fn, what) in program order.
type keyer struct{ n map[string]int }

func (k *keyer) key(fn, what string) string {
	if k.n == nil {
		k.n = map[string]int{}
	}
	base := fn + "#" + what
	k.n[base]++
	return fmt.Sprintf("%s#%d", base, k.n[base])
}

func init() {
	register("R-TOKEN", "every access to the shared bitstream in a block task is dominated by the acquire edge (counter == id-1) and none is reachable after the release; task ids are consecutive", false, ruleToken)
	register("R-CANCEL", "spin waits have a cancel exit and yield; the deferred handler cancels on error (incl. recovered panics), always calls Done, and never overwrites a cancel; Add precedes go and Wait dominates result reads", false, ruleCancel)
	register("R-POISON", "once the shared counter is cancelled no later Writer call reports success", false, rulePoison)
}

func ruleToken(p *Prog, r *RuleResult) {
	ntasks := 0
	for _, owner := range []string{"Writer", "Reader"} {
		s := resolveSide(p, owner)
		ntasks++
		fname := p.FnName(s.fn)
		acq := s.acquireEdges(s.fn)
		if len(acq) == 0 {
			r.fail(fname+"#acquire", p.Pos(s.fn.Pos()), "no acquire edge (atomic load of the shared counter compared with id-1) found in the task: shared stream accesses are unordered")
			continue
		}
		for _, e := range acq {
			r.info(fmt.Sprintf("%s acquire edge: block %d -> %d", fname, e.from.Index, e.from.Succs[e.succ].Index), p.IPos(e.from.Instrs[len(e.from.Instrs)-1]))
		}
		var releases []ssa.Instruction
		for _, w := range s.counterWritesLifted(s.fn) {
			releases = append(releases, w)
			r.info(fmt.Sprintf("%s release/counter write in task body: %s", fname, describeCall(p, w)), p.IPos(w))
		}
		uses := s.sharedUses(s.fn)
		if len(uses) < 2 {
			r.fail(fname+"#shared-uses", p.Pos(s.fn.Pos()), fmt.Sprintf("only %d shared-stream accesses found in the task (expected at least the length and the data transfer)", len(uses)))
		}
		var k keyer
		for _, u := range uses {
			what := describeCall(p, u)
			key := k.key(fname, "shared."+what)
			c := callOf(u)
			if s.lifted[u] {
				what = "helper " + what
			} else if c == nil || !c.IsInvoke() || fieldVarOfLoad(c.Value) != s.stream {
				r.fail(key, p.IPos(u), "the shared bitstream escapes the task (passed or stored instead of being called): exclusive access cannot be established")
				continue
			}
			dom := false
			for _, e := range acq {
				if edgeDominates(s.fn, e, u.Block()) {
					dom = true
				}
			}
			if !dom {
				r.fail(key, p.IPos(u), fmt.Sprintf("call %s on the shared bitstream is not dominated by the acquire edge (counter == id-1): it can run while another task holds the token", what))
				continue
			}
			after := false
			for _, rel := range releases {
				if instrReaches(rel, u) {
					after = true
				}
			}
			if after {
				r.fail(key, p.IPos(u), fmt.Sprintf("call %s on the shared bitstream is reachable after the token was released", what))
				continue
			}
			r.ok(key+" under token", p.IPos(u))
		}
		// closures of the task must not touch the shared stream
		for _, an := range s.fn.AnonFuncs {
			for _, u := range s.sharedUses(an) {
				r.fail(k.key(p.FnName(an), "shared."+describeCall(p, u)), p.IPos(u), "shared bitstream accessed from a closure of the task (runs outside the token window)")
			}
		}
		// ids: currentBlockID = firstID + taskID + 1 with taskID the loop induction variable (the literal may be
		// filled by a builder helper: its parameters are replaced by the call-site arguments)
		idOK := false
		builder, bcall := taskBuilder(p, s)
		resolve := func(v ssa.Value) ssa.Value {
			if pr, ok := v.(*ssa.Parameter); ok && builder != s.parent && bcall != nil {
				for i, q := range builder.Params {
					if q == pr && i < len(bcall.Common().Args) {
						return bcall.Common().Args[i]
					}
				}
			}
			return v
		}
		eachInstr(builder, func(i ssa.Instruction) {
			st, ok := i.(*ssa.Store)
			if !ok || fieldVarOfAddr(st.Addr) != s.curID {
				return
			}
			if fa, ok := st.Addr.(*ssa.FieldAddr); !ok || namedOf(fa.X.Type()) != s.taskT {
				return
			}
			hasPhi, hasOne, hasBase := false, false, false
			var walk func(v ssa.Value, d int)
			walk = func(v ssa.Value, d int) {
				if d > 8 {
					return
				}
				v = resolve(v)
				switch x := v.(type) {
				case *ssa.BinOp:
					if x.Op == token.ADD {
						walk(x.X, d+1)
						walk(x.Y, d+1)
					}
				case *ssa.Convert:
					walk(x.X, d+1)
				case *ssa.Phi:
					hasPhi = true
				case *ssa.Const:
					if c, ok := constInt(x); ok && c == 1 {
						hasOne = true
					}
				case *ssa.UnOp:
					if fv := fieldVarOfLoad(x); fv != nil && (fv == s.parentCounter || (s.parentCounter == nil && fv.Name() == "blockID")) {
						hasBase = true
					}
				case *ssa.Call:
					if isAtomic(&x.Call, "LoadInt32") && len(x.Call.Args) > 0 && fieldVarOfAddr(x.Call.Args[0]) == s.parentCounter {
						hasBase = true
					}
				}
			}
			walk(st.Val, 0)
			if hasPhi && hasOne && hasBase && liveBase(p, s, st.Val, resolve) {
				idOK = true
				r.fail(p.FnName(s.parent)+"#task-id-live-base", p.IPos(st), "the base block id of a batch is read from the shared counter after tasks of the batch were already started: a task that finishes early advances the counter, the tasks created after that get ids with a hole in front of them and wait forever for a predecessor that does not exist (Write/Read/Close never return, nothing is reported)")
			} else if hasPhi && hasOne && hasBase && staleBase(p, s, st.Val, resolve) {
				idOK = true
				r.fail(p.FnName(s.parent)+"#task-id-stale-base", p.IPos(st), "the base block id of a batch is read before the retry loop: when a whole batch was skipped and the loop starts another one, the new tasks get the ids of the previous batch and wait forever for a counter value that has already passed")
			} else if hasPhi && hasOne && hasBase {
				idOK = true
				r.ok(fmt.Sprintf("%s: task id = base counter + loop index + 1", p.FnName(s.parent)), p.IPos(st))
			} else {
				r.fail(p.FnName(s.parent)+"#task-id", p.IPos(st), "task block id is not base counter + loop index + 1: tasks would not take the token in consecutive order")
				idOK = true
			}
		})
		if !idOK {
			r.fail(p.FnName(s.parent)+"#task-id", p.Pos(s.parent.Pos()), "no assignment of the task block id found in the task literal")
		}
	}
	r.floor(2, ntasks, "task functions (encode, decode)")
}

// allPathsThrough: every path from the start of block b (index idx) to any Return of the function executes one of `through`.
func allPathsThrough(f *ssa.Function, b *ssa.BasicBlock, idx int, through map[ssa.Instruction]bool) bool {
	for _, blk := range f.Blocks {
		if blk == f.Recover {
			continue
		}
		for _, in := range blk.Instrs {
			if ret, ok := in.(*ssa.Return); ok {
				if pathAvoiding(b, idx, ret, through) {
					return false
				}
			}
		}
	}
	return true
}

func ruleCancel(p *Prog, r *RuleResult) {
	nloops, nclos := 0, 0
	for _, owner := range []string{"Writer", "Reader"} {
		s := resolveSide(p, owner)
		fname := p.FnName(s.fn)
		// cancel constant: value of _CANCEL_TASKS_ID if present, else -1
		cancel := int64(-1)
		if c := p.Pkg("io").Const("_CANCEL_TASKS_ID"); c != nil {
			cancel = c.Value.Int64()
		}
		isCancelStore := func(i ssa.Instruction) bool {
			c := callOf(i)
			if c == nil || !isAtomic(c, "StoreInt32", "SwapInt32") || len(c.Args) != 2 || !s.isCounterPtr(c.Args[0]) {
				return false
			}
			v, ok := constInt(c.Args[1])
			return ok && v == cancel
		}

		// (a) spin loops (in the task function or in a helper extracted from it)
		for _, lf := range append([]*ssa.Function{s.fn}, p.helperClosure(s.fn)...) {
		  // a helper is analysed with its parameters bound to the arguments of (one of) its call sites
		  s.bind = nil
		  if lf != s.fn {
			s.bind = map[*ssa.Parameter]ssa.Value{}
			for _, caller := range append([]*ssa.Function{s.fn}, p.helperClosure(s.fn)...) {
				eachInstr(caller, func(ci ssa.Instruction) {
					if c := callOf(ci); c != nil && c.StaticCallee() == lf {
						for k, prm := range lf.Params {
							if k < len(c.Args) {
								if _, done := s.bind[prm]; !done {
									s.bind[prm] = c.Args[k]
								}
							}
						}
					}
				})
			}
		  }
		  for _, b := range lf.Blocks {
			for _, in := range b.Instrs {
				v, ok := in.(ssa.Value)
				if !ok || !s.counterLoad(v) {
					continue
				}
				// is b in a cycle?
				inLoop := false
				loopBlocks := map[*ssa.BasicBlock]bool{}
				fwd := reach(b, nil, nil)
				for x := range fwd {
					// x in loop iff b reachable from x and x reachable from b
					if reach(x, nil, nil)[b] {
						// need a path b ->+ x ->+ b ; for x==b require a real cycle
						if x != b {
							loopBlocks[x] = true
							inLoop = true
						}
					}
				}
				if !inLoop {
					for _, sx := range b.Succs {
						if sx == b {
							inLoop = true
						}
					}
				}
				if !inLoop {
					continue
				}
				loopBlocks[b] = true
				nloops++
				key := fmt.Sprintf("%s#spin-loop", fname)
				// cancel exit: an If in the loop comparing the load with the cancel constant whose taken edge leaves the loop
				hasCancelExit := false
				hasYield := false
				for lb := range loopBlocks {
					if ifi := blockIf(lb); ifi != nil {
						atom, pos := condAtom(ifi.Cond)
						if bo, ok := atom.(*ssa.BinOp); ok && (bo.Op == token.EQL || bo.Op == token.NEQ) {
							var other ssa.Value
							if bo.X == v {
								other = bo.Y
							} else if bo.Y == v {
								other = bo.X
							}
							if other != nil {
								if cv, ok := constInt(other); ok && cv == cancel {
									exit := lb.Succs[succFor(pos, bo.Op == token.EQL)]
									if !loopBlocks[exit] {
										hasCancelExit = true
									}
								}
							}
						}
					}
					for _, li := range lb.Instrs {
						if c := callOf(li); c != nil && (isPkgFunc(c, "runtime", "Gosched") || isPkgFunc(c, "time", "Sleep")) {
							hasYield = true
						}
					}
				}
				if !hasCancelExit {
					r.fail(key+"#cancel-exit", p.IPos(in), "spin wait on the shared counter has no exit on the cancel value: a failed sibling leaves this task waiting forever")
				} else {
					r.ok(key+" has cancel exit", p.IPos(in))
				}
				if !hasYield {
					r.fail(key+"#yield", p.IPos(in), "spin wait on the shared counter never yields (no runtime.Gosched in the loop)")
				} else {
					r.ok(key+" yields", p.IPos(in))
				}
			}
		  }
		}
		s.bind = nil

		// (b,c,e) deferred closure
		d := s.deferred
		if d == nil {
			r.fail(fname+"#deferred-handler", p.Pos(s.fn.Pos()), "task installs no deferred closure calling recover(): a panic or error exit neither cancels the siblings nor signals the WaitGroup")
			continue
		}
		nclos++
		dname := p.FnName(d)
		// the defer must be in the entry block and precede any call that can panic (only allocs/stores before it)
		var deferInstr *ssa.Defer
		eachInstr(s.fn, func(i ssa.Instruction) {
			if df, ok := i.(*ssa.Defer); ok {
				if deferredTarget(df) == d {
					deferInstr = df
				}
			}
		})
		if deferInstr.Block() != s.fn.Blocks[0] {
			r.fail(fname+"#defer-position", p.IPos(deferInstr), "the recovering handler is not installed in the entry block: exits before it leave the WaitGroup and the token untouched")
		} else {
			r.ok(fname+" installs handler at entry", p.IPos(deferInstr))
		}
		// error test: If on load(res.err) != nil
		var errIf *ssa.If
		var errSucc int
		for _, b := range d.Blocks {
			ifi := blockIf(b)
			if ifi == nil {
				continue
			}
			x, succ, ok := nilTest(ifi.Cond)
			if ok && fieldVarOfLoad(x) == s.errField {
				if errIf == nil || b.Dominates(errIf.Block()) {
					errIf, errSucc = ifi, succ
				}
			}
		}
		if errIf == nil {
			r.fail(dname+"#err-test", p.Pos(d.Pos()), "deferred handler does not test the task error: a failed task never cancels its siblings")
			continue
		}
		var cancels = map[ssa.Instruction]bool{}
		eachInstr(d, func(i ssa.Instruction) {
			if isCancelStore(i) {
				cancels[i] = true
			}
		})
		errBlock := errIf.Block().Succs[errSucc]
		if len(cancels) == 0 || !allPathsThrough(d, errBlock, 0, cancels) {
			r.fail(dname+"#cancel-on-error", p.IPos(errIf), "the error edge of the deferred handler does not always store the cancel value into the shared counter: waiting tasks are never released")
		} else {
			r.ok(dname+" error edge stores cancel", p.IPos(errIf))
		}
		// recovered panic stores an error before the test
		var rec ssa.Value
		eachInstr(d, func(i ssa.Instruction) {
			if c := callOf(i); c != nil {
				if b, ok := c.Value.(*ssa.Builtin); ok && b.Name() == "recover" {
					rec = i.(ssa.Value)
				}
			}
		})
		recOK := false
		if rec != nil {
			for _, ref := range *rec.Referrers() {
				bo, ok := ref.(*ssa.BinOp)
				if !ok {
					continue
				}
				for _, rr := range *bo.Referrers() {
					ifi, ok := rr.(*ssa.If)
					if !ok {
						continue
					}
					x, succ, ok := nilTest(ifi.Cond)
					if !ok || x != rec {
						continue
					}
					// all paths from the panic edge to errIf store a non-nil error
					stores := map[ssa.Instruction]bool{}
					eachInstr(d, func(i ssa.Instruction) {
						if st, ok := i.(*ssa.Store); ok && fieldVarOfAddr(st.Addr) == s.errField && !isNilConst(st.Val) {
							stores[i] = true
						}
					})
					if len(stores) > 0 && !pathAvoiding(ifi.Block().Succs[succ], 0, errIf, stores) && instrDominates(rec.(ssa.Instruction), errIf) {
						recOK = true
					}
				}
			}
		}
		if !recOK {
			r.fail(dname+"#panic-to-error", p.Pos(d.Pos()), "a recovered panic does not always store a non-nil task error before the error test: a panicking task would pass the token as if it had succeeded")
		} else {
			r.ok(dname+" recovered panic becomes task error before the test", p.IPos(rec.(ssa.Instruction)))
		}
		// (c) Done on every path (in the handler, or deferred separately at entry)
		dones := map[ssa.Instruction]bool{}
		isDone := func(c *ssa.CallCommon) bool {
			return c != nil && isMethodNamed(c, "sync", "WaitGroup", "Done")
		}
		eachInstr(d, func(i ssa.Instruction) {
			if isDone(callOf(i)) {
				dones[i] = true
			}
		})
		doneOK := len(dones) > 0 && allPathsThrough(d, d.Blocks[0], 0, dones)
		doneEarly := false
		if !doneOK {
			// a separately deferred Done must be registered BEFORE the handler (defers run last-in first-out): the
			// parent may only be released after the handler has published the task error and the counter
			eachInstr(s.fn, func(i ssa.Instruction) {
				if df, ok := i.(*ssa.Defer); ok && isDone(&df.Call) && df.Block() == s.fn.Blocks[0] {
					if deferInstr != nil && instrDominates(df, deferInstr) {
						doneOK = true
					} else {
						doneEarly = true
					}
				}
			})
		}
		if doneEarly && !doneOK {
			r.fail(dname+"#wg-done-order", p.Pos(d.Pos()), "WaitGroup.Done is deferred after the exit handler, so it runs before it: processBlock can pass Wait and read the results while the failing task has not yet stored its error nor cancelled its siblings - the failure is reported as success")
		} else if !doneOK {
			r.fail(dname+"#wg-done", p.Pos(d.Pos()), "WaitGroup.Done is not called on every path of the task's exit handler: processBlock would wait forever")
		} else {
			r.ok(dname+" calls Done on every path, after the error and the counter were published", p.Pos(d.Pos()))
		}
		// inside the handler, Done comes after the error store of a recovered panic and after the counter update
		for dn := range dones {
			eachInstr(d, func(i ssa.Instruction) {
				isPub := false
				if st, ok := i.(*ssa.Store); ok && fieldVarOfAddr(st.Addr) == s.errField {
					isPub = true
				}
				if s.isCounterWrite(i) {
					isPub = true
				}
				if isPub && instrReaches(dn, i) {
					r.fail(dname+"#wg-done-order", p.IPos(dn), "the exit handler signals the WaitGroup before it has finished publishing the task error / the shared counter")
				}
			})
		}
		// the handler must not be able to panic itself on the recovered value
		eachInstr(d, func(i ssa.Instruction) {
			ta, ok := i.(*ssa.TypeAssert)
			if !ok || ta.CommaOk {
				return
			}
			if rec != nil && derivesFromValue(ta.X, rec, 0) {
				r.fail(dname+"#handler-can-panic", p.IPos(ta), "the exit handler asserts the type of the recovered value without the comma-ok form: a panic carrying another type (the bitstream also panics with plain strings) panics again inside the deferred function of the task goroutine and terminates the process")
			}
		})
		// (e) non-cancel counter writes must hold the token
		for _, f := range []*ssa.Function{s.fn, d} {
			_ = s.acquireEdges
			var k keyer
			for _, w := range s.counterWrites(f) {
				if isCancelStore(w) {
					continue
				}
				key := k.key(p.FnName(f), "counter."+describeCall(p, w))
				c := callOf(w)
				if c == nil {
					r.fail(key, p.IPos(w), "non-atomic store to the shared block counter")
					continue
				}
				if isAtomic(c, "CompareAndSwapInt32") && len(c.Args) == 3 && s.isCurMinus1(c.Args[1]) && s.isCurID(c.Args[2]) {
					r.ok(key+" CAS(id-1 -> id)", p.IPos(w))
					continue
				}
				// A plain Store(id) - even by the token holder, even right after a Load that saw id-1 - can overwrite the
				// cancel value that a task with a smaller id stores concurrently when its decoding fails: the failure is
				// still reported once, but the counter no longer says "cancelled" and the next call carries on with the
				// blocks after the failed one. Only a compare-and-swap from id-1 is safe.
				if isAtomic(c, "StoreInt32") && len(c.Args) == 2 && s.isCurID(c.Args[1]) {
					r.fail(key, p.IPos(w), "the shared counter is advanced with a plain Store(id): it can overwrite the cancel value stored concurrently by a failing task with a smaller id, so a later call resumes after the failed block instead of staying failed (use CompareAndSwap(id-1, id))")
				} else {
					r.fail(key, p.IPos(w), "the shared counter is advanced without holding the token (not a CAS from id-1): it can overwrite a cancel or reorder tasks")
				}
			}
		}

		// (d) parent: Add before go, Wait dominates reads of results, Wait on all paths after go
		var waits = map[ssa.Instruction]bool{}
		var adds []ssa.Instruction
		eachInstr(s.parent, func(i ssa.Instruction) {
			if c := callOf(i); c != nil {
				if isMethodNamed(c, "sync", "WaitGroup", "Wait") {
					waits[i] = true
				}
				if isMethodNamed(c, "sync", "WaitGroup", "Add") {
					adds = append(adds, i)
				}
			}
		})
		pname := p.FnName(s.parent)
		for n, g := range s.gos {
			key := fmt.Sprintf("%s#go#%d", pname, n+1)
			addOK := false
			for _, a := range adds {
				if instrDominates(a, g) && a.Block() == g.Block() {
					addOK = true
				}
			}
			if !addOK {
				r.fail(key+"#add", p.IPos(g), "no WaitGroup.Add in the same loop iteration before the go statement")
			} else {
				r.ok(key+" preceded by Add", p.IPos(g))
			}
			if len(waits) == 0 || !allPathsThrough(s.parent, g.Block(), instrIndex(g)+1, waits) {
				r.fail(key+"#wait", p.IPos(g), "a path from the go statement to a return of processBlock skips WaitGroup.Wait: results and buffers would be read while tasks are running")
			} else {
				r.ok(key+" joined by Wait on every path", p.IPos(g))
			}
		}
		// reads of task results: loads through element addresses of the results slice (type []<resT>)
		nreads := 0
		eachInstr(s.parent, func(i ssa.Instruction) {
			ia, ok := i.(*ssa.IndexAddr)
			if !ok {
				return
			}
			sl, ok := ia.X.Type().Underlying().(*types.Slice)
			if !ok || namedOf(sl.Elem()) != s.resT {
				return
			}
			for _, ref := range *ia.Referrers() {
				isRead := false
				switch x := ref.(type) {
				case *ssa.UnOp:
					isRead = x.Op == token.MUL
				case *ssa.FieldAddr:
					isRead = true
				}
				if !isRead {
					continue
				}
				nreads++
				dom := false
				for w := range waits {
					if instrDominates(w, ref) {
						dom = true
					}
				}
				if !dom {
					r.fail(fmt.Sprintf("%s#results-read", pname), p.IPos(ref), "task results are read on a path that has not passed WaitGroup.Wait")
				}
			}
		})
		if nreads == 0 {
			// the scan of the results may live in a helper: its call must come after Wait
			if sf, sc := scanFunction(p, s); sf != s.parent && sc != nil {
				dom := false
				for w := range waits {
					if instrDominates(w, sc) {
						dom = true
					}
				}
				if dom {
					nreads = 1
					r.ok(fmt.Sprintf("%s hands the results to %s only after Wait", pname, sf.Name()), p.IPos(sc))
				} else {
					r.fail(fmt.Sprintf("%s#results-read", pname), p.IPos(sc), "task results are scanned on a path that has not passed WaitGroup.Wait")
					nreads = 1
				}
			}
		}
		if nreads == 0 && s.entry != s.parent {
			// the launcher returns the results to processBlock: every return must come after Wait
			okRet, nret := true, 0
			for _, b := range s.parent.Blocks {
				ret, isRet := b.Instrs[len(b.Instrs)-1].(*ssa.Return)
				if !isRet || b == s.parent.Recover {
					continue
				}
				nret++
				dom := false
				for w := range waits {
					if instrDominates(w, ret) {
						dom = true
					}
				}
				if !dom {
					okRet = false
					r.fail(fmt.Sprintf("%s#results-read", pname), p.IPos(ret), "the function that launches the tasks can return to processBlock (which scans the results) on a path that has not passed WaitGroup.Wait")
				}
			}
			if okRet && nret > 0 {
				nreads = 1
				r.ok(fmt.Sprintf("%s returns to %s (which scans the results) only after Wait", pname, s.entry.Name()), p.Pos(s.parent.Pos()))
			}
		}
		if nreads == 0 {
			r.fail(pname+"#results-read", p.Pos(s.parent.Pos()), "processBlock never reads the task results: task errors are dropped")
		} else if len(r.Findings) == 0 || nreads > 0 {
			r.ok(fmt.Sprintf("%s reads results only after Wait (%d reads)", pname, nreads), p.Pos(s.parent.Pos()))
		}
	}
	r.floor(4, nloops+nclos, "spin loops + deferred handlers")
}

// mayBeNil: the returned error operand may be nil (nil constant or a phi containing one).
func mayBeNil(v ssa.Value, depth int) bool {
	if depth > 6 {
		return true
	}
	switch x := v.(type) {
	case *ssa.Const:
		return x.IsNil()
	case *ssa.Phi:
		for _, e := range x.Edges {
			if mayBeNil(e, depth+1) {
				return true
			}
		}
		return false
	case *ssa.MakeInterface:
		// a typed pointer wrapped in an interface: non-nil interface
		return false
	case *ssa.ChangeInterface:
		return mayBeNil(x.X, depth+1)
	case *ssa.Alloc:
		return false
	case *ssa.Call:
		// constructors of fresh errors never return nil
		if isPkgFunc(&x.Call, "errors", "New") || isPkgFunc(&x.Call, "fmt", "Errorf") {
			return false
		}
	case *ssa.UnOp:
		// named result read back after `*result = v; rundefers`: use the last store in the same block
		if x.Op == token.MUL {
			// sentinel errors of the standard library (io.EOF, io.ErrNoProgress, ...) are never nil
			if g, ok := x.X.(*ssa.Global); ok && g.Pkg != nil && isErrType(x.Type()) {
				if pp := g.Pkg.Pkg.Path(); !strings.Contains(pp, ".") && (strings.HasPrefix(g.Name(), "Err") || g.Name() == "EOF") {
					return false
				}
			}
			if al, ok := x.X.(*ssa.Alloc); ok {
				var last ssa.Value
				for _, in := range x.Block().Instrs {
					if in == ssa.Instruction(x) {
						break
					}
					if st, ok := in.(*ssa.Store); ok && st.Addr == ssa.Value(al) {
						last = st.Val
					}
				}
				if last != nil {
					return mayBeNil(last, depth+1)
				}
			}
		}
	}
	return true // unknown: calls, loads ...
}

func rulePoison(p *Prog, r *RuleResult) {
	s := resolveSide(p, "Writer")
	cancel := int64(-1)
	if c := p.Pkg("io").Const("_CANCEL_TASKS_ID"); c != nil {
		cancel = c.Value.Int64()
	}
	fname := p.FnName(s.fn)
	pname := p.FnName(s.entry)
	// shape A: the cancel exit of the spin loop stores a non-nil task error
	shapeA := false
	for _, e := range s.cancelEdges(s.fn) {
		exit := e.from.Succs[e.succ]
		stores := map[ssa.Instruction]bool{}
		eachInstr(s.fn, func(i ssa.Instruction) {
			if st, ok := i.(*ssa.Store); ok && fieldVarOfAddr(st.Addr) == s.errField && !isNilConst(st.Val) {
				stores[i] = true
			}
		})
		if len(stores) > 0 && allPathsThrough(s.fn, exit, 0, stores) {
			shapeA = true
			r.ok(fname+" cancel exit stores a task error", p.IPos(e.from.Instrs[len(e.from.Instrs)-1]))
		}
	}
	// shape B: processBlock tests the counter against the cancel value; the cancelled edge returns only non-nil errors;
	// every possibly-nil return and every go statement is dominated by the not-cancelled edge.
	shapeB := false
	var why string
	for _, b := range s.entry.Blocks {
		ifi := blockIf(b)
		if ifi == nil {
			continue
		}
		atom, pos := condAtom(ifi.Cond)
		bo, ok := atom.(*ssa.BinOp)
		if !ok || (bo.Op != token.EQL && bo.Op != token.NEQ) {
			continue
		}
		isCounter := func(v ssa.Value) bool {
			if c, ok := v.(*ssa.Call); ok && isAtomic(&c.Call, "LoadInt32") && len(c.Call.Args) == 1 {
				if fv := fieldVarOfAddr(c.Call.Args[0]); fv != nil && fv == s.parentCounter {
					return true
				}
			}
			if fv := fieldVarOfLoad(v); fv != nil && fv == s.parentCounter {
				return true
			}
			return false
		}
		var other ssa.Value
		if isCounter(bo.X) {
			other = bo.Y
		} else if isCounter(bo.Y) {
			other = bo.X
		}
		if other == nil {
			continue
		}
		if cv, ok := constInt(other); !ok || cv != cancel {
			continue
		}
		cancelledSucc := succFor(pos, bo.Op == token.EQL)
		liveEdge := edge{b, 1 - cancelledSucc}
		good := true
		for _, blk := range s.entry.Blocks {
			for _, in := range blk.Instrs {
				switch x := in.(type) {
				case *ssa.Return:
					if len(x.Results) == 0 {
						continue
					}
					if retMayBeNil(x, len(x.Results)-1) && !edgeDominates(s.entry, liveEdge, blk) {
						// returns that precede the test on an error path are fine only if non-nil; this one may be nil
						good = false
						why = fmt.Sprintf("return at %s may report success without passing the cancel test", p.IPos(x))
					}
				case *ssa.Go:
					if !edgeDominates(s.entry, liveEdge, blk) {
						good = false
						why = fmt.Sprintf("go statement at %s not dominated by the cancel test", p.IPos(x))
					}
				}
			}
		}
		if good {
			shapeB = true
			r.ok(pname+" refuses to report success once the counter is cancelled", p.IPos(ifi))
		}
	}
	if !shapeA && !shapeB {
		msg := "after a failed batch the shared counter stays cancelled, but neither the cancel exit of the task stores an error nor does processBlock test the counter before every success return: later Write/Close calls report success for a stream that lost blocks"
		if why != "" {
			msg += " (" + why + ")"
		}
		r.fail(pname+"#cancel-sticky", p.Pos(s.entry.Pos()), msg)
	}
	// first-error scan: the loop over results returns r.err when non-nil (in processBlock or in a scan helper whose
	// result processBlock returns)
	sf, sc := scanFunction(p, s)
	scan := false
	eachInstr(sf, func(i ssa.Instruction) {
		ret, ok := i.(*ssa.Return)
		if !ok || len(ret.Results) == 0 {
			return
		}
		v := stripConv(rvals(ret)[len(ret.Results)-1])
		if fieldVarOfLoad(v) == s.errField {
			scan = true
		}
		if f, ok := v.(*ssa.Field); ok {
			if st, ok := f.X.Type().Underlying().(*types.Struct); ok && st.Field(f.Field) == s.errField {
				scan = true
			}
		}
	})
	errEdgeReturnsError(p, r, sf, s.errField)
	if sf != s.entry && sc != nil {
		scanResultPropagated(p, r, s.entry, sc)
	}
	if !scan {
		r.fail(pname+"#first-error", p.Pos(s.entry.Pos()), "processBlock never returns a task's error: a failed task is not reported by the enclosing call")
	} else {
		r.ok(pname+" returns the first task error", p.Pos(s.entry.Pos()))
	}
	r.floor(1, r.Obligations, "poison obligations")
}

// retMayBeNil: the idx-th operand of ret may be nil, taking into account named results written just before the
// return and nil tests that dominate the return.
func retMayBeNil(ret *ssa.Return, idx int) bool {
	v := rvals(ret)[idx]
	if u, ok := v.(*ssa.UnOp); ok && u.Op == token.MUL {
		if al, ok := u.X.(*ssa.Alloc); ok {
			for _, in := range u.Block().Instrs {
				if in == ssa.Instruction(u) {
					break
				}
				if st, ok := in.(*ssa.Store); ok && st.Addr == ssa.Value(al) {
					v = st.Val
				}
			}
		}
	}
	if !mayBeNil(v, 0) {
		return false
	}
	// dominated by the non-nil edge of a test of the same value?
	f := ret.Parent()
	cands := map[ssa.Value]bool{v: true, stripConv(v): true}
	for _, b := range f.Blocks {
		if ifi := blockIf(b); ifi != nil {
			if x, succ, ok := nilTest(ifi.Cond); ok && cands[x] {
				if edgeDominates(f, edge{b, succ}, ret.Block()) {
					return false
				}
			}
		}
	}
	return true
}

// scanResultPropagated: the error result of a scan helper is returned by processBlock (directly, or tested and
// returned on its non-nil edge).
func scanResultPropagated(p *Prog, r *RuleResult, parent *ssa.Function, sc *ssa.Call) {
	pname := p.FnName(parent)
	ev, has := errResult(sc)
	if !has || ev == nil {
		r.fail(pname+"#scan-result", p.IPos(sc), "the error found by the result scan is discarded by processBlock")
		return
	}
	// returned directly?
	direct := false
	seen := map[ssa.Value]bool{}
	var walk func(v ssa.Value)
	walk = func(v ssa.Value) {
		if seen[v] {
			return
		}
		seen[v] = true
		for _, ref := range *v.Referrers() {
			switch x := ref.(type) {
			case *ssa.Return:
				direct = true
			case *ssa.MakeInterface:
				walk(x)
			case *ssa.ChangeInterface:
				walk(x)
			case *ssa.Phi:
				walk(x)
			}
		}
	}
	walk(ev)
	if ifi, succ, ok := errEdgeOf(sc); ok {
		bad := false
		for rb := range reach(ifi.Block().Succs[succ], nil, nil) {
			if ret, ok := rb.Instrs[len(rb.Instrs)-1].(*ssa.Return); ok && rb != parent.Recover && retMayBeNil(ret, len(ret.Results)-1) {
				// returning the tested value itself is fine
				if !seen[stripConv(rvals(ret)[len(ret.Results)-1])] && !seen[rvals(ret)[len(ret.Results)-1]] {
					bad = true
				}
			}
		}
		if bad {
			r.fail(pname+"#scan-result", p.IPos(ifi), "after the result scan reported an error processBlock can still return without an error")
		} else {
			r.ok(pname+": the error of the result scan is returned", p.IPos(ifi))
		}
		return
	}
	if direct {
		r.ok(pname+": the error of the result scan is returned", p.IPos(sc))
	} else {
		r.fail(pname+"#scan-result", p.IPos(sc), "the error found by the result scan is neither tested nor returned by processBlock")
	}
}

// derivesFromValue: v is target or reaches it through phi / extract / interface conversions.
func derivesFromValue(v, target ssa.Value, d int) bool {
	if d > 6 {
		return false
	}
	if v == target {
		return true
	}
	switch x := v.(type) {
	case *ssa.Phi:
		for _, e := range x.Edges {
			if derivesFromValue(e, target, d+1) {
				return true
			}
		}
	case *ssa.Extract:
		return derivesFromValue(x.Tuple, target, d+1)
	case *ssa.ChangeInterface:
		return derivesFromValue(x.X, target, d+1)
	case *ssa.MakeInterface:
		return derivesFromValue(x.X, target, d+1)
	case *ssa.TypeAssert:
		return derivesFromValue(x.X, target, d+1)
	}
	return false
}

// staleBase: the load of the parent's block counter that feeds the task ids can be bypassed on a path from a Wait
// back to a go statement (a retry loop that does not re-read the counter).
// liveBase: a load of the shared counter that feeds the task id can execute after a go statement of the batch and
// before the Wait (i.e. while tasks that advance the counter are running).
func liveBase(p *Prog, s *taskSide, v ssa.Value, resolve func(ssa.Value) ssa.Value) bool {
	var loads []ssa.Instruction
	seen := map[ssa.Value]bool{}
	var walk func(v ssa.Value, d int)
	walk = func(v ssa.Value, d int) {
		if d > 8 || seen[v] {
			return
		}
		seen[v] = true
		v = resolve(v)
		switch x := v.(type) {
		case *ssa.BinOp:
			walk(x.X, d+1)
			walk(x.Y, d+1)
		case *ssa.Convert:
			walk(x.X, d+1)
		case *ssa.UnOp:
			if fv := fieldVarOfLoad(x); fv != nil && x.Parent() == s.parent && fv == s.parentCounter {
				loads = append(loads, x)
			}
		case *ssa.Call:
			if isAtomic(&x.Call, "LoadInt32") && len(x.Call.Args) > 0 && fieldVarOfAddr(x.Call.Args[0]) == s.parentCounter && x.Parent() == s.parent {
				loads = append(loads, x)
			}
		}
	}
	walk(v, 0)
	waits := map[ssa.Instruction]bool{}
	eachInstr(s.parent, func(i ssa.Instruction) {
		if c := callOf(i); c != nil && isMethodNamed(c, "sync", "WaitGroup", "Wait") {
			waits[i] = true
		}
	})
	for _, l := range loads {
		for _, g := range s.gos {
			if g.Parent() == s.parent && pathAvoiding(g.Block(), instrIndex(g)+1, l, waits) {
				return true
			}
		}
	}
	return false
}

func staleBase(p *Prog, s *taskSide, v ssa.Value, resolve func(ssa.Value) ssa.Value) bool {
	var loads []ssa.Instruction
	seen := map[ssa.Value]bool{}
	var walk func(v ssa.Value, d int)
	walk = func(v ssa.Value, d int) {
		if d > 8 || seen[v] {
			return
		}
		seen[v] = true
		v = resolve(v)
		switch x := v.(type) {
		case *ssa.BinOp:
			walk(x.X, d+1)
			walk(x.Y, d+1)
		case *ssa.Convert:
			walk(x.X, d+1)
		case *ssa.UnOp:
			if fv := fieldVarOfLoad(x); fv != nil && x.Parent() == s.parent && isInt32(fv.Type()) {
				loads = append(loads, x)
			}
		case *ssa.Call:
			if isAtomic(&x.Call, "LoadInt32") && len(x.Call.Args) > 0 && fieldVarOfAddr(x.Call.Args[0]) == s.parentCounter && x.Parent() == s.parent {
				loads = append(loads, x)
			}
		}
	}
	walk(v, 0)
	if len(loads) == 0 {
		return false
	}
	avoid := map[ssa.Instruction]bool{}
	for _, l := range loads {
		avoid[l] = true
	}
	stale := false
	eachInstr(s.parent, func(i ssa.Instruction) {
		c := callOf(i)
		if c == nil || !isMethodNamed(c, "sync", "WaitGroup", "Wait") {
			return
		}
		for _, g := range s.gos {
			if pathAvoiding(i.Block(), instrIndex(i)+1, g, avoid) {
				stale = true
			}
		}
	})
	return stale
}

func isInt32(t types.Type) bool {
	b, ok := t.Underlying().(*types.Basic)
	return ok && b.Kind() == types.Int32
}

// comparedWithCounter: in fn (or a same-package helper it calls with the values) a value derived from field idf of the
// receiver is compared with == / != against a value loaded atomically through the pointer field ctr.
func comparedWithCounter(fn *ssa.Function, idf, ctr *types.Var) bool {
	if ctr == nil {
		return false
	}
	fromField := func(v ssa.Value, f *types.Var) bool {
		seen := map[ssa.Value]bool{}
		var walk func(v ssa.Value, d int) bool
		walk = func(v ssa.Value, d int) bool {
			if v == nil || seen[v] || d > 8 {
				return false
			}
			seen[v] = true
			if fv := fieldVarOfLoad(v); fv == f {
				return true
			}
			switch x := v.(type) {
			case *ssa.BinOp:
				return walk(x.X, d+1) || walk(x.Y, d+1)
			case *ssa.Convert:
				return walk(x.X, d+1)
			case *ssa.Phi:
				for _, e := range x.Edges {
					if walk(e, d+1) {
						return true
					}
				}
			case *ssa.Call:
				if isAtomic(&x.Call, "LoadInt32") {
					for _, a := range x.Call.Args {
						if walk(a, d+1) {
							return true
						}
					}
				}
			case *ssa.UnOp:
				return walk(x.X, d+1)
			}
			return false
		}
		return walk(v, 0)
	}
	found := false
	check := func(f *ssa.Function) {
		eachInstr(f, func(i ssa.Instruction) {
			if c := callOf(i); c != nil && isAtomic(c, "CompareAndSwapInt32") && len(c.Args) >= 2 {
				if fromField(c.Args[0], ctr) && fromField(c.Args[1], idf) {
					found = true
				}
			}
			bo, ok := i.(*ssa.BinOp)
			if !ok || (bo.Op != token.EQL && bo.Op != token.NEQ) {
				return
			}
			if (fromField(bo.X, idf) && fromField(bo.Y, ctr)) || (fromField(bo.Y, idf) && fromField(bo.X, ctr)) {
				found = true
			}
		})
	}
	check(fn)
	for _, af := range fn.AnonFuncs {
		check(af)
	}
	return found
}

package main

import (
	"fmt"
	"go/token"
	"go/types"
	"sort"
	"strings"
	"unicode"

	"golang.org/x/tools/go/ssa"
)

// ---------------------------------------------------------------------------------------
// Value-flow rules: R-HINT, R-CTXTYPE, R-NAMECMP, R-SRC-RO, R-GLOBAL-RO
// ---------------------------------------------------------------------------------------

func init() {
	register("R-HINT", "values derived from the advisory size hint reach no branch, index, slice bound or task field of the Writer data path", true, ruleHint)
	register("R-CTXTYPE", "every constant key of the map[string]any context is stored with the static type that every consumer asserts", false, ruleCtxType)
	register("R-NAMECMP", "a codec name taken from the context reaches a case-sensitive comparison only through strings.ToUpper", true, ruleNameCmp)
	register("R-SRC-RO", "no write path to the src argument exists in any transform Forward implementation or its callees", true, ruleSrcRO)
	register("R-GLOBAL-RO", "package-level state of the library is written only during initialisation, including through aliases", true, ruleGlobalRO)
}

// ---------------- R-HINT ----------------

func ruleHint(p *Prog, r *RuleResult) {
	wt := p.Pkg("io").Type("Writer")
	if wt == nil {
		undecided("anchor unresolved: io.Writer")
	}
	st := wt.Type().Underlying().(*types.Struct)
	var hintFields []*types.Var
	for i := 0; i < st.NumFields(); i++ {
		if n := st.Field(i).Name(); n == "inputSize" || n == "nbInputBlocks" {
			hintFields = append(hintFields, st.Field(i))
		}
	}
	fl := NewFlow(p, false)
	exemptFn := func(f *ssa.Function) bool {
		n := f.Name()
		return (p.Rel(f) == "internal" && n == "ComputeJobsPerTask")
	}
	fl.NoEnter = exemptFn
	fl.ExtResult = func(c *ssa.CallCommon) bool { return true }
	whdr := p.MethodOpt("io", "Writer", "writeHeader")
	// the header writer is the one legitimate consumer of the hint: nothing inside it is a source of further flow
	fl.Sanitize = func(v ssa.Value) bool {
		if in, ok := v.(ssa.Instruction); ok && whdr != nil && in.Parent() == whdr {
			return true
		}
		return false
	}
	nsrc := 0
	for _, hf := range hintFields {
		fl.AddField(hf)
		nsrc += len(fl.fieldAddrs[hf])
	}
	// the context cell itself and everything stored under it
	fl.AddCell("fileSize")
	nsrc += len(fl.cellLookups["fileSize"])
	// parameters stored under ctx["fileSize"] flow forward by themselves (NewWriter's fileSize parameter)
	for _, f := range p.ModFns {
		eachInstr(f, func(i ssa.Instruction) {
			if mu, ok := i.(*ssa.MapUpdate); ok {
				if k, ok := ctxKey(mu.Map, mu.Key); ok && k == "fileSize" && p.Rel(f) == "io" {
					fl.Add(mu.Value)
					if mi, ok := mu.Value.(*ssa.MakeInterface); ok {
						fl.Add(mi.X)
					}
					nsrc++
				}
			}
		})
	}
	fl.Run()
	// scope: the Writer data path
	s := resolveSide(p, "Writer")
	wh := p.MethodOpt("io", "Writer", "writeHeader")
	roots := []*ssa.Function{p.Method("io", "Writer", "Write"), p.Method("io", "Writer", "Close"), s.parent, s.entry, s.fn}
	// the constructor sizes the block buffers: it is part of the data path as far as allocations are concerned
	ctor := p.FuncOpt("io", "createWriterWithCtx")
	if ctor != nil {
		roots = append(roots, ctor)
	}
	scope := p.Reachable(roots, func(f *ssa.Function) bool { return f == wh || exemptFn(f) || !p.InModule(f) })
	delete(scope, wh)
	var k keyer
	nscope := 0
	for _, f := range p.ModFns {
		if !scope[f] || exemptFn(f) || !p.InModule(f) || !isLibRel(p.Rel(f)) {
			continue // listeners implemented by the CLI are not part of the data path
		}
		nscope++
		fname := p.FnName(f)
		eachInstr(f, func(i ssa.Instruction) {
			bad := ""
			switch x := i.(type) {
			case *ssa.If:
				if fl.Tainted(x.Cond) {
					bad = "branch condition"
				}
			case *ssa.IndexAddr:
				if fl.Tainted(x.Index) {
					bad = "index"
				}
			case *ssa.Index:
				if fl.Tainted(x.Index) {
					bad = "index"
				}
			case *ssa.Slice:
				for _, b := range []ssa.Value{x.Low, x.High, x.Max} {
					if b != nil && fl.Tainted(b) {
						bad = "slice bound"
					}
				}
			case *ssa.Store:
				if fv := fieldVarOfAddr(x.Addr); fv != nil && fl.Tainted(x.Val) {
					if n := namedOf(x.Addr.(*ssa.FieldAddr).X.Type()); n == s.taskT {
						bad = "task field " + fv.Name()
					}
				}
			case *ssa.MakeSlice:
				// a byte buffer sized from the hint (block buffers must be sized from the block size alone)
				if isByteSlice(x.Type()) && (fl.Tainted(x.Len) || fl.Tainted(x.Cap)) {
					bad = "allocation size of a byte buffer"
				}
			}
			if bad != "" && f == ctor && !strings.HasPrefix(bad, "allocation") {
				bad = "" // the constructor may branch on the hint (it derives the advisory block count); only buffer sizes matter there
			}
			if bad != "" {
				r.sink(k.key(fname, "hint."+strings.Fields(bad)[0]), p.IPos(i),
					fmt.Sprintf("a value derived from the advisory input-size hint steers the data path (%s): with a hint that differs from the data actually written, buffered blocks can be skipped or re-encoded", bad))
			}
		})
	}
	r.info(fmt.Sprintf("hint sources: %d sites; %d values tainted; %d data-path functions scanned for control/index sinks", nsrc, fl.Count(), nscope), p.Pos(s.parent.Pos()))
	if len(r.Findings) == 0 {
		r.ok("no hint-derived value reaches a branch, index, slice bound or task field outside writeHeader/ComputeJobsPerTask", p.Pos(s.parent.Pos()))
	}
	r.floor(1, nsrc, "hint sources")
}

// ---------------- R-CTXTYPE ----------------

type ctxSite struct {
	key  string
	typ  types.Type
	pos  string
	fn   string
	soft bool // comma-ok assertion
}

// keyParamHelpers: functions whose Lookup index on a ctx map is one of their parameters.
// Returns fn -> (param index, asserted types in the helper).
func ctxHelpers(p *Prog) map[*ssa.Function]int {
	out := map[*ssa.Function]int{}
	for _, f := range p.ModFns {
		eachInstr(f, func(i ssa.Instruction) {
			l, ok := i.(*ssa.Lookup)
			if !ok {
				return
			}
			if _, ok := l.X.Type().Underlying().(*types.Map); !ok {
				return
			}
			if pr, ok := l.Index.(*ssa.Parameter); ok {
				for idx, q := range f.Params {
					if q == pr {
						out[f] = idx
					}
				}
			}
		})
	}
	return out
}

// ctxHelpersDeep: ctxHelpers plus the wrappers that hand their own key parameter on to one (getCtxUint -> getCtxValue[T]).
func ctxHelpersDeep(p *Prog) map[*ssa.Function]int {
	out := ctxHelpers(p)
	for changed := true; changed; {
		changed = false
		for _, f := range p.ModFns {
			if _, ok := out[f]; ok {
				continue
			}
			eachInstr(f, func(i ssa.Instruction) {
				c := callOf(i)
				if c == nil || c.StaticCallee() == nil {
					return
				}
				idx, ok := out[c.StaticCallee()]
				if !ok || idx >= len(c.Args) {
					return
				}
				if pr, ok := c.Args[idx].(*ssa.Parameter); ok {
					for k, q := range f.Params {
						if q == pr {
							out[f] = k
							changed = true
						}
					}
				}
			})
		}
	}
	return out
}

// assertsOn collects the types asserted on the value produced by lookup l (through extract/phi).
func assertsOn(v ssa.Value, seen map[ssa.Value]bool, out *[]*ssa.TypeAssert) {
	if seen[v] {
		return
	}
	seen[v] = true
	refs := v.Referrers()
	if refs == nil {
		return
	}
	for _, ref := range *refs {
		switch x := ref.(type) {
		case *ssa.Extract:
			if x.Index == 0 {
				assertsOn(x, seen, out)
			}
		case *ssa.Phi:
			assertsOn(x, seen, out)
		case *ssa.TypeAssert:
			*out = append(*out, x)
		case *ssa.ChangeInterface:
			assertsOn(x, seen, out)
		}
	}
}

func isCtxMap(t types.Type) bool {
	if pt, ok := t.Underlying().(*types.Pointer); ok {
		t = pt.Elem()
	}
	mt, ok := t.Underlying().(*types.Map)
	if !ok {
		return false
	}
	if b, ok := mt.Key().Underlying().(*types.Basic); !ok || b.Kind() != types.String {
		return false
	}
	it, ok := mt.Elem().Underlying().(*types.Interface)
	return ok && it.Empty()
}

func ruleCtxType(p *Prog, r *RuleResult) {
	helpers := ctxHelpers(p)
	stores := map[string][]ctxSite{}
	asserts := map[string][]ctxSite{}
	for _, f := range p.ModFns {
		if p.Rel(f) == "benchmark" {
			continue
		}
		fname := p.FnName(f)
		eachInstr(f, func(i ssa.Instruction) {
			switch x := i.(type) {
			case *ssa.MapUpdate:
				if !isCtxMap(x.Map.Type()) {
					return
				}
				k, ok := ctxKey(x.Map, x.Key)
				if !ok {
					return
				}
				if mi, ok := x.Value.(*ssa.MakeInterface); ok {
					stores[k] = append(stores[k], ctxSite{k, mi.X.Type(), p.IPos(i), fname, false})
				}
			case *ssa.Lookup:
				if !isCtxMap(x.X.Type()) {
					return
				}
				k, ok := ctxKey(x.X, x.Index)
				if !ok {
					return
				}
				var tas []*ssa.TypeAssert
				assertsOn(x, map[ssa.Value]bool{}, &tas)
				for _, ta := range tas {
					if _, isIface := ta.AssertedType.Underlying().(*types.Interface); isIface {
						continue
					}
					asserts[k] = append(asserts[k], ctxSite{k, ta.AssertedType, p.IPos(ta), fname, ta.CommaOk})
				}
			case ssa.CallInstruction:
				c := x.Common()
				callee := c.StaticCallee()
				if callee == nil {
					return
				}
				idx, ok := helpers[callee]
				if !ok || idx >= len(c.Args) {
					return
				}
				kc, ok := c.Args[idx].(*ssa.Const)
				if !ok || kc.Value == nil {
					return
				}
				k := constString(kc)
				// asserted types inside the helper
				eachInstr(callee, func(j ssa.Instruction) {
					l, ok := j.(*ssa.Lookup)
					if !ok {
						return
					}
					if _, isParam := l.Index.(*ssa.Parameter); !isParam {
						return
					}
					var tas []*ssa.TypeAssert
					assertsOn(l, map[ssa.Value]bool{}, &tas)
					for _, ta := range tas {
						asserts[k] = append(asserts[k], ctxSite{k, ta.AssertedType, p.IPos(i), fname + " via " + callee.Name(), ta.CommaOk})
					}
				})
			}
		})
	}
	keys := map[string]bool{}
	for k := range stores {
		keys[k] = true
	}
	for k := range asserts {
		keys[k] = true
	}
	nkeys := 0
	for _, k := range sortedKeys(keys) {
		nkeys++
		ss, as := stores[k], asserts[k]
		if len(ss) == 0 || len(as) == 0 {
			r.info(fmt.Sprintf("key %q: %d store site(s), %d assertion site(s) (nothing to compare)", k, len(ss), len(as)), "-")
			continue
		}
		// the consumers' type: all assertion sites must agree; every store must have that type
		okKey := true
		reported := map[string]bool{}
		for _, s := range ss {
			for _, a := range as {
				if !types.Identical(s.typ, a.typ) {
					okKey = false
					c := fmt.Sprintf("key.%s#store@%s#%s", k, s.fn, types.TypeString(s.typ, nil))
					if reported[c] {
						continue
					}
					reported[c] = true
					r.fail(c, s.pos, fmt.Sprintf("context key %q is stored as %s here but asserted as %s at %s (%s): the consumer's assertion fails (or the value is ignored) at the first block, after construction accepted the configuration",
						k, types.TypeString(s.typ, nil), types.TypeString(a.typ, nil), a.pos, a.fn))
				}
			}
		}
		if okKey {
			r.ok(fmt.Sprintf("key %q: %d store site(s) and %d assertion site(s) agree on %s", k, len(ss), len(as), types.TypeString(ss[0].typ, nil)), ss[0].pos)
		}
	}
	r.floor(10, nkeys, "context keys")
}

// ---------------- R-NAMECMP ----------------

func hasCasedLetter(s string) bool {
	for _, c := range s {
		if unicode.IsLetter(c) {
			return true
		}
	}
	return false
}

func ruleNameCmp(p *Prog, r *RuleResult) {
	fl := NewFlow(p, false)
	fl.Sanitize = func(v ssa.Value) bool {
		c, ok := v.(*ssa.Call)
		if !ok {
			return false
		}
		return isPkgFunc(&c.Call, "strings", "ToUpper") || isPkgFunc(&c.Call, "strings", "ToLower")
	}
	// results of string helpers stay names (TrimSpace, Split ...), others do not
	fl.ExtResult = func(c *ssa.CallCommon) bool {
		o := calleeObj(c)
		return o != nil && o.Pkg() != nil && o.Pkg().Path() == "strings"
	}
	nameKeys := map[string]bool{"transform": true, "entropy": true}
	nsrc := 0
	helpers := ctxHelpers(p)
	for _, f := range p.ModFns {
		if p.Rel(f) == "benchmark" {
			continue
		}
		eachInstr(f, func(i ssa.Instruction) {
			switch x := i.(type) {
			case *ssa.Lookup:
				if k, ok := ctxKey(x.X, x.Index); ok && nameKeys[k] && isCtxMap(x.X.Type()) {
					fl.Add(x)
					nsrc++
				}
			case *ssa.Call:
				callee := x.Call.StaticCallee()
				if idx, ok := helpers[callee]; ok && callee != nil && idx < len(x.Call.Args) {
					if kc, ok := x.Call.Args[idx].(*ssa.Const); ok && kc.Value != nil && nameKeys[constString(kc)] {
						// first result of the helper is the name
						for _, ref := range *x.Referrers() {
							if ex, ok := ref.(*ssa.Extract); ok && ex.Index == 0 {
								fl.Add(ex)
								nsrc++
							}
						}
					}
				}
			}
		})
	}
	// the public constructors take the names as parameters and store them under the keys
	for _, f := range p.ModFns {
		eachInstr(f, func(i ssa.Instruction) {
			if mu, ok := i.(*ssa.MapUpdate); ok && isCtxMap(mu.Map.Type()) {
				if k, ok := ctxKey(mu.Map, mu.Key); ok && nameKeys[k] && p.Rel(f) == "io" {
					if mi, ok := mu.Value.(*ssa.MakeInterface); ok {
						if _, isParam := mi.X.(*ssa.Parameter); isParam {
							fl.Add(mi.X)
							nsrc++
						}
					}
				}
			}
		})
	}
	fl.Run()
	var k keyer
	nsan := 0
	for _, f := range p.ModFns {
		if p.Rel(f) == "benchmark" || p.Rel(f) == "app" {
			continue
		}
		fname := p.FnName(f)
		eachInstr(f, func(i ssa.Instruction) {
			switch x := i.(type) {
			case *ssa.BinOp:
				if x.Op != token.EQL && x.Op != token.NEQ {
					return
				}
				var c *ssa.Const
				var other ssa.Value
				if cc, ok := x.Y.(*ssa.Const); ok {
					c, other = cc, x.X
				} else if cc, ok := x.X.(*ssa.Const); ok {
					c, other = cc, x.Y
				}
				if c == nil || c.Value == nil || !fl.Tainted(other) {
					return
				}
				if b, ok := c.Type().Underlying().(*types.Basic); !ok || b.Info()&types.IsString == 0 {
					return
				}
				if !hasCasedLetter(constString(c)) {
					return
				}
				r.sink(k.key(fname, "cmp."+constString(c)), p.IPos(i),
					fmt.Sprintf("a codec name taken from the context is compared case-sensitively with %q without strings.ToUpper: a lower-case spelling selects a different variant than the numeric type written to the header", constString(c)))
			case *ssa.Call:
				o := calleeObj(&x.Call)
				if o == nil || o.Pkg() == nil || o.Pkg().Path() != "strings" {
					return
				}
				switch o.Name() {
				case "Contains", "HasPrefix", "HasSuffix", "Index", "Compare", "LastIndex", "Count":
				case "ToUpper", "ToLower":
					if len(x.Call.Args) == 1 && fl.vals[x.Call.Args[0]] {
						nsan++
					}
					return
				default:
					return
				}
				if len(x.Call.Args) != 2 {
					return
				}
				a, b := x.Call.Args[0], x.Call.Args[1]
				var c *ssa.Const
				if cc, ok := b.(*ssa.Const); ok && fl.Tainted(a) {
					c = cc
				} else if cc, ok := a.(*ssa.Const); ok && fl.Tainted(b) {
					c = cc
				}
				if c == nil || c.Value == nil || !hasCasedLetter(constString(c)) {
					return
				}
				r.sink(k.key(fname, "strings."+o.Name()+"."+constString(c)), p.IPos(i),
					fmt.Sprintf("a codec name taken from the context is matched case-sensitively with strings.%s(..., %q) without strings.ToUpper: a lower-case spelling selects a different variant than the numeric type written to the header", o.Name(), constString(c)))
			}
		})
	}
	r.info(fmt.Sprintf("name sources: %d; tainted values: %d; sanitised (ToUpper/ToLower) uses: %d", nsrc, fl.Count(), nsan), "-")
	if len(r.Findings) == 0 {
		r.ok("no raw comparison of a context codec name with a cased constant", "-")
	}
	r.floor(4, nsrc, "codec-name sources")
}

// ---------------- alias-mode sinks (shared by R-SRC-RO, R-GLOBAL-RO, R-HASH-PURE, R-BWT-WORKER) ----------------

// readOnlyExt: calls outside the module that only read their slice/pointer arguments.
func readOnlyExt(c *ssa.CallCommon) bool {
	o := calleeObj(c)
	if o == nil || o.Pkg() == nil {
		return false
	}
	pk, n := o.Pkg().Path(), o.Name()
	switch pk {
	case "encoding/binary":
		return strings.HasPrefix(n, "Uint") || n == "Size"
	case "bytes":
		switch n {
		case "Equal", "Compare", "Index", "IndexByte", "HasPrefix", "HasSuffix", "Contains", "Count", "LastIndex", "NewReader", "EqualFold":
			return true
		}
	case "fmt":
		return strings.HasPrefix(n, "Sprint") || strings.HasPrefix(n, "Errorf") || strings.HasPrefix(n, "Print") || strings.HasPrefix(n, "Fprint")
	case "errors":
		return true
	case "strings", "strconv", "unicode/utf8", "math/bits", "math", "sort", "time":
		return pk != "sort"
	case "sync":
		// Mutex/WaitGroup operations on a tainted receiver are synchronisation, not data writes
		return true
	case "hash/crc32", "os", "log", "io":
		return n != "ReadFull" && n != "ReadAtLeast" && n != "Copy" && n != "CopyN" && n != "CopyBuffer"
	}
	return false
}

type aliasSink struct {
	fn   *ssa.Function
	in   ssa.Instruction
	what string
}

// aliasSinks lists writes through tainted references in the module functions accepted by inScope.
func aliasSinks(p *Prog, fl *Flow, inScope func(*ssa.Function) bool) []aliasSink {
	var out []aliasSink
	for _, f := range p.ModFns {
		if !inScope(f) {
			continue
		}
		eachInstr(f, func(i ssa.Instruction) {
			switch x := i.(type) {
			case *ssa.Store:
				if fl.Tainted(x.Addr) {
					out = append(out, aliasSink{f, i, "store"})
				}
			case *ssa.MapUpdate:
				if fl.Tainted(x.Map) {
					out = append(out, aliasSink{f, i, "map update"})
				}
			case ssa.CallInstruction:
				c := x.Common()
				if b, ok := c.Value.(*ssa.Builtin); ok {
					switch b.Name() {
					case "copy", "clear", "append":
						if len(c.Args) > 0 && fl.Tainted(c.Args[0]) {
							out = append(out, aliasSink{f, i, b.Name()})
						}
					case "delete":
						if len(c.Args) > 0 && fl.Tainted(c.Args[0]) {
							out = append(out, aliasSink{f, i, "delete"})
						}
					}
					return
				}
				// call leaving the module with a tainted reference
				callees := p.Callees(x)
				ext := len(callees) == 0
				for _, cl := range callees {
					if !p.InModule(cl) {
						ext = true
					}
				}
				if !ext {
					return
				}
				if readOnlyExt(c) {
					return
				}
				for _, a := range c.Args {
					if fl.Tainted(a) && refLike(a.Type()) {
						out = append(out, aliasSink{f, i, "escapes to " + describeCall(p, i)})
						return
					}
				}
				if c.IsInvoke() && fl.Tainted(c.Value) {
					// method call on a tainted interface value implemented outside the module
					out = append(out, aliasSink{f, i, "escapes to " + describeCall(p, i)})
				}
			}
		})
	}
	sort.SliceStable(out, func(i, j int) bool { return p.IPos(out[i].in) < p.IPos(out[j].in) })
	return out
}

// ---------------- R-SRC-RO ----------------

// isTransformSequence: struct with a slice/array field of the ByteTransform interface.
func isTransformSequence(p *Prog, n *types.Named) bool {
	st, ok := n.Underlying().(*types.Struct)
	if !ok {
		return false
	}
	for i := 0; i < st.NumFields(); i++ {
		var el types.Type
		switch u := st.Field(i).Type().Underlying().(type) {
		case *types.Slice:
			el = u.Elem()
		case *types.Array:
			el = u.Elem()
		}
		if el != nil {
			if en := namedOf(el); en != nil && en.Obj().Name() == "ByteTransform" && types.IsInterface(en) {
				return true
			}
		}
	}
	return false
}

func forwardMethods(p *Prog) []*ssa.Function {
	var out []*ssa.Function
	pk := p.Pkg("transform")
	bt := p.Pkg("").Type("ByteTransform")
	if bt == nil {
		undecided("anchor unresolved: kanzi.ByteTransform")
	}
	iface := bt.Type().Underlying().(*types.Interface)
	for _, name := range sortedKeys(pk.Members) {
		tm, ok := pk.Members[name].(*ssa.Type)
		if !ok {
			continue
		}
		n, ok := tm.Type().(*types.Named)
		if !ok {
			continue
		}
		pt := types.NewPointer(n)
		if !types.Implements(pt, iface) && !types.Implements(n, iface) {
			continue
		}
		if isTransformSequence(p, n) {
			continue
		}
		if f := p.MethodOpt("transform", name, "Forward"); f != nil && f.Blocks != nil {
			out = append(out, f)
		}
	}
	return out
}

func ruleSrcRO(p *Prog, r *RuleResult) {
	fl := NewFlow(p, true)
	fl.NoEnter = func(f *ssa.Function) bool {
		if f.Signature.Recv() != nil {
			if n := namedOf(f.Signature.Recv().Type()); n != nil && isTransformSequence(p, n) {
				return true
			}
		}
		return false
	}
	fwds := forwardMethods(p)
	for _, f := range fwds {
		if len(f.Params) < 3 {
			undecided("unexpected Forward signature: %s", f)
		}
		fl.Add(f.Params[1]) // src
		r.info("source: src of "+p.FnName(f), p.Pos(f.Pos()))
	}
	fl.Run()
	sinks := aliasSinks(p, fl, func(f *ssa.Function) bool { return isLibRel(p.Rel(f)) && !fl.NoEnter(f) })
	var k keyer
	for _, s := range sinks {
		r.sink(k.key(p.FnName(s.fn), "src-write."+strings.Fields(s.what)[0]), p.IPos(s.in),
			fmt.Sprintf("%s through a reference derived from the src argument of a transform's Forward: a transform that then declines leaves a modified block to the next stage", s.what))
	}
	r.info(fmt.Sprintf("%d Forward sources, %d values may alias src, %d write sinks", len(fwds), fl.Count(), len(sinks)), "-")
	if len(sinks) == 0 {
		r.ok("no store/copy/append/escape through any alias of src", "-")
	}
	r.floor(15, len(fwds), "Forward implementations")
}

// ---------------- R-GLOBAL-RO ----------------

// initOnly: functions reachable from package initialisers but from no other root.
func initOnlySet(p *Prog) map[*ssa.Function]bool {
	var initRoots, otherRoots []*ssa.Function
	for _, f := range p.ModFns {
		if f.Parent() != nil {
			continue
		}
		isInit := f.Name() == "init" || strings.HasPrefix(f.Name(), "init#")
		if isInit && f.Signature.Recv() == nil {
			initRoots = append(initRoots, f)
			continue
		}
		if f.Signature.Recv() != nil || (f.Object() != nil && f.Object().Exported()) || f.Name() == "main" {
			otherRoots = append(otherRoots, f)
		}
	}
	for _, pk := range p.ByRel {
		if f := pk.Func("init"); f != nil {
			initRoots = append(initRoots, f)
		}
	}
	ri := p.Reachable(initRoots, func(f *ssa.Function) bool { return !p.InModule(f) })
	ro := p.Reachable(otherRoots, func(f *ssa.Function) bool { return !p.InModule(f) })
	out := map[*ssa.Function]bool{}
	for f := range ri {
		if !ro[f] {
			out[f] = true
		}
	}
	return out
}

func ruleGlobalRO(p *Prog, r *RuleResult) {
	fl := NewFlow(p, true)
	nglob := 0
	for _, rel := range sortedKeys(p.ByRel) {
		if !isLibRel(rel) {
			continue
		}
		pk := p.ByRel[rel]
		for _, name := range sortedKeys(pk.Members) {
			g, ok := pk.Members[name].(*ssa.Global)
			if !ok || strings.HasPrefix(name, "init$") {
				continue
			}
			nglob++
			fl.Add(g)
		}
	}
	fl.Run()
	initOnly := initOnlySet(p)
	sinks := aliasSinks(p, fl, func(f *ssa.Function) bool {
		if !isLibRel(p.Rel(f)) {
			return false
		}
		root := f
		for root.Parent() != nil {
			root = root.Parent()
		}
		return !initOnly[root] && !initOnly[f]
	})
	var k keyer
	for _, s := range sinks {
		r.sink(k.key(p.FnName(s.fn), "global-write."+strings.Fields(s.what)[0]), p.IPos(s.in),
			fmt.Sprintf("%s through a reference into package-level state outside initialisation: concurrent streams (or tasks) share and mutate it without synchronisation", s.what))
	}
	r.info(fmt.Sprintf("%d package-level variables of library packages, %d values may alias them, %d init-only functions exempt, %d write sinks", nglob, fl.Count(), len(initOnly), len(sinks)), "-")
	if len(sinks) == 0 {
		r.ok("no store/copy/append/escape through any alias of package-level state outside init", "-")
	}
	r.floor(10, nglob, "package-level variables")
}

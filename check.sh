#!/bin/bash
# Environment + dispatch wrapper used by every MANIFEST command.
# usage: check.sh setup | check.sh <Cxx> quick|thorough | check.sh raw <kzcheck args...>
set -u
export PATH=/opt/veriftools/go1.26.8/bin:$PATH
export GOTOOLCHAIN=local GOFLAGS=-mod=mod GOPROXY=off GOSUMDB=off CGO_ENABLED=0
unset GOWORK
VERIF="$(cd "$(dirname "$0")" && pwd)"
REPO="${VERIF_REPO:-/repo/v2}"
build() {
  mkdir -p "$VERIF/bin" "$VERIF/evidence"
  (cd "$VERIF/checker" && go build -o "$VERIF/bin/kzcheck" .) || { echo "kzcheck build failed" >&2; exit 2; }
}
needs_build() {
  [ ! -x "$VERIF/bin/kzcheck" ] && return 0
  [ -n "$(find "$VERIF/checker" -maxdepth 1 -name '*.go' -newer "$VERIF/bin/kzcheck" -print -quit)" ] && return 0
  return 1
}
case "${1:-}" in
  setup) build; exit 0 ;;
  raw) shift; needs_build && build; exec "$VERIF/bin/kzcheck" -verif "$VERIF" "$@" ;;
  C[0-9]*)
    needs_build && build
    exec "$VERIF/bin/kzcheck" -verif "$VERIF" -repo "$REPO" -property "$1" -tier "${2:-quick}" ;;
  *) echo "usage: $0 setup | <Cxx> quick|thorough | raw <args>" >&2; exit 2 ;;
esac

#!/usr/bin/env python3
"""Curation of the automatically discovered wire-constant candidates (format6.pinned.json, produced by
`kzcheck -gen-wire` on the pinned commit 76efab5) into the frozen table format6.json used by R-WIRE.
Every filter below is a reading decision with its reason; see DESIGN.md section 6b."""
import json

raw = json.load(open('/verif/spec/format6.pinned.json'))
out = {"comment": raw["comment"] + " Curated by spec/curate.py from spec/format6.pinned.json.",
       "constants": [], "tables": [], "census": [], "dropped": list(raw["dropped"])}

DROP_CONST = {
 ("entropy", "_BINARY_ENTROPY_MAX_BLOCK"): "argument validation limit",
}
for c in raw["constants"]:
    why = DROP_CONST.get((c["pkg"], c["name"]))
    if why:
        c = dict(c, why=why); out["dropped"].append(c)
    else:
        out["constants"].append(c)

DROP_TABLE = {
 ("internal", "LOG2"): "pure mathematical helper table (floor log2); replacing it by math/bits is a behaviour-preserving refactor",
 ("internal", "LOG2_4096"): "pure mathematical helper table used by the encoder-side entropy estimate only",
 ("internal", "_KEYS32"): "magic numbers of the encoder-side file type detection (heuristic, not format)",
 ("internal", "_BASE64_SYMBOLS"): "encoder-side data type detection (heuristic, not format)",
 ("transform", "_SQQ_TABLE"): "suffix sort internals: the BWT of a block is unique whatever the sorting helper tables",
 ("transform", "_LOG_TABLE"): "suffix sort internals: the BWT of a block is unique whatever the sorting helper tables",
}
out["dropped_tables"] = []
for t in raw["tables"]:
    why = DROP_TABLE.get((t["pkg"], t["name"]))
    if why:
        out["dropped_tables"].append(dict(t, why=why))
    else:
        out["tables"].append(t)

# census: keep only operations that carry format information at these anchors
KEEP_OPS = {"ReadBits", "WriteBits", "ReadBit", "WriteBit", "*", "<<", ">>", "&", "|", "^", "arg:NewXXHash32", "arg:NewXXHash64"}
PER_ANCHOR_DROP = {
 # (anchor, op, value): reason
 ("io:decodingTask.decode", "&", "31"): "spin-wait yield throttle (n & 0x1F)",
 ("io:encodingTask.encode", "&", "31"): "spin-wait yield throttle (n & 0x1F)",
 ("io:createWriterWithCtx", "*", "2"): "number of buffers (2 per job), not format",
 ("io:createWriterWithCtx", ">>", "3"): "buffer padding (blockSize>>3), not format",
 ("io:createWriterWithCtx", "&", "-16"): "argument validation (block size multiple of 16)",
 ("io:encodingTask.encode", ">>", "3"): "buffer padding and bit/byte conversions, arithmetic not format",
 ("io:decodingTask.decode", ">>", "3"): "bit/byte conversions",
 ("io:decodingTask.decode", "<<", "3"): "bit/byte conversions",
 ("io:Reader.readHeader", "<", "63"): "clamp of the in-memory block-count hint (min(n, MAX_CONCURRENCY-1)), scheduling only",
 ("io:decodingTask.decode", "<", "2048"): "floor of a work-buffer size (max(1.5*block, 2048)), not an acceptance bound",
}
out["dropped_census"] = []
for g in raw["census"]:
    keep = []
    for e in g["entries"]:
        why = None
        if e["op"] in ("!=", "==") and e["value"] == "1262571098":
            pass  # magic number test
        elif (g["anchor"], e["op"], e["value"]) in PER_ANCHOR_DROP:
            why = PER_ANCHOR_DROP[(g["anchor"], e["op"], e["value"])]
        elif g["anchor"] in ("io:decodingTask.decode", "io:Reader.readHeader", "io:Writer.writeHeader") and e["op"] in ("<", "==") and e["value"] not in ("0", "1"):
            pass  # acceptance bounds and version tests of the stream parser: which streams of format 6 are accepted is format
        elif e["op"] not in KEEP_OPS:
            why = "comparison / additive arithmetic / event or error argument: not a wire constant"
        elif (g["anchor"], e["op"], e["value"]) in PER_ANCHOR_DROP:
            why = PER_ANCHOR_DROP[(g["anchor"], e["op"], e["value"])]
        elif g["anchor"] == "io:Writer.Close" and not e["op"].startswith("WriteBits"):
            why = "Writer.Close is frozen for its end-marker writes only (the rest is the header writer, frozen separately)"
        if why:
            out["dropped_census"].append(dict(e, anchor=g["anchor"], why=why))
        else:
            keep.append(e)
    if keep:
        out["census"].append({"anchor": g["anchor"], "entries": keep})

# comparison operators of the kept constants (boundary semantics: `<` vs `<=` at a threshold)
kept = {(c["pkg"], c["name"]) for c in out["constants"]}
out["cmps"] = [c for c in raw.get("cmps", []) if (c["pkg"], c["name"]) in kept]
# tests of strings against codec names, and literal constants of the decoder-reachable codec kernels: kept as discovered
out["name_tests"] = raw.get("name_tests", [])
out["kernels"] = raw.get("kernels", [])
json.dump(out, open('/verif/spec/format6.json', 'w'), indent=1)
print(len(out["constants"]), "constants,", len(out["tables"]), "tables,", sum(len(g["entries"]) for g in out["census"]), "census entries;",
      len(out["dropped"]), "+", len(out["dropped_tables"]), "+", len(out["dropped_census"]), "dropped")

#!/bin/bash
# astsweep_run.sh <invert|early> [pkg...]: applies the syntactic transformation to every non-test file of the given
# packages (default: all) of a scratch copy of the committed tree, one package at a time, builds, and runs every property.
export PATH=/opt/veriftools/go1.26.8/bin:$PATH GOTOOLCHAIN=local GOFLAGS=-mod=mod GOPROXY=off GOSUMDB=off CGO_ENABLED=0
mode=$1; shift
pkgs=${@:-io bitstream app transform entropy hash internal}
(cd /verif/tools/astsweep && go build -o /tmp/astsweep.bin .) || exit 2
for pk in $pkgs; do
  t=$(mktemp -d /tmp/kzast.XXXXXX); git -C /repo archive HEAD v2 | tar -x -C $t
  /tmp/astsweep.bin -mode $mode $(ls $t/v2/$pk/*.go | grep -v _test.go) >/dev/null 2>&1
  if (cd $t/v2 && go build ./... 2>/dev/null); then
    out=$(/verif/bin/kzcheck -repo $t/v2 -all 2>&1)
    w=$(echo "$out" | tail -1)
    if [ "$w" = "all-properties worst=0" ]; then echo "silent   $mode $pk"; else echo "ALARM    $mode $pk"; echo "$out" | grep -v "^all-prop" | grep -v " ok$" | sed "s#$t/v2/##g" | cut -c1-260 | sort -u | head -10; fi
  else
    echo "nobuild  $mode $pk"
  fi
  rm -rf $t
done

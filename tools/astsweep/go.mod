module astsweep

go 1.24

// astsweep rewrites Go sources with behaviour-preserving syntactic transformations (for false-alarm testing of kzcheck):
//   -mode invert  : if c {A} else {B}  ->  if !(c) {B} else {A}        (only when else is a block)
//   -mode early   : if c {A; return} else {B} -> if c {A; return}; B    (else block hoisted after a returning then-branch)
//   -mode tmp     : return f(x) stays; `if x := e; c {..}` -> `{ x := e; if c {..} }` is not attempted
package main

import (
	"flag"
	"go/ast"
	"go/format"
	"go/parser"
	"go/token"
	"os"
	"strings"
)

func endsInReturn(b *ast.BlockStmt) bool {
	if len(b.List) == 0 {
		return false
	}
	_, ok := b.List[len(b.List)-1].(*ast.ReturnStmt)
	return ok
}

func main() {
	mode := flag.String("mode", "invert", "invert|early")
	flag.Parse()
	for _, path := range flag.Args() {
		if strings.HasSuffix(path, "_test.go") {
			continue
		}
		fset := token.NewFileSet()
		f, err := parser.ParseFile(fset, path, nil, parser.ParseComments)
		if err != nil {
			continue
		}
		// comments are dropped for simplicity: positions change wildly
		f.Comments = nil
		switch *mode {
		case "invert":
			ast.Inspect(f, func(n ast.Node) bool {
				is, ok := n.(*ast.IfStmt)
				if !ok || is.Else == nil {
					return true
				}
				eb, ok := is.Else.(*ast.BlockStmt)
				if !ok {
					return true
				}
				is.Cond = &ast.UnaryExpr{Op: token.NOT, X: &ast.ParenExpr{X: is.Cond}}
				is.Body, is.Else = eb, is.Body
				return true
			})
		case "early":
			var fix func(list []ast.Stmt) []ast.Stmt
			fix = func(list []ast.Stmt) []ast.Stmt {
				var out []ast.Stmt
				for _, st := range list {
					if is, ok := st.(*ast.IfStmt); ok && is.Init == nil && is.Else != nil {
						if eb, ok := is.Else.(*ast.BlockStmt); ok && endsInReturn(is.Body) {
							// no declarations in the else block may clash: wrap it in its own block
							is.Else = nil
							out = append(out, is, &ast.BlockStmt{List: eb.List})
							continue
						}
					}
					out = append(out, st)
				}
				return out
			}
			ast.Inspect(f, func(n ast.Node) bool {
				if b, ok := n.(*ast.BlockStmt); ok {
					b.List = fix(b.List)
				}
				return true
			})
		}
		out, err := os.Create(path)
		if err != nil {
			continue
		}
		format.Node(out, fset, f)
		out.Close()
	}
}

// astsweep rewrites Go sources with behaviour-preserving syntactic transformations (for false-alarm testing of kzcheck):
//   -mode invert  : if c {A} else {B}  ->  if !(c) {B} else {A}        (only when else is a block)
//   -mode early   : if c {A; return} else {B} -> if c {A; return}; B    (else block hoisted after a returning then-branch)
//   -mode tmp     : return f(x) stays; `if x := e; c {..}` -> `{ x := e; if c {..} }` is not attempted
package main

import (
	"flag"
	"go/ast"
	"go/format"
	"go/parser"
	"go/token"
	"os"
	"strings"
)

func endsInReturn(b *ast.BlockStmt) bool {
	if len(b.List) == 0 {
		return false
	}
	_, ok := b.List[len(b.List)-1].(*ast.ReturnStmt)
	return ok
}

func main() {
	mode := flag.String("mode", "invert", "invert|early|forbreak|ifswitch|guard")
	flag.Parse()
	for _, path := range flag.Args() {
		if strings.HasSuffix(path, "_test.go") {
			continue
		}
		fset := token.NewFileSet()
		f, err := parser.ParseFile(fset, path, nil, parser.ParseComments)
		if err != nil {
			continue
		}
		// comments are dropped for simplicity: positions change wildly
		f.Comments = nil
		switch *mode {
		case "invert":
			ast.Inspect(f, func(n ast.Node) bool {
				is, ok := n.(*ast.IfStmt)
				if !ok || is.Else == nil {
					return true
				}
				eb, ok := is.Else.(*ast.BlockStmt)
				if !ok {
					return true
				}
				is.Cond = &ast.UnaryExpr{Op: token.NOT, X: &ast.ParenExpr{X: is.Cond}}
				is.Body, is.Else = eb, is.Body
				return true
			})
		case "forbreak":
			// for cond { body }  ->  for { if !(cond) { break }; body }   (no init/post, no label games: continue still works)
			ast.Inspect(f, func(n ast.Node) bool {
				fs, ok := n.(*ast.ForStmt)
				if !ok || fs.Cond == nil || fs.Init != nil || fs.Post != nil {
					return true
				}
				brk := &ast.IfStmt{Cond: &ast.UnaryExpr{Op: token.NOT, X: &ast.ParenExpr{X: fs.Cond}}, Body: &ast.BlockStmt{List: []ast.Stmt{&ast.BranchStmt{Tok: token.BREAK}}}}
				fs.Body.List = append([]ast.Stmt{brk}, fs.Body.List...)
				fs.Cond = nil
				return true
			})
		case "ifswitch":
			// if a {A} else if b {B} else {C}  ->  switch { case a: A; case b: B; default: C }  (chains of >= 2 tests, no init)
			var conv func(is *ast.IfStmt) *ast.SwitchStmt
			conv = func(is *ast.IfStmt) *ast.SwitchStmt {
				var clauses []ast.Stmt
				n := 0
				cur := is
				for {
					if cur.Init != nil {
						return nil
					}
					clauses = append(clauses, &ast.CaseClause{List: []ast.Expr{cur.Cond}, Body: cur.Body.List})
					n++
					switch e := cur.Else.(type) {
					case *ast.IfStmt:
						cur = e
						continue
					case *ast.BlockStmt:
						clauses = append(clauses, &ast.CaseClause{Body: e.List})
					case nil:
					}
					break
				}
				if n < 2 {
					return nil
				}
				// a break inside an if body would now leave the switch instead of an enclosing loop: give up on those
				bad := false
				for _, c := range clauses {
					ast.Inspect(c, func(x ast.Node) bool {
						if b, ok := x.(*ast.BranchStmt); ok && b.Tok == token.BREAK && b.Label == nil {
							bad = true
						}
						switch x.(type) {
						case *ast.ForStmt, *ast.RangeStmt, *ast.SwitchStmt, *ast.SelectStmt, *ast.TypeSwitchStmt, *ast.FuncLit:
							return false
						}
						return true
					})
				}
				if bad {
					return nil
				}
				return &ast.SwitchStmt{Body: &ast.BlockStmt{List: clauses}}
			}
			ast.Inspect(f, func(n ast.Node) bool {
				b, ok := n.(*ast.BlockStmt)
				if !ok {
					return true
				}
				for i, st := range b.List {
					if is, ok := st.(*ast.IfStmt); ok {
						if sw := conv(is); sw != nil {
							b.List[i] = sw
						}
					}
				}
				return true
			})
		case "guard":
			// in a function without results whose last statement is `if c { A }` (no else): `if !(c) { return }; A`
			ast.Inspect(f, func(n ast.Node) bool {
				fd, ok := n.(*ast.FuncDecl)
				if !ok || fd.Body == nil || (fd.Type.Results != nil && len(fd.Type.Results.List) > 0) || len(fd.Body.List) == 0 {
					return true
				}
				last, ok := fd.Body.List[len(fd.Body.List)-1].(*ast.IfStmt)
				if !ok || last.Else != nil || last.Init != nil {
					return true
				}
				g := &ast.IfStmt{Cond: &ast.UnaryExpr{Op: token.NOT, X: &ast.ParenExpr{X: last.Cond}}, Body: &ast.BlockStmt{List: []ast.Stmt{&ast.ReturnStmt{}}}}
				fd.Body.List = append(fd.Body.List[:len(fd.Body.List)-1], g, &ast.BlockStmt{List: last.Body.List})
				return true
			})
		case "early":
			var fix func(list []ast.Stmt) []ast.Stmt
			fix = func(list []ast.Stmt) []ast.Stmt {
				var out []ast.Stmt
				for _, st := range list {
					if is, ok := st.(*ast.IfStmt); ok && is.Init == nil && is.Else != nil {
						if eb, ok := is.Else.(*ast.BlockStmt); ok && endsInReturn(is.Body) {
							// no declarations in the else block may clash: wrap it in its own block
							is.Else = nil
							out = append(out, is, &ast.BlockStmt{List: eb.List})
							continue
						}
					}
					out = append(out, st)
				}
				return out
			}
			ast.Inspect(f, func(n ast.Node) bool {
				if b, ok := n.(*ast.BlockStmt); ok {
					b.List = fix(b.List)
				}
				return true
			})
		}
		out, err := os.Create(path)
		if err != nil {
			continue
		}
		format.Node(out, fset, f)
		out.Close()
	}
}

#!/bin/bash
# run_on_seed.sh <patch.diff> [property ...]  : applies the patch to /repo, runs the quick checks, reverts.
set -u
patch=$1; shift
props="${*:-C01 C02 C03 C04 C05 C06 C07 C08 C09 C10 C11 C12 C13 C14 C15 C17 C18 C19}"
git -C /repo status --short | grep -q . && { echo "/repo not clean"; exit 2; }
git -C /repo apply "$patch" || { echo "patch does not apply"; exit 2; }
trap 'git -C /repo checkout -- . ; git -C /repo clean -fdq' EXIT
for c in $props; do
  out=$(/verif/bin/kzcheck -no-evidence -property $c 2>&1); e=$?
  if [ $e -ne 0 ]; then echo "$c exit=$e"; echo "$out" | grep -- "-> \|UNDECIDED" | cut -c1-260; fi
done
echo "done"

#!/bin/bash
# run_on_seed.sh <patch.diff> : applies the patch to /repo, runs every property's rules once (kzcheck -all), reverts.
set -u
patch=$1
git -C /repo status --short | grep -q . && { echo "/repo not clean"; exit 2; }
git -C /repo apply "$patch" || { echo "patch does not apply"; exit 2; }
trap 'git -C /repo checkout -- . ; git -C /repo clean -fdq' EXIT
/verif/bin/kzcheck -all | cut -c1-400

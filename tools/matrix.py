#!/usr/bin/env python3
"""matrix.py: applies every stored behaviour-preserving refactoring together with every stored seeded breakage
(when both patches apply to a scratch copy of /repo/v2 and the result still type-checks) and records whether the
seed's own property check still reports it on the refactored tree. Output: /verif/seeded/matrix.json"""
import json, os, re, shutil, subprocess, sys, tempfile, glob
from concurrent.futures import ThreadPoolExecutor
refs = sorted(glob.glob('/verif/refactors/*.diff'))
if len(sys.argv) > 1:
    refs = [r for r in refs if any(a in r for a in sys.argv[1:])]
seeds = sorted(d for d in glob.glob('/verif/seeded/*/') if os.path.exists(d + 'meta.json'))
def files_of(diff):
    return set(re.findall(r'^\+\+\+ b/(\S+)', open(diff).read(), re.M))
def one(job):
    ref, sd = job
    meta = json.load(open(sd + 'meta.json'))
    if not meta.get('detected_by_own_property_check'):
        return None
    tmp = tempfile.mkdtemp(prefix='kzmx-')
    try:
        subprocess.run('git -C /repo archive HEAD v2 | tar -x -C ' + tmp, shell=True, check=True)
        for pth in (ref, sd + 'patch.diff'):
            r = subprocess.run(['patch', '-p2', '-s', '-f', '-F', '1', '-d', tmp + '/v2', '-i', pth], capture_output=True, text=True)
            if r.returncode != 0:
                return (os.path.basename(ref), meta['id'], 'no-apply')
        pr = subprocess.run(['/verif/bin/kzcheck', '-repo', tmp + '/v2', '-all'], capture_output=True, text=True)
        out = pr.stdout
        if 'load error' in (out + pr.stderr) or 'UNDECIDED: ' in out.split('\n')[0:1][0] if out else False:
            return (os.path.basename(ref), meta['id'], 'no-compile')
        own = meta['breaks_property']
        if re.search(r'^%s exit=1' % own, out, re.M):
            return (os.path.basename(ref), meta['id'], 'reported')
        if re.search(r'^C\d+ exit=1', out, re.M):
            return (os.path.basename(ref), meta['id'], 'reported-other')
        if pr.returncode == 2 and not re.search(r'^C\d+ exit=', out, re.M):
            return (os.path.basename(ref), meta['id'], 'no-compile')
        return (os.path.basename(ref), meta['id'], 'LOST')
    finally:
        shutil.rmtree(tmp, ignore_errors=True)
jobs = []
for ref in refs:
    fr = files_of(ref)
    for sd in seeds:
        if fr & files_of(sd + 'patch.diff'):
            jobs.append((ref, sd))
print(len(jobs), 'combinations touching a common file')
res = []
with ThreadPoolExecutor(max_workers=6) as ex:
    for r in ex.map(one, jobs):
        if r:
            res.append(r)
            if r[2] in ('LOST', 'reported-other'):
                print(*r)
from collections import Counter
print(Counter(x[2] for x in res))
json.dump(res, open('/verif/seeded/matrix.json', 'w'), indent=0)

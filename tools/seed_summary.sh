#!/bin/bash
# seed_summary.sh <patch.diff>: which properties / rules report the change (one line per distinct rule+construct)
out=$(/verif/tools/run_on_seed.sh "$1" 2>&1)
echo "$out" | awk '/^C[0-9][0-9] exit=/{p=$1} /^  -> /{k=$2" "$3; if(!(k in s)){s[k]=p; order[++n]=k} else s[k]=s[k]","p} END{for(i=1;i<=n;i++) print "  " order[i] "  [" s[order[i]] "]"}'
echo "$out" | grep -E "worst=|UNDECIDED|not apply|not clean" | head -5

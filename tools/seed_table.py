#!/usr/bin/env python3
"""seed_table.py <suffix> : markdown table rows (DESIGN.md section 10) for the seeds whose id ends with <suffix>,
from seeded/<id>/meta.json and the first line of notes.md; with no argument: totals over all seeds."""
import glob, json, os, sys
suf = sys.argv[1] if len(sys.argv) > 1 else None
own = other = missed = 0
miss = []
for d in sorted(glob.glob('/verif/seeded/C*')):
    m = json.load(open(d + '/meta.json'))
    sid, prop = m['id'], m['breaks_property']
    rules_own = sorted({x['rule'] for x in m.get('detected_by', []) if x['property'] == prop})
    others = {}
    for x in m.get('detected_by', []):
        if x['property'] != prop:
            others.setdefault(x['rule'], set()).add(x['property'])
    if rules_own:
        own += 1; rep = f"{prop}: " + ", ".join(rules_own)
    elif others:
        other += 1; rep = "*other property only* – " + "; ".join(f"{' '.join(sorted(ps))}: {r}" for r, ps in sorted(others.items()))
    else:
        missed += 1; miss.append(sid); rep = "**missed**"
    if suf and sid.endswith(suf):
        what = open(d + '/notes.md').readline().strip('# \n')[:110]
        print(f"| {sid} | {what} | {m.get('needs_to_manifest','')[:110]} | {rep} |")
if not suf:
    print(own + other + missed, "seeds:", own, "own,", other, "other-only,", missed, "missed")
    print("missed:", ", ".join(miss))

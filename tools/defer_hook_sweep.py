#!/usr/bin/env python3
"""Inserts a call to a no-op function as the first statement of every function of the given packages of a scratch copy
(behaviour preserving by construction) and runs every property on it: exercises rules that look at "the first thing a
function does"."""
import os, re, shutil, subprocess, sys, tempfile
pkgs = sys.argv[1:] or ['io', 'bitstream', 'app', 'transform', 'entropy', 'hash', 'internal']
tmp = tempfile.mkdtemp(prefix='kzhook-')
shutil.copytree('/repo/v2', tmp + '/v2')
for pk in pkgs:
    d = f'{tmp}/v2/{pk}'
    pkgname = None
    for fn in sorted(os.listdir(d)):
        if not fn.endswith('.go') or fn.endswith('_test.go'):
            continue
        src = open(f'{d}/{fn}').read()
        pkgname = re.search(r'^package (\w+)', src, re.M).group(1)
        # top-level funcs/methods: "func ...{" at column 0 ending the line with "{"
        src = re.sub(r'^(func [^\n]*\{)\n', r'\1\n\tdefer kzTraceEnter()\n', src, flags=re.M)
        open(f'{d}/{fn}', 'w').write(src)
    open(f'{d}/zz_trace.go', 'w').write(f'package {pkgname}\n\nfunc kzTraceEnter() {{}}\n')
env = dict(os.environ, PATH='/opt/veriftools/go1.26.8/bin:' + os.environ['PATH'], GOTOOLCHAIN='local', GOFLAGS='-mod=mod', GOPROXY='off', GOSUMDB='off')
b = subprocess.run(['go', 'build', './...'], cwd=tmp + '/v2', env=env, capture_output=True, text=True)
if b.returncode != 0:
    print('does not build:', b.stderr[:500]); shutil.rmtree(tmp); sys.exit(2)
out = subprocess.run(['/verif/bin/kzcheck', '-repo', tmp + '/v2', '-all'], capture_output=True, text=True).stdout
print(out.replace(tmp + '/v2/', '')[:6000])
shutil.rmtree(tmp)

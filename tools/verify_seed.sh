#!/bin/bash
# verify_seed.sh <id> <variant-dir> <pkgdir (io|app|...)> <TestName>
# Confirms a seeded breakage independently, in a scratch worktree of /repo (removed afterwards):
#   suite passes with the change; demo fails with the change; demo passes without it.
set -u
export PATH=/opt/veriftools/go1.26.8/bin:$PATH GOTOOLCHAIN=local GOFLAGS=-mod=mod GOPROXY=off GOSUMDB=off
id=$1; vdir=$2; pkg=$3; tname=$4; extra="${5:-}"
wt=$(mktemp -d /tmp/vseed.XXXXXX); rmdir $wt
git -C /repo worktree add -f $wt HEAD -q || exit 2
trap 'git -C /repo worktree remove --force $wt' EXIT
cd $wt
git apply $vdir/patch.diff || { echo "PATCH DOES NOT APPLY"; exit 2; }
(cd v2 && go build ./... ) || { echo "DOES NOT COMPILE"; exit 2; }
(cd v2 && go test -vet=off -count=1 -timeout 25m ./... > $wt/suite.log 2>&1); s=$?
echo "suite_with_change_exit=$s  ($(grep -c '^ok' $wt/suite.log) packages ok, $(grep -c '^FAIL' $wt/suite.log) FAIL lines)"
cp $vdir/demo_test.go v2/$pkg/zz_demo_test.go
(cd v2 && timeout 600 go test -vet=off $extra -run "$tname" -count=1 ./$pkg/ > $wt/demo_with.log 2>&1); dw=$?
echo "demo_with_change_exit=$dw"; tail -5 $wt/demo_with.log | cut -c1-300
git checkout -q -- v2
(cd v2 && timeout 600 go test -vet=off $extra -run "$tname" -count=1 ./$pkg/ > $wt/demo_without.log 2>&1); dn=$?
echo "demo_without_change_exit=$dn"; tail -3 $wt/demo_without.log | cut -c1-200
if [ $s -eq 0 ] && [ $dw -ne 0 ] && [ $dn -eq 0 ]; then echo "CONFIRMED $id"; else echo "NOT CONFIRMED $id"; fi

#!/usr/bin/env python3
"""store_seed.py <Cxx> <A|B> <src-out-dir> <verify-log> "<needs>"  : files a confirmed seeded breakage under /verif/seeded/<id>/
and records which checks report it (by applying the patch to /repo, running every quick check without evidence, reverting)."""
import json, os, re, shutil, subprocess, sys
prop, var, src, vlog, needs = sys.argv[1:6]
idvar = sys.argv[6] if len(sys.argv) > 6 else var  # id suffix when it differs from the source sub-directory (A -> A3)
sid = f"{prop}-{idvar}"
dst = f"/verif/seeded/{sid}"
os.makedirs(dst, exist_ok=True)
for f in ("patch.diff", "demo_test.go", "notes.md"):
    shutil.copy(os.path.join(src, var, f), os.path.join(dst, f))
# my own confirmation, from the verify log
log = open(vlog).read()
m = re.search(r"##### %s\n(.*?)(?=\n##### |\Z)" % re.escape(sid), log, re.S)
block = m.group(1) if m else ""
confirmed = ("CONFIRMED " + sid) in block and ("NOT CONFIRMED " + sid) not in block
conf_lines = [l for l in block.splitlines() if re.match(r"(suite_with_change_exit|demo_with_change_exit|demo_without_change_exit|CONFIRMED|NOT CONFIRMED)", l)]
# detection
# detection on a scratch copy of the committed tree (same result as applying the patch to /repo and reverting; does not
# disturb other runs that read /repo's working tree)
import tempfile
tmp = tempfile.mkdtemp(prefix="kzstore-")
subprocess.run("git -C /repo archive HEAD v2 | tar -x -C " + tmp, shell=True, check=True)
subprocess.run(["patch", "-p1", "-s", "-f", "-d", tmp, "-i", os.path.join(dst, "patch.diff")], check=True)
out = subprocess.run(["/verif/bin/kzcheck", "-repo", tmp + "/v2", "-all"], capture_output=True, text=True).stdout.replace(tmp + "/v2/", "")
shutil.rmtree(tmp, ignore_errors=True)
det = []
cur = None
for l in out.splitlines():
    mm = re.match(r"(C\d+) exit=(\d)", l)
    if mm:
        cur = mm.group(1); continue
    mm = re.match(r"\s+-> (R-[A-Z-]+) (\S+) at (\S+):", l)
    if mm and cur:
        det.append({"property": cur, "rule": mm.group(1), "construct": mm.group(2), "pos": mm.group(3)})
meta = {
  "id": sid, "breaks_property": prop,
  "origin": "independent sub-agent given only the property text and a scratch worktree of /repo (nothing from /verif)",
  "needs_to_manifest": needs,
  "confirmed_by_me": confirmed,
  "what_i_ran": ["tools/verify_seed.sh: scratch worktree of /repo at HEAD, git apply patch.diff, go test -vet=off -count=1 ./... (whole suite), demo with the change, demo without the change"] + conf_lines,
  "detected": len(det) > 0,
  "detected_by": det,
  "detected_by_own_property_check": any(d["property"] == prop for d in det),
}
json.dump(meta, open(os.path.join(dst, "meta.json"), "w"), indent=1)
print(sid, "confirmed" if confirmed else "NOT CONFIRMED", "detected by", sorted({(d["property"], d["rule"]) for d in det}))

#!/usr/bin/env python3
"""Recomputes detected_by in every /verif/seeded/*/meta.json against the current checker, using scratch copies of
/repo/v2 (patched with patch -p2), so /repo itself is not touched. Runs seeds in parallel."""
import json, os, re, shutil, subprocess, sys, tempfile, glob
from concurrent.futures import ThreadPoolExecutor
PROPS = "C01 C02 C03 C04 C05 C06 C07 C08 C09 C10 C11 C12 C13 C14 C15 C17 C18 C19".split()
def one(d):
    meta = json.load(open(d + "/meta.json"))
    tmp = tempfile.mkdtemp(prefix="kzrf-")
    try:
        subprocess.run("git -C /repo archive HEAD v2 | tar -x -C " + tmp, shell=True, check=True)  # committed tree
        r = subprocess.run(["patch", "-p2", "-s", "-f", "-d", tmp + "/v2", "-i", d + "/patch.diff"], capture_output=True, text=True)
        if r.returncode != 0:
            return meta["id"], None
        det = []
        out = subprocess.run(["/verif/bin/kzcheck", "-repo", tmp + "/v2", "-all"], capture_output=True, text=True).stdout
        c = None
        for l in out.splitlines():
            mc = re.match(r"(C\d+) exit=", l)
            if mc:
                c = mc.group(1)
            mm = re.match(r"\s+-> (R-[A-Z-]+) (\S+) at (\S+):", l)
            if mm and c:
                det.append({"property": c, "rule": mm.group(1), "construct": mm.group(2), "pos": mm.group(3).replace(tmp + "/v2/", "")})
        meta["detected"] = len(det) > 0
        meta["detected_by"] = det
        meta["detected_by_own_property_check"] = any(x["property"] == meta["breaks_property"] for x in det)
        json.dump(meta, open(d + "/meta.json", "w"), indent=1)
        return meta["id"], sorted({(x["property"], x["rule"]) for x in det})
    finally:
        shutil.rmtree(tmp, ignore_errors=True)
dirs = sorted(glob.glob("/verif/seeded/*/"))
dirs = [d.rstrip("/") for d in dirs if os.path.exists(d + "meta.json")]
if len(sys.argv) > 1:  # optional: only the seeds whose id contains one of the given substrings
    dirs = [d for d in dirs if any(a in os.path.basename(d) for a in sys.argv[1:])]
with ThreadPoolExecutor(max_workers=6) as ex:
    for sid, det in ex.map(one, dirs):
        own = [p for p, _ in det] if det else []
        print(sid, "PATCH-FAILED" if det is None else ("own" if sid[:3] in own else ("other-only" if det else "MISSED")), det if det else "")

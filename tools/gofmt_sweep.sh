#!/bin/bash
# gofmt_sweep.sh: applies behaviour-preserving gofmt -r rewrites to a scratch copy of the committed tree and runs every property.
export PATH=/opt/veriftools/go1.26.8/bin:$PATH GOTOOLCHAIN=local GOFLAGS=-mod=mod GOPROXY=off GOSUMDB=off CGO_ENABLED=0
rules=("a < b -> b > a" "a <= b -> b >= a" "a >= b -> b <= a" "a == b -> b == a" "a != b -> b != a" "a && b -> !(!a || !b)" "a || b -> !(!a && !b)" "a -= b -> a = a - b" "a++ -> a += 1" "a > b -> b < a" "a <= b -> !(a > b)" "a < b -> !(a >= b)" "a != b -> !(a == b)" "a == false -> !a" "a == true -> a" "a != nil -> !(a == nil)" "a << 3 -> a * 8" "a >= b -> !(a < b)" "a += b -> a = a + b" "a - 1 -> a + -1")
for r in "${rules[@]}"; do
  t=$(mktemp -d /tmp/kzfmt.XXXXXX); git -C /repo archive HEAD v2 | tar -x -C $t
  for f in $(find $t/v2 -name '*.go' ! -name '*_test.go'); do gofmt -r "$r" -w $f 2>/dev/null; done
  if (cd $t/v2 && go build ./... 2>/dev/null); then
    out=$(/verif/bin/kzcheck -repo $t/v2 -all 2>&1); w=$(echo "$out" | tail -1)
    if [ "$w" = "all-properties worst=0" ]; then echo "silent   [$r]"; else echo "ALARM    [$r]"; echo "$out" | grep -v "^all-prop" | grep -v " ok$" | sed "s#$t/v2/##g" | cut -c1-260 | sort -u | head -8; fi
  else echo "nobuild  [$r]"; fi
  rm -rf $t
done

#!/usr/bin/env python3
"""run_on_refactors.py <dir-with-N.diff>... : applies each behaviour-preserving refactoring to a scratch copy of /repo/v2
and runs every quick check on it; any non-zero exit is a false alarm (or an undecided) of the checker."""
import os, re, shutil, subprocess, sys, tempfile, glob
from concurrent.futures import ThreadPoolExecutor
PROPS = "C01 C02 C03 C04 C05 C06 C07 C08 C09 C10 C11 C12 C13 C14 C15 C17 C18 C19".split()
def one(diff):
    tmp = tempfile.mkdtemp(prefix="kzrefac-")
    try:
        # committed tree, not the working tree: seeds are applied to /repo transiently by other tools
        subprocess.run("git -C /repo archive HEAD v2 | tar -x -C " + tmp, shell=True, check=True)
        r = subprocess.run(["patch", "-p2", "-s", "-f", "-d", tmp + "/v2", "-i", diff], capture_output=True, text=True)
        if r.returncode != 0:
            return diff, ["PATCH-FAILED " + r.stdout[:200]]
        bad = []
        pr = subprocess.run([os.environ.get("KZCHECK", "/verif/bin/kzcheck"), "-repo", tmp + "/v2", "-all"], capture_output=True, text=True)
        if pr.returncode != 0:
            for l in pr.stdout.splitlines():
                if re.match(r"C\d+ exit=|\s+-> |\s*UNDECIDED", l):
                    bad.append(l.rstrip().replace(tmp + "/v2/", "")[:260])
            if not bad:
                bad.append("exit=%d %s" % (pr.returncode, (pr.stdout + pr.stderr)[-300:]))
        return diff, bad
    finally:
        shutil.rmtree(tmp, ignore_errors=True)
diffs = []
for d in sys.argv[1:]:
    diffs += sorted(glob.glob(d + "/*.diff"))
nbad = 0
with ThreadPoolExecutor(max_workers=5) as ex:
    for diff, bad in ex.map(one, diffs):
        print(("FALSE-ALARM " if bad else "silent      ") + diff)
        for b in bad:
            print("     ", b)
        nbad += 1 if bad else 0
print(f"{len(diffs)} refactorings, {nbad} with an alarm/undecided")

#!/bin/bash
# rename_sweep.sh: renames one identifier at a time (word-boundary sed over the non-test sources of the packages that use
# it), checks that the tree still builds, and runs every property on the renamed scratch copy. A rename is behaviour
# preserving by construction; any exit != 0 is a false alarm or an undecided of the checker.
export PATH=/opt/veriftools/go1.26.8/bin:$PATH GOTOOLCHAIN=local GOFLAGS=-mod=mod GOPROXY=off GOSUMDB=off
for name in "$@"; do
  t=$(mktemp -d /tmp/kzren.XXXXXX); cp -r /repo/v2 $t/v2
  grep -rl --include=*.go "\b$name\b" $t/v2 | xargs sed -i "s/\b$name\b/${name}Renamed/g"
  if (cd $t/v2 && go build ./... 2>/dev/null && go vet ./io ./app ./bitstream ./transform ./entropy ./hash ./internal >/dev/null 2>&1 || go build ./... 2>/dev/null); then
    out=$(/verif/bin/kzcheck -repo $t/v2 -all 2>&1)
    w=$(echo "$out" | tail -1)
    if [ "$w" = "all-properties worst=0" ]; then echo "silent   $name"; else echo "ALARM    $name"; echo "$out" | grep -v "^all-prop" | cut -c1-220 | sort -u | head -8; fi
  else
    echo "nobuild  $name"
  fi
  rm -rf $t
done

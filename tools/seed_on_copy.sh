#!/bin/bash
# seed_on_copy.sh <patch.diff>: like seed_summary.sh, but on a scratch copy of the committed tree (development use,
# when /repo must not be touched); the recorded detection (meta.json) always comes from run_on_seed.sh on /repo itself.
t=$(mktemp -d /tmp/kzseed.XXXXXX)
trap 'rm -rf $t' EXIT
git -C /repo archive HEAD v2 | tar -x -C $t
patch -p1 -s -f -d $t -i "$1" >/dev/null || { echo "patch does not apply"; exit 2; }
out=$(${KZCHECK:-/verif/bin/kzcheck} -repo $t/v2 -all 2>&1)
echo "$out" | awk '/^C[0-9][0-9] exit=/{p=$1} /^  -> /{k=$2" "$3; if(!(k in s)){s[k]=p; order[++n]=k} else s[k]=s[k]","p} END{for(i=1;i<=n;i++) print "  " order[i] "  [" s[order[i]] "]"}'
echo "$out" | grep -E "worst=|UNDECIDED" | sort | uniq | head -5

#!/usr/bin/env python3
"""Regenerates MANIFEST.json. Claimed properties are those listed in CLAIMED below."""
import json, sys

CLAIMED = {
}
NOT_APPLICABLE = {
 "C16": "arithmetic post-condition of a rounding loop over all histograms; no clause is visible in code shape and no sound static argument (abstract interpretation over 256 symbolic counters) is in reach of the tools present; see DESIGN.md C16",
}
PENDING = "check not built yet in this session (static rule planned in DESIGN.md); not claimed until it runs clean"

props = [json.loads(l) for l in open('/verif/properties.jsonl')]
checks = []
na = []
for p in props:
    pid = p['id']
    if pid in CLAIMED:
        c = CLAIMED[pid]
        checks.append({
            "property_id": pid,
            "quick_cmd": f"./check.sh {pid} quick",
            "thorough_cmd": f"./check.sh {pid} thorough",
            "evidence_file": f"/verif/evidence/{pid}.json",
            "replay_cmd_template": "./check.sh raw -replay {path}",
            "engine": "kzcheck",
            "level_claimed": {"category": "other", "text": c["text"], "design_ref": c.get("ref", f"DESIGN.md section 3, {pid}")},
            "level_note": c["note"],
            "technique": c["technique"],
        })
    else:
        na.append({"property_id": pid, "reason": NOT_APPLICABLE.get(pid, PENDING)})
m = {
    "version": 1,
    "setup_cmd": "./check.sh setup",
    "hooks": {"guard": "verif", "enable": "none needed: the checker analyses the source of /repo/v2 as data (go/packages + go/ssa); no hook or instrumentation commits exist",
              "baseline_off_cmd": "cd /repo/v2 && go test -vet=off -count=1 -timeout 25m ./...",
              "source_commits": [], "add_only": True},
    "engines": [{"name": "kzcheck", "path": "/verif/checker", "serves_properties": sorted(CLAIMED),
                 "kind_free_text": "repository-specific static analyser: go/packages + go/types + go/ssa + VTA call graph (x/tools v0.50.0, go1.26.8); dominance/typestate/taint/table-agreement rules; no kanzi code is executed"}],
    "checks": checks,
    "not_applicable": na,
    "notes": "All checks are static analyses of the current working tree of /repo/v2 at level 'other': each decides the structural clauses of its property named in level_claimed.text and states what it does not decide. See DESIGN.md.",
}
json.dump(m, open('/verif/MANIFEST.json', 'w'), indent=1)
print("claimed", len(checks), "not_applicable", len(na))

#!/usr/bin/env python3
"""Regenerates MANIFEST.json from the checker's property table (kzcheck -export-props).
Claimed = every property in the table whose id is listed in CLAIM below."""
import json, subprocess

TECH = {
 "C01": "value-flow (taint) non-interference of the size hint; store/assert type agreement over context keys; producer/consumer agreement of context keys across the three configuration paths; switch-table extraction; interval argument (dominating constant comparisons) that a run-time-width header field fits its width; origin analysis of the emitted bit count; sibling agreement of the fields filled by the header and headerless initialisations",
 "C02": "SSA dominance / must-pass-through analysis of decode and encode; typestate of error returns; cut-edge reachability: every store of the skipped flag lies behind a range-test edge",
 "C03": "call-graph reachability with recover-protected frames; entry-guard check of every goroutine; backward size tracing of allocations; dominance of a positive lower-bound test over the success returns of the header parser for fields used as divisors",
 "C04": "call-graph scan for nondeterministic APIs; field-based value flow of the job count; explicit and implicit (branch/loop-carried phi) flow of the job count into wire fields; edge-dominance of shared-stream calls; ownership classification of task fields; origin analysis of the bit count copied to the shared stream (private Written() through min/remainder only)",
 "C05": "edge-dominance of shared reads; ownership classification; buffer write-back/publish analysis; typestate of error returns",
 "C06": "CFG loop / callee analysis of the bitstream refill (count test, exits, error examined on every cycle); dominance of io.EOF returns; forward staleness dataflow of counter-derived buffer indices across the batch call",
 "C07": "SSA edge-dominance and all-paths analyses of the task functions, their deferred handlers and processBlock; entry-guard (recover) check of the task goroutines; slice-origin analysis of the result slots handed to tasks vs the slice scanned after Wait; reachability of the id-base counter read from the go statements without passing Wait",
 "C08": "protected-frame reachability of declared panics; error-value escape analysis; dominance ordering of close/flush/closed-flag; every-path use analysis of error values (stream layer, shared bitstream, command-line tool); path check that a recover() in the bitstream package is followed by a re-raise or an error return; slice-origin analysis of task result slots; every-path error use at all callers of the batch functions",
 "C09": "classification of clean exits by edge cutting (reachability); error-value escape; dominance ordering in Close; path-pruned reachability of the batch function's success returns without a completed batch; every-path use analysis of error values incl. the command-line decode loop; recover()-then-return path check over the bitstream package",
 "C10": "frozen wire-constant table of format 6 compared with type-checked constant values, call-site constants and literal-table digests; classification of library sort calls in codec code (stable / natural order / unstable with single-key order function); kernel census restricted to feasible blocks (branches decided by a dominating test of the same SSA value are pruned)",
 "C11": "dominance ordering of the range tests in decode; normalised comparison operators with bounds followed through task fields (no narrowing conversion); loop-exit condition of the batch loop; success returns of the batch function only behind a completed batch; slice-origin freshness of compacted slots; key-set / wholesale-copy analysis of the per-file task contexts of the tool",
 "C12": "switch-table extraction and pairing of encoder/decoder factory cases; frozen wire constants of the entropy package; finite decision-table comparison of the payload-present condition of encoder and decoder of the static-model codecs (guided CFG walk per (symbols, order) cell); agreement of the receiver-derived state carried around the chunk loop; classification of library sort calls in codec code; set comparison of the pure length-derived chunk expressions of encoder and decoder",
 "C13": "alias (may-refer-to) flow from every Forward src parameter to write sinks; phi analysis of the sequence's error edge; interval argument for index packing int32(i<<k): unit-step loop limit bounded by dominating constant guards at the call sites",
 "C14": "entry-test and closed-state store checks on the bitstream implementations; affine-equality abstract interpretation (Karr domain, generator form) of the counter fields over the bitstream methods with inlined helpers, specs for the exported operations and error-outcome partitioning; path exploration from each operation entry to the first closed-state test with the counter fields as forbidden stores; dominating divisibility test / rounding of the buffer size in the constructors",
 "C15": "switch-table extraction (bijection, upper-casing, constructors); taint from context codec names to case-sensitive comparisons; frozen set of name tests; producer/consumer agreement of the context keys codec variants are selected from; comparison of the string normalisers applied by the name lookups and by each variant selector; reverse-scan table extraction",
 "C17": "entry-block typestate checks on Write/Read/Close; dominance ordering in Close (also through a tail helper); affine-equality abstract interpretation of the bit counters (conserved by flush/refill/Close on every return, restored when Close fails); cycle analysis of sink writes vs counter stores; dominance of definite-error returns by comparisons with the recorded size",
 "C18": "alias flow from every package-level variable to write sinks outside init; ownership classification; hasher purity; worker write-set analysis",
 "C19": "dominance analysis of open flags vs overwrite edge; who-may-call allow-list of file-system mutations; remove-after-close dominance; every-path use analysis of the errors of the stream and file calls of the tool; slice-origin and write-through analysis of the fields of queued per-file tasks; key-set / wholesale-copy analysis of the per-file task contexts",
}
NOT_APPLICABLE = {
 "C16": "arithmetic post-condition (table sums to the scale, every present symbol >= 1) of a rounding/redistribution loop over all histograms; no clause is visible in code shape and a sound static argument (abstract interpretation over 256 symbolic counters) is out of reach of the tools present; see DESIGN.md section 3, C16",
}
NOTE = ("Trusts go/types, go/ssa and the VTA call graph of x/tools v0.50.0 and the rule code in /verif/checker; assumes no "
        "unsafe/reflect/cgo/linkname in the module (checked on every run); integer arithmetic, buffer sizes and indices are "
        "not modelled outside the bitstream counter analysis (which assumes no wrap-around) and two constant-interval rules (R-PACK-WIDTH, R-FIELD-WIDTH); implicit flows are tracked only for the job count; sink rules are armed against a positive-control fixture on every run.")
PENDING = "check not built yet (static rule planned in DESIGN.md); not claimed until it runs clean on the unchanged tree"
CLAIM = ["C01","C02","C03","C04","C05","C06","C07","C08","C09","C10","C11","C12","C13","C14","C15","C17","C18","C19"]

table = json.loads(subprocess.check_output(['/verif/check.sh', 'raw', '-export-props']))
props = [json.loads(l) for l in open('/verif/properties.jsonl')]
checks, na = [], []
for p in props:
    pid = p['id']
    if pid in CLAIM and pid in table:
        t = table[pid]
        checks.append({
            "property_id": pid,
            "quick_cmd": f"./check.sh {pid} quick",
            "thorough_cmd": f"./check.sh {pid} thorough",
            "evidence_file": f"/verif/evidence/{pid}.json",
            "replay_cmd_template": "./check.sh raw -replay {path}",
            "engine": "kzcheck",
            "level_claimed": {"category": "other",
                              "text": f"Static rules {', '.join(t['rules'])} decide, on every path and for every input/schedule at once, the structural clauses of the property: {t['decided']} NOT decided (runtime-value clauses, stated plainly): {t['not_decided']}",
                              "design_ref": f"DESIGN.md section 3, {pid}"},
            "level_note": NOTE,
            "technique": "static analysis: " + TECH[pid],
        })
    else:
        na.append({"property_id": pid, "reason": NOT_APPLICABLE.get(pid, PENDING)})
m = {
    "version": 1,
    "setup_cmd": "./check.sh setup",
    "hooks": {"guard": "verif", "enable": "none needed: the checker analyses the source of /repo/v2 as data (go/packages + go/ssa); no hook or instrumentation commits exist",
              "baseline_off_cmd": "cd /repo/v2 && go test -vet=off -count=1 -timeout 25m ./...",
              "source_commits": [], "add_only": True},
    "engines": [{"name": "kzcheck", "path": "/verif/checker", "serves_properties": [c["property_id"] for c in checks],
                 "kind_free_text": "repository-specific static analyser: go/packages + go/types + go/ssa + VTA call graph (x/tools v0.50.0, go1.26.8); dominance/typestate/taint/table-agreement rules; no kanzi code is executed"}],
    "checks": checks,
    "not_applicable": na,
    "notes": "All checks are static analyses of the current working tree of /repo/v2 at level 'other': each decides the structural clauses of its property named in level_claimed.text and states what it does not decide. Fourteen genuine defects (eleven found by the rules, three pointed out by independent reviewers, reproduced and then covered by a rule each) were repaired by fix: commits in /repo (see known_findings.txt, DESIGN.md section 5).",
}
json.dump(m, open('/verif/MANIFEST.json', 'w'), indent=1)
print("claimed", len(checks), "not_applicable", len(na))

#!/usr/bin/env python3
"""Regenerates MANIFEST.json. Claimed properties are those listed in CLAIMED below."""
import json, sys

NOTE = "Trusts go/types, go/ssa and the VTA call graph of x/tools v0.50.0 and the rule code in /verif/checker; assumes no unsafe/reflect/cgo/linkname in the module (checked on every run); integer arithmetic, buffer sizes and indices are not modelled; implicit flows are not tracked."
CLAIMED = {
 "C02": {"technique": "SSA dominance / must-pass-through analysis of decode and encode (R-CKSUM), typestate of error returns (R-ERRSTATE)",
         "text": "Decides structurally, for every path at once: the block hash is recomputed after the inverse transform on the buffer it wrote, compared at full width with the header field, a mismatch always sets the task error, no clean exit bypasses the comparison while a hasher is set; on encode the hash of the original block (computed before Forward) is what is written, with the hasher's width; error returns of Reader.processBlock publish 0 bytes so no later Read can deliver a failed batch. Does not decide hash strength or byte equality.",
         "note": NOTE},
 "C06": {"technique": "CFG loop / callee analysis of the bitstream refill (R-REFILL)",
         "text": "Decides the source-side clause only: the input bitstream refills its buffer completely (io.ReadFull/ReadAtLeast or a loop around the underlying Read that uses both count and error), which is the invariant every bulk read path relies on to decode identically from short-read sources. Does not decide Write/Read buffer-length independence (index arithmetic).",
         "note": NOTE + " The rule accepts only the refill-completely design."},
 "C07": {"technique": "SSA edge-dominance and all-paths analyses of the task functions, their deferred handlers and processBlock (R-TOKEN, R-CANCEL, R-POISON)",
         "text": "Decides the protocol's code obligations for every schedule at once because they are dominance facts: every shared-stream call is dominated by the acquire edge (counter == id-1) and none follows the release; ids are consecutive; spin loops have a cancel exit and yield; the deferred handler turns panics into errors, cancels on error, never advances the counter without holding the token, always calls Done; Add precedes go, Wait joins every path and dominates result reads; a cancelled counter makes every later Writer call fail. Does not decide fairness/timing.",
         "note": NOTE},
}
NOT_APPLICABLE = {
 "C16": "arithmetic post-condition of a rounding loop over all histograms; no clause is visible in code shape and no sound static argument (abstract interpretation over 256 symbolic counters) is in reach of the tools present; see DESIGN.md C16",
}
PENDING = "check not built yet in this session (static rule planned in DESIGN.md); not claimed until it runs clean"

props = [json.loads(l) for l in open('/verif/properties.jsonl')]
checks = []
na = []
for p in props:
    pid = p['id']
    if pid in CLAIMED:
        c = CLAIMED[pid]
        checks.append({
            "property_id": pid,
            "quick_cmd": f"./check.sh {pid} quick",
            "thorough_cmd": f"./check.sh {pid} thorough",
            "evidence_file": f"/verif/evidence/{pid}.json",
            "replay_cmd_template": "./check.sh raw -replay {path}",
            "engine": "kzcheck",
            "level_claimed": {"category": "other", "text": c["text"], "design_ref": c.get("ref", f"DESIGN.md section 3, {pid}")},
            "level_note": c["note"],
            "technique": c["technique"],
        })
    else:
        na.append({"property_id": pid, "reason": NOT_APPLICABLE.get(pid, PENDING)})
m = {
    "version": 1,
    "setup_cmd": "./check.sh setup",
    "hooks": {"guard": "verif", "enable": "none needed: the checker analyses the source of /repo/v2 as data (go/packages + go/ssa); no hook or instrumentation commits exist",
              "baseline_off_cmd": "cd /repo/v2 && go test -vet=off -count=1 -timeout 25m ./...",
              "source_commits": [], "add_only": True},
    "engines": [{"name": "kzcheck", "path": "/verif/checker", "serves_properties": sorted(CLAIMED),
                 "kind_free_text": "repository-specific static analyser: go/packages + go/types + go/ssa + VTA call graph (x/tools v0.50.0, go1.26.8); dominance/typestate/taint/table-agreement rules; no kanzi code is executed"}],
    "checks": checks,
    "not_applicable": na,
    "notes": "All checks are static analyses of the current working tree of /repo/v2 at level 'other': each decides the structural clauses of its property named in level_claimed.text and states what it does not decide. See DESIGN.md.",
}
json.dump(m, open('/verif/MANIFEST.json', 'w'), indent=1)
print("claimed", len(checks), "not_applicable", len(na))
